// compute-mirdump: rustc_private driver that writes a JSON "program database" (PDB)
// of the crate being compiled: every MIR body (opt-level 0), resolved callees,
// impl identities, ADT definitions and evaluated consts.
//
// Used as RUSTC_WORKSPACE_WRAPPER under `cargo +nightly check`; argv[1] is the real
// rustc path and is dropped.  The PDB is written with a single write to the path in
// $MIRDUMP_OUT, only for the crate named in $MIRDUMP_CRATE (default "compute").
#![feature(rustc_private)]

extern crate rustc_abi;
extern crate rustc_driver;
extern crate rustc_hir;
extern crate rustc_interface;
extern crate rustc_middle;
extern crate rustc_span;

use rustc_driver::{Callbacks, Compilation};
use rustc_hir::def::DefKind;
use rustc_hir::def_id::DefId;
use rustc_interface::interface::Compiler;
use rustc_middle::mir::{
    self, AggregateKind, BinOp, BorrowKind, CastKind, Const, Operand, Place, ProjectionElem,
    Rvalue, StatementKind, TerminatorKind, UnOp,
};
use rustc_middle::ty::print::{with_no_trimmed_paths, PrintTraitRefExt};
use rustc_middle::ty::{self, Instance, Ty, TyCtxt, TypingEnv};
use rustc_span::Span;
use std::fmt::Write as _;

fn esc(s: &str) -> String {
    let mut o = String::with_capacity(s.len() + 2);
    o.push('"');
    for c in s.chars() {
        match c {
            '"' => o.push_str("\\\""),
            '\\' => o.push_str("\\\\"),
            '\n' => o.push_str("\\n"),
            '\r' => o.push_str("\\r"),
            '\t' => o.push_str("\\t"),
            c if (c as u32) < 0x20 => {
                let _ = write!(o, "\\u{:04x}", c as u32);
            }
            c => o.push(c),
        }
    }
    o.push('"');
    o
}

struct Dumper<'tcx> {
    tcx: TyCtxt<'tcx>,
}

impl<'tcx> Dumper<'tcx> {
    fn path(&self, did: DefId) -> String {
        with_no_trimmed_paths!(self.tcx.def_path_str(did))
    }
    fn ty(&self, t: Ty<'tcx>) -> String {
        with_no_trimmed_paths!(format!("{}", t))
    }
    fn span(&self, sp: Span) -> String {
        let sm = self.tcx.sess.source_map();
        let lo = sm.lookup_char_pos(sp.lo());
        let hi = sm.lookup_char_pos(sp.hi());
        let name = match &lo.file.name {
            rustc_span::FileName::Real(r) => match r.local_path() {
                Some(p) => p.display().to_string(),
                None => format!("{:?}", lo.file.name),
            },
            other => format!("{:?}", other),
        };
        format!(
            "{}:{}:{}-{}:{}{}",
            name,
            lo.line,
            lo.col.0 + 1,
            hi.line,
            hi.col.0 + 1,
            if sp.from_expansion() { "!" } else { "" }
        )
    }

    fn place(&self, p: &Place<'tcx>) -> String {
        let mut s = format!("{{\"l\":{},\"p\":[", p.local.as_u32());
        let mut first = true;
        for e in p.projection.iter() {
            if !first {
                s.push(',');
            }
            first = false;
            match e {
                ProjectionElem::Deref => s.push_str("[\"deref\"]"),
                ProjectionElem::Field(f, t) => {
                    let _ = write!(s, "[\"field\",{},{}]", f.as_u32(), esc(&self.ty(t)));
                }
                ProjectionElem::Index(l) => {
                    let _ = write!(s, "[\"index\",{}]", l.as_u32());
                }
                ProjectionElem::ConstantIndex { offset, min_length, from_end } => {
                    let _ = write!(s, "[\"cindex\",{},{},{}]", offset, min_length, from_end);
                }
                ProjectionElem::Subslice { from, to, from_end } => {
                    let _ = write!(s, "[\"subslice\",{},{},{}]", from, to, from_end);
                }
                ProjectionElem::Downcast(name, v) => {
                    let n = name.map(|x| x.to_string()).unwrap_or_default();
                    let _ = write!(s, "[\"downcast\",{},{}]", v.as_u32(), esc(&n));
                }
                ProjectionElem::OpaqueCast(_) => s.push_str("[\"opaque\"]"),
                ProjectionElem::UnwrapUnsafeBinder(_) => s.push_str("[\"unwrapbinder\"]"),
            }
        }
        s.push_str("]}");
        s
    }

    fn fn_ref(&self, owner: DefId, did: DefId, args: ty::GenericArgsRef<'tcx>) -> String {
        // {"decl":path, "res":path|null, "gargs":[...], "closures":[...]}
        let tcx = self.tcx;
        let env = TypingEnv::post_analysis(tcx, owner);
        let mut res: Option<String> = None;
        let mut res_local = false;
        if let Ok(Some(inst)) = Instance::try_resolve(tcx, env, did, args) {
            let rd = inst.def_id();
            res = Some(self.path(rd));
            res_local = rd.is_local();
        }
        let mut ga = String::from("[");
        let mut first = true;
        for a in args.iter() {
            if !first {
                ga.push(',');
            }
            first = false;
            match a.kind() {
                ty::GenericArgKind::Type(t) => match t.kind() {
                    ty::Closure(cd, _) => {
                        let _ = write!(ga, "{}", esc(&format!("closure:{}", self.path(*cd))));
                    }
                    ty::FnDef(fd, _) => {
                        let _ = write!(ga, "{}", esc(&format!("fndef:{}", self.path(*fd))));
                    }
                    _ => {
                        let _ = write!(ga, "{}", esc(&self.ty(t)));
                    }
                },
                ty::GenericArgKind::Lifetime(_) => ga.push_str("\"'_\""),
                ty::GenericArgKind::Const(c) => {
                    let _ = write!(ga, "{}", esc(&format!("const:{}", c)));
                }
            }
        }
        ga.push(']');
        format!(
            "{{\"decl\":{},\"res\":{},\"res_local\":{},\"decl_local\":{},\"gargs\":{}}}",
            esc(&self.path(did)),
            match res {
                Some(r) => esc(&r),
                None => "null".into(),
            },
            res_local,
            did.is_local(),
            ga
        )
    }

    fn constant(&self, owner: DefId, c: &mir::ConstOperand<'tcx>) -> String {
        let tcx = self.tcx;
        let env = TypingEnv::post_analysis(tcx, owner);
        let t = c.const_.ty();
        match t.kind() {
            ty::FnDef(did, args) => {
                return format!("[\"fn\",{}]", self.fn_ref(owner, *did, args));
            }
            _ => {}
        }
        let tys = self.ty(t);
        let scalar_ok = matches!(
            t.kind(),
            ty::Bool | ty::Char | ty::Int(_) | ty::Uint(_) | ty::Float(_)
        );
        if scalar_ok {
            if let Some(si) = c.const_.try_eval_scalar_int(tcx, env) {
                let size = si.size();
                let bits = si.to_bits(size);
                return format!("[\"const\",{},{}]", esc(&tys), esc(&bits.to_string()));
            }
        }
        // reference to a scalar (promoted `&1` etc.): read the pointee
        if let ty::Ref(_, inner, _) = t.kind() {
            if matches!(inner.kind(), ty::Bool | ty::Char | ty::Int(_) | ty::Uint(_) | ty::Float(_)) {
                if let Ok(val) = c.const_.eval(tcx, env, c.span) {
                    if let mir::ConstValue::Scalar(rustc_middle::mir::interpret::Scalar::Ptr(ptr, _)) = val {
                        let (prov, offset) = ptr.into_raw_parts();
                        if let Some(rustc_middle::mir::interpret::GlobalAlloc::Memory(m)) =
                            tcx.try_get_global_alloc(prov.alloc_id())
                        {
                            if let Ok(layout) = tcx.layout_of(env.as_query_input(*inner)) {
                                let sz = layout.size.bytes_usize();
                                let off = offset.bytes_usize();
                                let a = m.inner();
                                if off + sz <= a.len() {
                                    let b = a.inspect_with_uninit_and_ptr_outside_interpreter(off..off + sz);
                                    let mut bits: u128 = 0;
                                    for (i, x) in b.iter().enumerate() {
                                        bits |= (*x as u128) << (8 * i);
                                    }
                                    return format!(
                                        "[\"const\",{},{}]",
                                        esc(&self.ty(*inner)),
                                        esc(&bits.to_string())
                                    );
                                }
                            }
                        }
                    }
                }
            }
        }
        // promoted constants of reference type (e.g. `&(0. ..=1.)`): identify them by pointee type + bytes
        if let Const::Unevaluated(u, _) = c.const_ {
            if u.promoted.is_some() {
                if let ty::Ref(_, inner, _) = t.kind() {
                    if let Ok(val) = c.const_.eval(tcx, env, c.span) {
                        if let mir::ConstValue::Scalar(rustc_middle::mir::interpret::Scalar::Ptr(ptr, _)) = val {
                            let (prov, offset) = ptr.into_raw_parts();
                            if let Some(rustc_middle::mir::interpret::GlobalAlloc::Memory(m)) =
                                tcx.try_get_global_alloc(prov.alloc_id())
                            {
                                if let Ok(layout) = tcx.layout_of(env.as_query_input(*inner)) {
                                    let sz = layout.size.bytes_usize();
                                    let off = offset.bytes_usize();
                                    let a = m.inner();
                                    if off + sz <= a.len() && a.provenance().ptrs().is_empty() {
                                        let b = a.inspect_with_uninit_and_ptr_outside_interpreter(off..off + sz);
                                        let mut h = String::from("bytes:");
                                        for x in b {
                                            let _ = write!(h, "{:02x}", x);
                                        }
                                        return format!("[\"constx\",{},{},null]", esc(&tys), esc(&h));
                                    }
                                }
                            }
                        }
                    }
                }
            }
        }
        // unevaluated path to a const item?
        let mut item = String::from("null");
        if let Const::Unevaluated(u, _) = c.const_ {
            item = esc(&self.path(u.def));
        }
        let dbg = with_no_trimmed_paths!(format!("{}", c.const_));
        format!("[\"constx\",{},{},{}]", esc(&tys), esc(&dbg), item)
    }

    fn operand(&self, owner: DefId, o: &Operand<'tcx>) -> String {
        match o {
            Operand::Copy(p) => format!("[\"copy\",{}]", self.place(p)),
            Operand::Move(p) => format!("[\"move\",{}]", self.place(p)),
            Operand::Constant(c) => self.constant(owner, c),
            Operand::RuntimeChecks(rc) => format!("[\"rtcheck\",{}]", esc(&format!("{:?}", rc))),
        }
    }

    fn binop(b: BinOp) -> &'static str {
        match b {
            BinOp::Add | BinOp::AddUnchecked => "Add",
            BinOp::AddWithOverflow => "AddO",
            BinOp::Sub | BinOp::SubUnchecked => "Sub",
            BinOp::SubWithOverflow => "SubO",
            BinOp::Mul | BinOp::MulUnchecked => "Mul",
            BinOp::MulWithOverflow => "MulO",
            BinOp::Div => "Div",
            BinOp::Rem => "Rem",
            BinOp::BitXor => "BitXor",
            BinOp::BitAnd => "BitAnd",
            BinOp::BitOr => "BitOr",
            BinOp::Shl | BinOp::ShlUnchecked => "Shl",
            BinOp::Shr | BinOp::ShrUnchecked => "Shr",
            BinOp::Eq => "Eq",
            BinOp::Lt => "Lt",
            BinOp::Le => "Le",
            BinOp::Ne => "Ne",
            BinOp::Ge => "Ge",
            BinOp::Gt => "Gt",
            BinOp::Cmp => "Cmp",
            BinOp::Offset => "Offset",
        }
    }

    fn rvalue(&self, owner: DefId, body: &mir::Body<'tcx>, rv: &Rvalue<'tcx>) -> String {
        let tcx = self.tcx;
        match rv {
            Rvalue::Use(o, _) => format!("[\"use\",{}]", self.operand(owner, o)),
            Rvalue::Repeat(o, n) => {
                format!("[\"repeat\",{},{}]", self.operand(owner, o), esc(&format!("{}", n)))
            }
            Rvalue::Ref(_, bk, p) => {
                let m = match bk {
                    BorrowKind::Shared => "shared",
                    BorrowKind::Fake(_) => "fake",
                    BorrowKind::Mut { .. } => "mut",
                };
                format!("[\"ref\",\"{}\",{}]", m, self.place(p))
            }
            Rvalue::RawPtr(k, p) => {
                format!("[\"rawptr\",{},{}]", esc(&format!("{:?}", k)), self.place(p))
            }
            Rvalue::Cast(k, o, t) => {
                let ks = match k {
                    CastKind::IntToInt => "IntToInt".to_string(),
                    CastKind::FloatToInt => "FloatToInt".to_string(),
                    CastKind::FloatToFloat => "FloatToFloat".to_string(),
                    CastKind::IntToFloat => "IntToFloat".to_string(),
                    CastKind::PtrToPtr => "PtrToPtr".to_string(),
                    CastKind::Transmute => "Transmute".to_string(),
                    CastKind::PointerCoercion(pc, _) => format!("Coerce:{:?}", pc),
                    other => format!("{:?}", other),
                };
                let from = o.ty(&body.local_decls, tcx);
                format!(
                    "[\"cast\",{},{},{},{}]",
                    esc(&ks),
                    self.operand(owner, o),
                    esc(&self.ty(*t)),
                    esc(&self.ty(from))
                )
            }
            Rvalue::BinaryOp(op, ab) => {
                let (a, b) = &**ab;
                let at = a.ty(&body.local_decls, tcx);
                format!(
                    "[\"bin\",\"{}\",{},{},{}]",
                    Self::binop(*op),
                    self.operand(owner, a),
                    self.operand(owner, b),
                    esc(&self.ty(at))
                )
            }
            Rvalue::UnaryOp(op, a) => {
                let ops = match op {
                    UnOp::Not => "Not",
                    UnOp::Neg => "Neg",
                    UnOp::PtrMetadata => "PtrMetadata",
                };
                let at = a.ty(&body.local_decls, tcx);
                format!("[\"un\",\"{}\",{},{}]", ops, self.operand(owner, a), esc(&self.ty(at)))
            }
            Rvalue::Discriminant(p) => format!("[\"discr\",{}]", self.place(p)),
            Rvalue::Aggregate(k, fields) => {
                let kind = match &**k {
                    AggregateKind::Array(t) => {
                        format!("{{\"k\":\"array\",\"ty\":{}}}", esc(&self.ty(*t)))
                    }
                    AggregateKind::Tuple => "{\"k\":\"tuple\"}".to_string(),
                    AggregateKind::Adt(did, v, _, _, _) => format!(
                        "{{\"k\":\"adt\",\"path\":{},\"variant\":{}}}",
                        esc(&self.path(*did)),
                        v.as_u32()
                    ),
                    AggregateKind::Closure(did, _) => {
                        format!("{{\"k\":\"closure\",\"path\":{}}}", esc(&self.path(*did)))
                    }
                    other => format!("{{\"k\":\"other\",\"dbg\":{}}}", esc(&format!("{:?}", other))),
                };
                let fs: Vec<String> = fields.iter().map(|o| self.operand(owner, o)).collect();
                format!("[\"agg\",{},[{}]]", kind, fs.join(","))
            }
            Rvalue::CopyForDeref(p) => format!("[\"use\",[\"copy\",{}]]", self.place(p)),
            other => format!("[\"other\",{}]", esc(&format!("{:?}", other))),
        }
    }

    fn body(&self, did: DefId, body: &mir::Body<'tcx>) -> String {
        let tcx = self.tcx;
        let mut s = String::new();
        // locals
        s.push_str("\"locals\":[");
        for (i, ld) in body.local_decls.iter().enumerate() {
            if i > 0 {
                s.push(',');
            }
            let _ = write!(
                s,
                "{{\"ty\":{},\"mut\":{}}}",
                esc(&self.ty(ld.ty)),
                ld.mutability.is_mut()
            );
        }
        s.push_str("],\"debug\":[");
        let mut first = true;
        for vdi in body.var_debug_info.iter() {
            if let mir::VarDebugInfoContents::Place(p) = &vdi.value {
                if !first {
                    s.push(',');
                }
                first = false;
                let _ = write!(s, "[{},{}]", esc(&vdi.name.to_string()), self.place(p));
            }
        }
        let _ = write!(s, "],\"arg_count\":{},\"blocks\":[", body.arg_count);
        for (bi, bb) in body.basic_blocks.iter().enumerate() {
            if bi > 0 {
                s.push(',');
            }
            s.push_str("{\"s\":[");
            let mut first = true;
            for st in bb.statements.iter() {
                let item = match &st.kind {
                    StatementKind::Assign(b) => {
                        let (p, rv) = &**b;
                        Some(format!(
                            "[\"assign\",{},{},{}]",
                            self.place(p),
                            self.rvalue(did, body, rv),
                            esc(&self.span(st.source_info.span))
                        ))
                    }
                    StatementKind::SetDiscriminant { place, variant_index } => Some(format!(
                        "[\"setdiscr\",{},{}]",
                        self.place(place),
                        variant_index.as_u32()
                    )),
                    StatementKind::Intrinsic(i) => {
                        Some(format!("[\"intrinsic\",{}]", esc(&format!("{:?}", i))))
                    }
                    _ => None,
                };
                if let Some(it) = item {
                    if !first {
                        s.push(',');
                    }
                    first = false;
                    s.push_str(&it);
                }
            }
            s.push_str("],\"t\":");
            let term = bb.terminator();
            let tsp = esc(&self.span(term.source_info.span));
            let t = match &term.kind {
                TerminatorKind::Goto { target } => format!("[\"goto\",{}]", target.as_u32()),
                TerminatorKind::SwitchInt { discr, targets } => {
                    let mut arms = String::from("[");
                    let mut f = true;
                    for (v, t) in targets.iter() {
                        if !f {
                            arms.push(',');
                        }
                        f = false;
                        let _ = write!(arms, "[{},{}]", esc(&v.to_string()), t.as_u32());
                    }
                    arms.push(']');
                    let dt = discr.ty(&body.local_decls, tcx);
                    format!(
                        "[\"switch\",{},{},{},{},{}]",
                        self.operand(did, discr),
                        arms,
                        targets.otherwise().as_u32(),
                        esc(&self.ty(dt)),
                        tsp
                    )
                }
                TerminatorKind::UnwindResume => "[\"resume\"]".to_string(),
                TerminatorKind::UnwindTerminate(_) => "[\"terminate\"]".to_string(),
                TerminatorKind::Return => "[\"return\"]".to_string(),
                TerminatorKind::Unreachable => "[\"unreachable\"]".to_string(),
                TerminatorKind::Drop { place, target, .. } => {
                    format!("[\"drop\",{},{}]", self.place(place), target.as_u32())
                }
                TerminatorKind::Call { func, args, destination, target, fn_span, .. } => {
                    let f = self.operand(did, func);
                    let a: Vec<String> = args.iter().map(|o| self.operand(did, &o.node)).collect();
                    let at: Vec<String> = args
                        .iter()
                        .map(|o| esc(&self.ty(o.node.ty(&body.local_decls, tcx))))
                        .collect();
                    format!(
                        "[\"call\",{{\"f\":{},\"args\":[{}],\"argtys\":[{}],\"dest\":{},\"target\":{},\"span\":{}}}]",
                        f,
                        a.join(","),
                        at.join(","),
                        self.place(destination),
                        match target {
                            Some(t) => t.as_u32().to_string(),
                            None => "null".to_string(),
                        },
                        esc(&self.span(*fn_span))
                    )
                }
                TerminatorKind::Assert { cond, expected, msg, target, .. } => {
                    let kind = format!("{:?}", msg);
                    let kind = kind.split('(').next().unwrap_or("").to_string();
                    format!(
                        "[\"assert\",{},{},{},{},{}]",
                        self.operand(did, cond),
                        expected,
                        esc(&kind),
                        target.as_u32(),
                        tsp
                    )
                }
                TerminatorKind::FalseEdge { real_target, .. } => {
                    format!("[\"goto\",{}]", real_target.as_u32())
                }
                TerminatorKind::FalseUnwind { real_target, .. } => {
                    format!("[\"goto\",{}]", real_target.as_u32())
                }
                other => format!("[\"other\",{}]", esc(&format!("{:?}", other))),
            };
            s.push_str(&t);
            let _ = write!(s, ",\"cleanup\":{}}}", bb.is_cleanup);
        }
        s.push(']');
        s
    }

    fn dump(&self) -> String {
        let tcx = self.tcx;
        let mut out = String::with_capacity(1 << 24);
        let _ = write!(
            out,
            "{{\"crate\":{},\"rustc\":{},",
            esc(tcx.crate_name(rustc_hir::def_id::LOCAL_CRATE).as_str()),
            esc(option_env!("CFG_VERSION").unwrap_or("nightly"))
        );
        // ---------------- bodies
        out.push_str("\"bodies\":{");
        let mut first = true;
        let mut seen = std::collections::HashSet::new();
        for ldid in tcx.hir_body_owners() {
            let did = ldid.to_def_id();
            let kind = tcx.def_kind(did);
            let k = match kind {
                DefKind::Fn => "fn",
                DefKind::AssocFn => "assoc",
                DefKind::Closure => "closure",
                _ => continue,
            };
            // skip test functions' bodies? cfg(test) is off under `check --lib`.
            let body = tcx.optimized_mir(did);
            let mut key = self.path(did);
            while !seen.insert(key.clone()) {
                key.push('\'');
            }
            if !first {
                out.push(',');
            }
            first = false;
            let _ = write!(out, "{}:{{\"kind\":\"{}\",", esc(&key), k);
            // visibility
            let vis = if matches!(kind, DefKind::Fn | DefKind::AssocFn) {
                if tcx.visibility(did).is_public() { "pub" } else { "restricted" }
            } else {
                "na"
            };
            let _ = write!(out, "\"vis\":\"{}\",", vis);
            let nm = tcx.opt_item_name(did).map(|n| n.to_string()).unwrap_or_else(|| "{closure}".to_string());
            let _ = write!(out, "\"name\":{},", esc(&nm));
            let parent = tcx.parent(did);
            let _ = write!(out, "\"parent\":{},", esc(&self.path(parent)));
            let _ = write!(out, "\"parent_kind\":{},", esc(&format!("{:?}", tcx.def_kind(parent))));
            // impl identity
            if kind == DefKind::AssocFn {
                if let Some(imp) = tcx.impl_of_assoc(did) {
                    let self_ty = tcx.type_of(imp).instantiate_identity().skip_norm_wip();
                    let tr = tcx.impl_opt_trait_ref(imp).map(|t| {
                        let t = t.instantiate_identity().skip_norm_wip();
                        with_no_trimmed_paths!(format!("{}", t.print_only_trait_path()))
                    });
                    let _ = write!(
                        out,
                        "\"impl\":{{\"self_ty\":{},\"trait\":{},\"span\":{}}},",
                        esc(&self.ty(self_ty)),
                        match tr {
                            Some(t) => esc(&t),
                            None => "null".into(),
                        },
                        esc(&self.span(tcx.def_span(imp)))
                    );
                } else {
                    out.push_str("\"impl\":null,");
                }
            } else {
                out.push_str("\"impl\":null,");
            }
            // signature
            if matches!(kind, DefKind::Fn | DefKind::AssocFn) {
                let sig = tcx.fn_sig(did).instantiate_identity().skip_norm_wip().skip_binder();
                let ins: Vec<String> = sig.inputs().iter().map(|t| esc(&self.ty(*t))).collect();
                let _ = write!(
                    out,
                    "\"sig\":{{\"inputs\":[{}],\"output\":{}}},",
                    ins.join(","),
                    esc(&self.ty(sig.output()))
                );
            } else {
                out.push_str("\"sig\":null,");
            }
            let _ = write!(out, "\"span\":{},", esc(&self.span(tcx.def_span(did))));
            out.push_str(&self.body(did, body));
            out.push('}');
        }
        out.push_str("},");
        // ---------------- ADTs, consts, impls
        let mut adts = Vec::new();
        let mut consts = Vec::new();
        let mut impls = Vec::new();
        let mut traits = Vec::new();
        let mut statics = Vec::new();
        for ldid in tcx.hir_crate_items(()).definitions() {
            let did = ldid.to_def_id();
            match tcx.def_kind(did) {
                DefKind::Struct | DefKind::Enum => {
                    let adt = tcx.adt_def(did);
                    let mut vs = Vec::new();
                    for v in adt.variants().iter() {
                        let mut fs = Vec::new();
                        for f in v.fields.iter() {
                            let fty = tcx.type_of(f.did).instantiate_identity().skip_norm_wip();
                            fs.push(format!(
                                "{{\"name\":{},\"ty\":{},\"pub\":{}}}",
                                esc(f.name.as_str()),
                                esc(&self.ty(fty)),
                                f.vis.is_public()
                            ));
                        }
                        vs.push(format!(
                            "{{\"name\":{},\"fields\":[{}]}}",
                            esc(v.name.as_str()),
                            fs.join(",")
                        ));
                    }
                    let self_ty = tcx.type_of(did).instantiate_identity().skip_norm_wip();
                    let env = TypingEnv::post_analysis(tcx, did);
                    let is_copy = tcx.generics_of(did).is_empty()
                        && tcx.type_is_copy_modulo_regions(env, self_ty);
                    adts.push(format!(
                        "{}:{{\"kind\":\"{}\",\"variants\":[{}],\"copy\":{},\"pub\":{},\"span\":{}}}",
                        esc(&self.path(did)),
                        if adt.is_enum() { "enum" } else { "struct" },
                        vs.join(","),
                        is_copy,
                        tcx.visibility(did).is_public(),
                        esc(&self.span(tcx.def_span(did)))
                    ));
                }
                DefKind::Const { .. } | DefKind::AssocConst { .. } => {
                    let t = tcx.type_of(did).instantiate_identity().skip_norm_wip();
                    let mut bytes = String::from("null");
                    if tcx.generics_of(did).is_empty() {
                        if let Ok(ca) = tcx.const_eval_poly_to_alloc(did) {
                            if let Some(ga) = tcx.try_get_global_alloc(ca.alloc_id) {
                                if let rustc_middle::mir::interpret::GlobalAlloc::Memory(m) = ga {
                                    let a = m.inner();
                                    let n = a.len();
                                    let has_ptr = !a.provenance().ptrs().is_empty();
                                    if !has_ptr {
                                        let b = a.inspect_with_uninit_and_ptr_outside_interpreter(0..n);
                                        let mut h = String::with_capacity(2 * n + 2);
                                        h.push('"');
                                        for x in b {
                                            let _ = write!(h, "{:02x}", x);
                                        }
                                        h.push('"');
                                        bytes = h;
                                    }
                                }
                            }
                        }
                    }
                    consts.push(format!(
                        "{}:{{\"ty\":{},\"bytes\":{},\"span\":{}}}",
                        esc(&self.path(did)),
                        esc(&self.ty(t)),
                        bytes,
                        esc(&self.span(tcx.def_span(did)))
                    ));
                }
                DefKind::Impl { .. } => {
                    let self_ty = tcx.type_of(did).instantiate_identity().skip_norm_wip();
                    let tr = tcx.impl_opt_trait_ref(did).map(|t| {
                        let t = t.instantiate_identity().skip_norm_wip();
                        (
                            with_no_trimmed_paths!(format!("{}", t.print_only_trait_path())),
                            self.path(t.def_id),
                        )
                    });
                    let items: Vec<String> = tcx
                        .associated_item_def_ids(did)
                        .iter()
                        .map(|d| esc(&self.path(*d)))
                        .collect();
                    impls.push(format!(
                        "{{\"self_ty\":{},\"trait\":{},\"trait_def\":{},\"items\":[{}],\"span\":{}}}",
                        esc(&self.ty(self_ty)),
                        match &tr {
                            Some(t) => esc(&t.0),
                            None => "null".into(),
                        },
                        match &tr {
                            Some(t) => esc(&t.1),
                            None => "null".into(),
                        },
                        items.join(","),
                        esc(&self.span(tcx.def_span(did)))
                    ));
                }
                DefKind::Static { .. } => {
                    let t = tcx.type_of(did).instantiate_identity().skip_norm_wip();
                    statics.push(format!(
                        "{}:{{\"ty\":{},\"span\":{}}}",
                        esc(&self.path(did)),
                        esc(&self.ty(t)),
                        esc(&self.span(tcx.def_span(did)))
                    ));
                }
                DefKind::Trait => {
                    let mut items = Vec::new();
                    for ai in tcx.associated_items(did).in_definition_order() {
                        items.push(format!(
                            "{{\"name\":{},\"path\":{},\"default\":{}}}",
                            esc(ai.name().as_str()),
                            esc(&self.path(ai.def_id)),
                            ai.defaultness(tcx).has_value()
                        ));
                    }
                    traits.push(format!("{}:{{\"items\":[{}]}}", esc(&self.path(did)), items.join(",")));
                }
                _ => {}
            }
        }
        let _ = write!(out, "\"adts\":{{{}}},", adts.join(","));
        let _ = write!(out, "\"consts\":{{{}}},", consts.join(","));
        let _ = write!(out, "\"impls\":[{}],", impls.join(","));
        let _ = write!(out, "\"traits\":{{{}}},", traits.join(","));
        let _ = write!(out, "\"statics\":{{{}}}", statics.join(","));
        out.push('}');
        out
    }
}

struct Cb {
    out: String,
    krate: String,
}

impl Callbacks for Cb {
    fn after_analysis<'tcx>(&mut self, _c: &Compiler, tcx: TyCtxt<'tcx>) -> Compilation {
        let name = tcx.crate_name(rustc_hir::def_id::LOCAL_CRATE);
        if name.as_str() == self.krate {
            // refuse to dump a crate that did not type-check
            if tcx.dcx().has_errors().is_some() {
                return Compilation::Continue;
            }
            let d = Dumper { tcx };
            let s = d.dump();
            std::fs::write(&self.out, s).expect("mirdump: cannot write PDB");
        }
        Compilation::Continue
    }
}

fn main() {
    let mut args: Vec<String> = std::env::args().collect();
    // RUSTC_WORKSPACE_WRAPPER: argv[1] is the path of the real rustc
    if args.len() > 1 && (args[1].ends_with("rustc") || args[1].contains("/rustc")) {
        args.remove(1);
    }
    let out = std::env::var("MIRDUMP_OUT").unwrap_or_else(|_| "/dev/null".into());
    let krate = std::env::var("MIRDUMP_CRATE").unwrap_or_else(|_| "compute".into());
    let mut cb = Cb { out, krate };
    rustc_driver::run_compiler(&args, &mut cb);
}
