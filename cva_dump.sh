#!/bin/bash
# usage: cva_dump.sh <repo-dir> <out.json>   -- dumps the PDB of <repo-dir>'s working tree
set -e
REPO=${1:-/repo}; OUT=$2
T=$(mktemp -d /tmp/cva-target.XXXXXX)
trap 'rm -rf "$T"' EXIT
cd "$REPO"
LD_LIBRARY_PATH=$(rustc +nightly --print sysroot)/lib \
RUSTFLAGS="-Zmir-opt-level=0 -Awarnings -Coverflow-checks=off -Cdebug-assertions=off" \
RUSTC_WORKSPACE_WRAPPER=/verif/driver/target/debug/compute-mirdump \
MIRDUMP_OUT="$OUT" CARGO_TARGET_DIR="$T/target" CARGO_NET_OFFLINE=true \
cargo +nightly check --offline --lib >"$T/log" 2>&1 || { cat "$T/log" >&2; exit 2; }
test -s "$OUT" || { echo "PDB not written" >&2; cat "$T/log" >&2; exit 2; }
