"""CFG utilities over a pdb.Body: predecessors, dominators, post-dominators,
natural loops, control dependence.  Cleanup (unwind) blocks are ignored; a call
with no target, `unreachable`, `resume` and calls to diverging functions are
exits of kind 'panic'; `return` is the exit of kind 'return'."""


class CFG:
    def __init__(self, body):
        self.body = body
        n = len(body.blocks)
        self.n = n
        self.succ = [[] for _ in range(n)]
        self.pred = [[] for _ in range(n)]
        self.live = [False] * n
        # reachable from entry through non-cleanup blocks
        stack = [0]
        self.live[0] = True
        while stack:
            b = stack.pop()
            for s in body.blocks[b].term.succs():
                if s is None or body.blocks[s].cleanup:
                    continue
                if s not in self.succ[b]:
                    self.succ[b].append(s)
                    self.pred[s].append(b)
                if not self.live[s]:
                    self.live[s] = True
                    stack.append(s)
        self.nodes = [i for i in range(n) if self.live[i]]
        self.returns = [i for i in self.nodes if body.blocks[i].term.kind == 'return']
        self.panics = [i for i in self.nodes if self.is_panic_block(i)]
        self._rpo = None
        self.idom = self._dominators()
        self.ipdom = self._postdominators()
        self._dom_cache = {}

    def is_panic_block(self, i):
        t = self.body.blocks[i].term
        if t.kind in ('unreachable', 'resume', 'terminate'):
            return t.kind != 'unreachable' or True
        if t.kind == 'call' and t.target is None:
            return True
        return False

    # ---------------------------------------------------------------- dominators
    def rpo(self):
        if self._rpo is None:
            seen = set()
            order = []

            def dfs(u):
                stack = [(u, iter(self.succ[u]))]
                seen.add(u)
                while stack:
                    node, it = stack[-1]
                    adv = False
                    for v in it:
                        if v not in seen:
                            seen.add(v)
                            stack.append((v, iter(self.succ[v])))
                            adv = True
                            break
                    if not adv:
                        order.append(node)
                        stack.pop()
            dfs(0)
            order.reverse()
            self._rpo = order
        return self._rpo

    def _dominators(self):
        rpo = self.rpo()
        idx = {b: i for i, b in enumerate(rpo)}
        idom = {0: 0}

        def inter(a, b):
            while a != b:
                while idx[a] > idx[b]:
                    a = idom[a]
                while idx[b] > idx[a]:
                    b = idom[b]
            return a
        changed = True
        while changed:
            changed = False
            for b in rpo[1:]:
                ps = [p for p in self.pred[b] if p in idom]
                if not ps:
                    continue
                new = ps[0]
                for p in ps[1:]:
                    new = inter(new, p)
                if idom.get(b) != new:
                    idom[b] = new
                    changed = True
        return idom

    def _postdominators(self):
        # virtual exit = -1, successors of exit nodes (return / panic)
        exits = [i for i in self.nodes if not self.succ[i]]
        rsucc = {i: list(self.pred[i]) for i in self.nodes}
        rsucc[-1] = exits
        rpred = {i: list(self.succ[i]) for i in self.nodes}
        for e in exits:
            rpred[e] = [-1]
        rpred[-1] = []
        seen = set([-1])
        order = []
        stack = [(-1, iter(rsucc[-1]))]
        while stack:
            node, it = stack[-1]
            adv = False
            for v in it:
                if v not in seen:
                    seen.add(v)
                    stack.append((v, iter(rsucc[v])))
                    adv = True
                    break
            if not adv:
                order.append(node)
                stack.pop()
        order.reverse()
        idx = {b: i for i, b in enumerate(order)}
        ipdom = {-1: -1}

        def inter(a, b):
            while a != b:
                while idx[a] > idx[b]:
                    a = ipdom[a]
                while idx[b] > idx[a]:
                    b = ipdom[b]
            return a
        changed = True
        while changed:
            changed = False
            for b in order[1:]:
                ps = [p for p in rpred[b] if p in ipdom]
                if not ps:
                    continue
                new = ps[0]
                for p in ps[1:]:
                    new = inter(new, p)
                if ipdom.get(b) != new:
                    ipdom[b] = new
                    changed = True
        return ipdom

    def dominates(self, a, b):
        """a dominates b (reflexive)"""
        if a == b:
            return True
        x = b
        while x in self.idom and self.idom[x] != x:
            x = self.idom[x]
            if x == a:
                return True
        return False

    def postdominates(self, a, b):
        if a == b:
            return True
        x = b
        while x in self.ipdom and self.ipdom[x] != x:
            x = self.ipdom[x]
            if x == a:
                return True
            if x == -1:
                break
        return False

    # ---------------------------------------------------------------- reachability
    def reach_from(self, start, avoid=()):
        """set of blocks reachable from `start` (inclusive) without passing through blocks in avoid"""
        avoid = set(avoid)
        if start in avoid:
            return set()
        seen = {start}
        stack = [start]
        while stack:
            u = stack.pop()
            for v in self.succ[u]:
                if v not in seen and v not in avoid:
                    seen.add(v)
                    stack.append(v)
        return seen

    def can_reach(self, a, b, avoid=()):
        return b in self.reach_from(a, avoid)

    def only_panics_from(self, start):
        """True if no return block is reachable from start"""
        r = self.reach_from(start)
        return not any(x in r for x in self.returns)

    # ---------------------------------------------------------------- loops
    def back_edges(self):
        out = []
        for u in self.nodes:
            for v in self.succ[u]:
                if self.dominates(v, u):
                    out.append((u, v))
        return out

    def loops(self):
        """header -> set of blocks of the natural loop"""
        res = {}
        for u, h in self.back_edges():
            body = res.setdefault(h, {h})
            stack = [u]
            while stack:
                x = stack.pop()
                if x in body:
                    continue
                body.add(x)
                stack.extend(self.pred[x])
        return res

    # ---------------------------------------------------------------- control dependence
    def control_deps(self):
        """block -> set of (branch_block, succ) edges it is control dependent on"""
        cd = {i: set() for i in self.nodes}
        for a in self.nodes:
            if len(self.succ[a]) < 2:
                continue
            for s in self.succ[a]:
                # walk from s up the post-dominator tree until ipdom(a)
                stop = self.ipdom.get(a, -1)
                x = s
                guard = 0
                while x != stop and x != -1 and guard < 10000:
                    cd[x].add((a, s))
                    x = self.ipdom.get(x, -1)
                    guard += 1
        return cd
