"""Log-linear normal form of positive closed forms (C02 `mvn-density`).

A density of the exponential-family shape  exp(lin) * prod base_i ^ e_i  has a logarithm that is a linear combination of a few atoms.
`log_form(t)` returns ln(t) and `lin_form(t)` returns t itself as {monomial: Fraction}, a monomial being a sorted tuple of atom names
(() is the constant 1, ('d', 'ln2') is d*ln 2).  Atoms are supplied by the caller (`atom(t)` -> name or None) plus the built-in
constants ln2, lnpi and numeric literals.  Integer division of an atom (d / 2 computed in usize / i32) is not linear: Inexact is raised
with the offending term, which the caller reports as the violation it is (the exponent is wrong for odd d)."""
from fractions import Fraction
import math
from .ir import tag, show, short, is_f64_method, f64_method_name


class Unread(Exception):
    pass


class Inexact(Exception):
    pass


def _add(a, b, s=1):
    out = dict(a)
    for k, v in b.items():
        out[k] = out.get(k, 0) + s * v
        if out[k] == 0:
            del out[k]
    return out


def _scale(a, c):
    return {k: v * c for k, v in a.items() if v * c != 0}


def _mul(a, b):
    out = {}
    for k1, v1 in a.items():
        for k2, v2 in b.items():
            k = tuple(sorted(k1 + k2))
            out[k] = out.get(k, 0) + v1 * v2
            if out[k] == 0:
                del out[k]
    return out


def _const(t):
    if tag(t) == 'const' and isinstance(t[2], (int, float)) and not isinstance(t[2], bool):
        return t[2]
    return None


class LogLin:
    def __init__(self, atom):
        self.atom = atom

    # ---- value of an additive expression
    def lin(self, t):
        while tag(t) == 'cast' and t[1] in ('IntToFloat', 'IntToInt'):
            t = t[2]
        a = self.atom(t)
        if a is not None:
            return {(a,): Fraction(1)}
        c = _const(t)
        if c is not None:
            return {(): Fraction(c).limit_denominator(10 ** 9)} if c != 0 else {}
        k = tag(t)
        if k == 'bin' and t[1] in ('Add', 'Sub'):
            return _add(self.lin(t[2]), self.lin(t[3]), 1 if t[1] == 'Add' else -1)
        if k == 'bin' and t[1] == 'Mul':
            return _mul(self.lin(t[2]), self.lin(t[3]))
        if k == 'bin' and t[1] == 'Div':
            if t[4] not in ('f64', 'f32'):
                raise Inexact('%s is an integer division' % show(t)[:60])
            d = self.lin(t[3])
            if set(d) != {()}:
                raise Unread('division by %s' % show(t[3])[:40])
            return _scale(self.lin(t[2]), 1 / d[()])
        if k == 'un' and t[1] == 'Neg':
            return _scale(self.lin(t[2]), -1)
        if k == 'call' and is_f64_method(t[1]):
            n = f64_method_name(t[1])
            if n == 'ln':
                return self.log(t[2][0])
        raise Unread('additive term %s' % show(t)[:60])

    # ---- logarithm of a multiplicative expression
    def log(self, t):
        a = self.atom(t)
        if a is not None:
            return {('ln' + a,): Fraction(1)}
        c = _const(t)
        if c is not None:
            if c == 2.0:
                return {('ln2',): Fraction(1)}
            if abs(c - math.pi) < 1e-15:
                return {('lnpi',): Fraction(1)}
            if c == 1.0:
                return {}
            if c == 0.5:
                return {('ln2',): Fraction(-1)}
            raise Unread('constant %r' % c)
        k = tag(t)
        if k == 'bin' and t[1] == 'Mul':
            return _add(self.log(t[2]), self.log(t[3]))
        if k == 'bin' and t[1] == 'Div':
            return _add(self.log(t[2]), self.log(t[3]), -1)
        if k == 'call' and is_f64_method(t[1]):
            n = f64_method_name(t[1])
            if n == 'sqrt':
                return _scale(self.log(t[2][0]), Fraction(1, 2))
            if n == 'exp':
                return self.lin(t[2][0])
            if n in ('powi', 'powf'):
                return _mul(self.log(t[2][0]), self.lin(t[2][1]))
            if n == 'recip':
                return _scale(self.log(t[2][0]), -1)
        raise Unread('factor %s' % show(t)[:60])


def show_form(d):
    if not d:
        return '0'
    parts = []
    for k, v in sorted(d.items()):
        parts.append('%s%s' % ('' if v == 1 else ('%s*' % v), '*'.join(k) or '1'))
    return ' + '.join(parts)
