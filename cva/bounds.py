"""Trip-count bounds for integer counters (E-ABS, C16).

A counter is a multi-def integer local whose definitions are constant initialisations and increments
`c := c + k` (k a non-negative constant) placed inside `for` loops over a Range.  Its value is bounded by
init + k * (hi - lo) for the innermost enclosing loop of each increment, provided the initialisation dominates
that loop and lies outside it (the counter restarts for every iteration of outer loops)."""
from .ir import tag, show
from .poly import poly, padd, pscale, psub, pconst


def _self_bounded(f, loc, inc, inits, k):
    """upper bound H of a counter incremented by 1 in a natural loop whose header leaves the loop exactly when `loc < H` fails"""
    from .ir import subterms
    if k != 1 or f.body.local_ty(loc[1]) not in ('usize', 'u64', 'u32'):
        return None
    cfg = f.cfg
    cands = [(h, bl) for h, bl in cfg.loops().items() if inc.bb in bl]
    if not cands:
        return None
    h, blocks = min(cands, key=lambda hb: len(hb[1]))
    if any(i.bb in blocks or not cfg.dominates(i.bb, h) for i in inits):
        return None
    assigned = {st.target for st in f.stores() if st.bb in blocks and tag(st.target) == 'local'}
    for s_, d_, cn, v in f.edge_conditions():
        if s_ == h and d_ not in blocks and tag(cn) == 'bin' and isinstance(v, bool):
            op, a, b = cn[1], cn[2], cn[3]
            # leaving when (loc < H) is false, or when (H > loc) is false
            if (op == 'Lt' and a == loc and v is False) or (op == 'Gt' and b == loc and v is False):
                H = b if op == 'Lt' else a
            elif (op == 'Ge' and a == loc and v is True) or (op == 'Le' and b == loc and v is True):
                H = b if op == 'Ge' else a
            else:
                continue
            if any(z in assigned for z in subterms(H)):
                continue
            return poly(H)
    return None


def counter_bounds(f):
    """local term -> (lower poly, upper poly) or nothing if not a recognised counter"""
    out = {}
    stores = {}
    for s in f.stores():
        if tag(s.target) == 'local':
            stores.setdefault(s.target, []).append(s)
    loops = f.loop_info()
    for loc, ss in stores.items():
        ty = f.body.local_ty(loc[1])
        if ty not in ('usize', 'u64', 'u32', 'i32', 'i64', 'isize'):
            continue
        inits = []
        incs = []
        ok = True
        for s in ss:
            v = s.value
            if tag(v) == 'const' and isinstance(v[2], int):
                inits.append(s)
            elif tag(v) == 'bin' and v[1] in ('Add', 'AddO') and v[2] == loc and tag(v[3]) == 'const' and isinstance(v[3][2], int) and v[3][2] >= 0:
                incs.append(s)
            elif tag(v) == 'field' and tag(v[1]) == 'bin' and v[1][1] == 'AddO' and v[1][2] == loc and tag(v[1][3]) == 'const':
                incs.append(s)
            else:
                ok = False
        if not ok or not inits:
            continue
        lo = min(s.value[2] for s in inits)
        hi = {(): max(s.value[2] for s in inits)} if max(s.value[2] for s in inits) != 0 else {}
        good = True
        for s in incs:
            v = s.value
            k = v[3][2] if tag(v) == 'bin' else v[1][3][2]
            encl = [li for li in loops if s.bb in li['blocks']]
            nat = [(h_, bl_) for h_, bl_ in f.cfg.loops().items() if s.bb in bl_]
            if nat and encl:
                h_in = min(nat, key=lambda hb: len(hb[1]))[0]
                if h_in not in [li['header'] for li in encl if li['item'] is not None]:
                    encl = []          # the innermost loop around the increment is not a `for` loop
            if not encl:
                # `while c < H { .. c += 1 }`: the counter bounds itself.  With an unsigned counter starting at 0 and increments of 1 the
                # value never exceeds H (loop-invariant), whichever way the loop is left
                wb = _self_bounded(f, loc, s, inits, k)
                if wb is not None and lo == 0 and not hi:
                    hi = wb
                    continue
                good = False
                break
            inner = min(encl, key=lambda li: len(li['blocks']))
            it = inner['iter']
            if inner['item'] is None or tag(it) != 'range':
                good = False
                break
            # every initialisation must be outside the inner loop and dominate its header
            if any(i.bb in inner['blocks'] or not f.cfg.dominates(i.bb, inner['header']) for i in inits):
                good = False
                break
            # at most one increment per iteration: the increment block is in the loop once (no nested loop inside)
            trip = psub(poly(it[2]), poly(it[1]))
            hi = padd(hi, pscale(trip, k))
        if good:
            out[loc] = ({(): lo} if lo else {}, hi)
    # counting calls: partition_point(s, p), s.iter().take_while(p).count(), s.iter().position(p) lie in [0, len(s)]
    from .ir import subterms, short

    def slice_len(t):
        while tag(t) == 'call' and short(t[1]) in ('iter', 'into_iter', 'deref', 'as_slice') and t[2]:
            t = t[2][0]
        if tag(t) == 'index' and tag(t[2]) == 'agg' and 'RangeTo' in str(t[2][2]) and 'Inclusive' not in str(t[2][2]) and len(t[2][3]) == 1:
            return poly(t[2][3][0])
        if tag(t) == 'index' and tag(t[2]) == 'range':
            return psub(poly(t[2][2]), poly(t[2][1]))
        if tag(t) in ('arg', 'local'):
            return poly(('len', t))
        if tag(t) == 'range':
            return psub(poly(t[2]), poly(t[1]))        # an integer range iterated directly: hi - lo items
        return None

    def count_bound(v):
        if tag(v) != 'call':
            return None
        n = short(v[1])
        if n == 'partition_point' and v[2]:
            return slice_len(v[2][0])
        if n == 'count' and v[2] and tag(v[2][0]) == 'call' and short(v[2][0][1]) in ('take_while', 'filter') and v[2][0][2]:
            return slice_len(v[2][0][2][0])
        if n == 'unwrap_or' and len(v[2]) == 2 and tag(v[2][0]) == 'call' and short(v[2][0][1]) == 'position' and v[2][0][2]:
            # it.position(p).unwrap_or(d): an offset into `it` (0..trip-1) or the default
            it = v[2][0][2][0]
            while tag(it) == 'call' and short(it[1]) in ('into_iter', 'by_ref') and it[2]:
                it = it[2][0]
            trip = psub(poly(it[2]), poly(it[1])) if tag(it) == 'range' else slice_len(it)
            if trip is None:
                return None
            d = poly(v[2][1])
            diff = pconst(psub(d, psub(trip, {(): 1})))
            if diff is None:
                return None
            return d if diff >= 0 else psub(trip, {(): 1})
        return None
    cands = set()
    for s_, d_, c, v in f.edge_conditions():
        for z in subterms(c):
            if tag(z) == 'call':
                cands.add(z)
    for z in cands:
        b = count_bound(z)
        if b is not None:
            out[z] = ({}, b)
    # counters that are either scanned or assigned a counting call
    for loc, ss in stores.items():
        if loc in out:
            continue
        ty = f.body.local_ty(loc[1])
        if ty not in ('usize', 'u64'):
            continue
        his = []
        for s in ss:
            v = s.value
            if tag(v) == 'const' and isinstance(v[2], int):
                his.append({(): v[2]} if v[2] else {})
            elif count_bound(v) is not None:
                his.append(count_bound(v))
            elif tag(v) == 'bin' and v[1] in ('Add', 'AddO') and v[2] == loc and tag(v[3]) == 'const' and v[3][2] == 1:
                encl = [li for li in loops if s.bb in li['blocks']]
                if not encl:
                    his = None
                    break
                inner = min(encl, key=lambda li: len(li['blocks']))
                it = inner['iter']
                inits = [i for i in ss if tag(i.value) == 'const']
                if inner['item'] is None or tag(it) != 'range' or not inits or any(i.bb in inner['blocks'] or not f.cfg.dominates(i.bb, inner['header']) for i in inits):
                    his = None
                    break
                his.append(padd({(): max(i.value[2] for i in inits)} if max(i.value[2] for i in inits) else {}, psub(poly(it[2]), poly(it[1]))))
            else:
                his = None
                break
        if his:
            # upper bound = pointwise maximum; only decidable when all candidates are equal or constants below
            nonconst = [h for h in his if pconst(h) is None]
            if nonconst and all(h == nonconst[0] for h in nonconst) and all(pconst(h) is None or pconst(h) == 0 for h in his):
                out[loc] = ({}, nonconst[0])
    return out


def definitely_negative(p):
    """p (a polynomial over non-negative atoms such as lengths) is < 0 for all atom values: only decidable when constant"""
    c = pconst(p)
    return c is not None and c < 0


def definitely_nonneg(p):
    c = pconst(p)
    if c is not None:
        return c >= 0
    # all coefficients non-negative and atoms are lengths (non-negative)
    return all(v >= 0 for v in p.values())
