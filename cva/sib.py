"""E-SIB: sibling skeletons.  Two implementations of one algorithm (slice-level vs Matrix-level) are normalised to
abstract statements — 2-D accesses A2(role, row, col), loop variables named by loop order, sizes named by role — and
compared as multisets of stores, branch conditions, loop ranges and swaps."""
from .ir import tag, show, short, subterms, map_term, is_f64_method, f64_method_name
from .idx import IdxFunc, strip_casts
from .poly import poly, pshow, peq, pconst


class Skeleton:
    def __init__(self, prog, f, roles, sizes):
        """roles: list of (predicate(term)->bool or term, name) for array objects; sizes: same for size terms"""
        self.prog = prog
        self.f = f
        self.ix = IdxFunc(prog, f)
        self.roles = roles
        self.sizes = sizes
        order = f.cfg.rpo()
        loops = sorted(self.ix.loops, key=lambda li: order.index(li['header']))
        self.item_names = {li['item']: 'i%d' % n for n, li in enumerate(loops)}
        self.loops = loops
        self.problems = []

    def role(self, t):
        for m, name in self.roles:
            if (callable(m) and m(t)) or (not callable(m) and m == t):
                return name
        return None

    def size(self, t):
        t = strip_casts(t)
        for m, name in self.sizes:
            if (callable(m) and m(t)) or (not callable(m) and m == t):
                return name
        return None

    # ---- index expressions -> canonical strings
    def idx(self, t):
        p = poly(t)
        out = []
        for m, c in sorted(p.items(), key=lambda kv: repr(kv[0])):
            names = []
            for x in m:
                if tag(x) == 'item':
                    names.append(self.item_names.get(x, '?item'))
                else:
                    s = self.size(x)
                    if s is None:
                        if tag(x) == 'call' and x[1] in ('std::cmp::min', 'std::cmp::Ord::min', 'core::cmp::min'):
                            s = 'min(%s,%s)' % tuple(sorted((self.idx(x[2][0]), self.idx(x[2][1]))))
                        elif tag(x) == 'local':
                            s = 'var:%s' % (x[2] or '?')
                        elif tag(x) == 'cast' or tag(x) == 'index':
                            s = self.val(x)
                        else:
                            s = '?' + show(x)[:30]
                            self.problems.append('unnamed size %s' % show(x)[:60])
                    names.append(s)
            names.sort()
            out.append(('%d*' % c if c != 1 else '') + ('*'.join(names) if names else '1') if names or c != 1 else '1')
            if not names and c != 1:
                out[-1] = str(c)
        return '+'.join(out) if out else '0'

    def access(self, base, idxterm):
        r = self.role(base)
        if r is None:
            return None
        p = poly(idxterm)
        nsz = [x for x in {a for m in p for a in m} if self.size(x) == 'N']
        if nsz:
            sp = self.ix.split_stride(p, prefer=tuple(nsz))
            if sp is not None and self.size(sp[0]) == 'N':
                return 'A2(%s,%s,%s)' % (r, self.idx(_p2t(sp[1])), self.idx(_p2t(sp[2])))
        return 'A1(%s,%s)' % (r, self.idx(idxterm))

    # ---- values
    def val(self, t):
        k = tag(t)
        if k == 'index':
            if tag(t[2]) == 'range':
                r = self.role(t[1])
                lo, hi = t[2][1], t[2][2]
                sl = self.slice2(t[1], lo, hi)
                if sl:
                    return sl
                # Matrix row then sub-range: self[i][lo..hi]
                if tag(t[1]) == 'call' and short(t[1][1]) in ('index', 'index_mut') and len(t[1][2]) == 2 and self.role(t[1][2][0]):
                    from .poly import psub
                    return 'ROW(%s,%s,%s..+%s)' % (self.role(t[1][2][0]), self.idx(t[1][2][1]), self.idx(lo), self.idx(_p2t(psub(poly(hi), poly(lo)))))
                return 'S(%s,%s..%s)' % (r or self.val(t[1]), self.idx(lo), self.idx(hi))
            if tag(t[2]) == 'call' and 'RangeFrom' in t[2][1] or (tag(t[2]) == 'agg' and t[2][2] and 'Range' in str(t[2][2])):
                return 'S(%s,%s)' % (self.role(t[1]) or self.val(t[1]), ','.join(self.idx(x) for x in t[2][3]) if tag(t[2]) == 'agg' else '?')
            a = self.access(t[1], t[2])
            if a:
                return a
            # row slice of a Matrix then element
            if tag(t[1]) == 'call' and short(t[1][1]) in ('index', 'index_mut') and len(t[1][2]) == 2 and self.role(t[1][2][0]):
                return 'A2(%s,%s,%s)' % (self.role(t[1][2][0]), self.idx(t[1][2][1]), self.idx(t[2]))
            return '%s[%s]' % (self.val(t[1]), self.idx(t[2]))
        if k == 'call':
            p = t[1]
            sz = self.size(t)
            if sz:
                return sz
            if short(p) in ('index', 'index_mut') and len(t[2]) == 2 and self.role(t[2][0]) and tag(t[2][1]) == 'agg' and t[2][1][1] == 'array' and len(t[2][1][3]) == 2:
                i, j = t[2][1][3]
                return 'A2(%s,%s,%s)' % (self.role(t[2][0]), self.idx(i), self.idx(j))
            if is_f64_method(p):
                return '%s.%s(%s)' % (self.val(t[2][0]), f64_method_name(p), ','.join(self.val(x) for x in t[2][1:]))
            if p.endswith('utils::dot'):
                return 'dot(%s,%s)' % (self.val(t[2][0]), self.val(t[2][1]))
            r = self.role(t)
            if r:
                return r
            return '%s(%s)' % (short(p), ','.join(self.val(x) for x in t[2]))
        if k == 'bin':
            sym = {'Add': '+', 'Sub': '-', 'Mul': '*', 'Div': '/', 'Gt': '>', 'Lt': '<', 'Ge': '>=', 'Le': '<=', 'Eq': '==', 'Ne': '!='}.get(t[1], t[1])
            if t[4] != 'f64' and t[1] in ('Add', 'Sub', 'Mul'):
                return self.idx(t)
            a, b = self.val(t[2]), self.val(t[3])
            if t[1] in ('Add', 'Mul', 'Eq', 'Ne') and a > b:
                a, b = b, a
            if t[1] in ('Gt', 'Ge'):
                return '(%s %s %s)' % (b, {'Gt': '<', 'Ge': '<='}[t[1]], a)
            return '(%s %s %s)' % (a, sym, b)
        if k == 'un':
            return '%s(%s)' % (t[1], self.val(t[2]))
        if k == 'const':
            return repr(t[2])
        if k == 'cast':
            return self.val(t[2])
        if k == 'item':
            return self.item_names.get(t, '?item')
        if k == 'local':
            return 'var:%s' % (t[2] or '?')
        if k in ('arg', 'field', 'len'):
            s = self.size(t)
            if s:
                return s
            r = self.role(t)
            if r:
                return r
        r = self.role(t)
        if r:
            return r
        return show(t)[:60]

    def slice2(self, base, lo, hi):
        r = self.role(base)
        if r is None:
            return None
        plo, phi = poly(lo), poly(hi)
        nsz = [x for x in {a for m in plo for a in m} if self.size(x) == 'N']
        sp = self.ix.split_stride(plo, prefer=tuple(nsz)) if nsz else None
        if sp is not None and self.size(sp[0]) == 'N':
            from .poly import psub, padd
            ext = psub(phi, plo)
            return 'ROW(%s,%s,%s..+%s)' % (r, self.idx(_p2t(sp[1])), self.idx(_p2t(sp[2])), self.idx(_p2t(ext)))
        return None

    # ---- skeleton
    def lines(self):
        f = self.f
        out = []
        for li in self.loops:
            r = self.ix.item_range(li['item'])
            it = li['iter']
            rev = 'rev ' if _has_rev(it) else ''
            if r is None:
                out.append('loop %s over %s' % (self.item_names[li['item']], show(it)[:40]))
            else:
                out.append('loop %s%s in %s..%s' % (rev, self.item_names[li['item']], self.idx(_p2t(r[0])), self.idx(_p2t(r[1]))))
        for s in f.stores():
            if tag(s.target) == 'local' and f.body.local_ty(s.target[1]) == '()':
                continue
            tgt = s.target
            if tag(tgt) == 'index' or tag(tgt) == 'call':
                ts = self.val(tgt)
            else:
                ts = self.val(tgt)
            out.append('store %s := %s' % (ts, self.val(s.value)))
        conds = set()
        for bb, gl in f.guards().items():
            for c, v in gl:
                if tag(c) == 'discr' or (tag(c) == 'bin' and any(tag(z) == 'len' for z in (c[2], c[3])) and tag(c[2]) != 'call'):
                    pass
                if tag(c) == 'discr':
                    continue
                if tag(c) == 'bin' and c[1] in ('Lt', 'Eq') and c[4] == 'usize' and (tag(c[3]) == 'len' or tag(strip_casts(c[2])) == 'const' and tag(c[3]) != 'field'):
                    # bounds checks / division-by-zero checks inserted by the compiler
                    if tag(c[3]) == 'len' or (tag(c[2]) == 'const' and tag(c[3]) == 'const'):
                        continue
                conds.add('cond %s' % self.val(c))
        out.extend(sorted(conds))
        for c in f.calls():
            if c.path and short(c.path) == 'swap' and len(c.args) == 3:
                a = [self.val(c.args[0])]
                # element swaps on a flat buffer: express as 2-D positions when possible
                for x in c.args[1:]:
                    acc = self.access(c.args[0], x)
                    a.append(acc or self.idx(x))
                out.append('swap %s' % ' '.join(a))
        return sorted(out)


def _has_rev(it):
    while tag(it) == 'call':
        if short(it[1]) == 'rev':
            return True
        if not it[2]:
            return False
        it = it[2][0]
    return False


def _p2t(p):
    """polynomial back to a term (sum of products)"""
    terms = []
    for m, c in p.items():
        t = None
        for x in m:
            t = x if t is None else ('bin', 'Mul', t, x, 'usize')
        if t is None:
            t = ('const', 'usize', c)
        elif c != 1:
            t = ('bin', 'Mul', ('const', 'usize', c), t, 'usize')
        terms.append(t)
    if not terms:
        return ('const', 'usize', 0)
    out = terms[0]
    for t in terms[1:]:
        out = ('bin', 'Add', out, t, 'usize')
    return out


def diff(a, b):
    from collections import Counter
    ca, cb = Counter(a), Counter(b)
    only_a = sorted((ca - cb).elements())
    only_b = sorted((cb - ca).elements())
    return only_a, only_b
