"""Per-function analysis context: symbolic terms for MIR values (value numbering by
structural hashing of definition trees), guards, loops, stores, calls.

Terms are nested tuples:
  ('arg', i, name)                 function parameter (i is the MIR local, 1-based)
  ('upvar', k)                     k-th captured variable of a closure body
  ('local', l, name)               a local with several definitions (loop-carried / reassigned)
  ('const', ty, value)             scalar literal
  ('constx', ty, text, item)       other constant (unit, str, unevaluated const item)
  ('bin', op, a, b, operand_ty)
  ('un', op, a, operand_ty)
  ('cast', kind, a, to_ty, from_ty)
  ('call', path, (args...), site)  site is None for pure callees, (bb,) for impure ones
  ('field', base, idx)
  ('index', base, idx)
  ('len', base)
  ('downcast', base, variant)
  ('discr', base)
  ('agg', kind, path, (fields...))        kind in adt|tuple|array|closure
  ('range', lo, hi) / ('rangeincl', lo, hi)
  ('item', site, iterator)         the value produced by Iterator::next at loop site
  ('fnptr', path)                  a function item used as a value
  ('repeat', elem, n)
References are transparent: &x, &mut x, *p, Deref::deref, as_ref, borrow ... all map to
the term of the referent, so a term denotes an object or a value.
"""
from .cfg import CFG

# ----------------------------------------------------------------------------- callee normalisation

IDENTITY_CALLS = {
    '<std::vec::Vec<T, A> as std::ops::Deref>::deref',
    '<std::vec::Vec<T, A> as std::ops::DerefMut>::deref_mut',
    '<linalg::array::vec::Vector as std::ops::Deref>::deref',
    '<linalg::array::vec::Vector as std::ops::DerefMut>::deref_mut',
    '<linalg::array::matrix::Matrix as std::ops::Deref>::deref',
    '<linalg::array::matrix::Matrix as std::ops::DerefMut>::deref_mut',
    'std::vec::Vec::<T, A>::as_slice',
    'std::vec::Vec::<T, A>::as_mut_slice',
    '<I as std::iter::IntoIterator>::into_iter',
    'std::iter::Iterator::by_ref',
    '<T as std::convert::Into<U>>::into',          # only Vec<f64> <-> Vector in this crate; see std_summary
    '<T as std::convert::From<T>>::from',
    '<T as std::borrow::Borrow<T>>::borrow',
    '<T as std::borrow::BorrowMut<T>>::borrow_mut',
    '<T as std::convert::AsRef<U>>::as_ref',
    'std::option::Option::<T>::as_ref',
    '<[T] as std::convert::AsRef<[T]>>::as_ref',
    '<std::vec::Vec<T, A> as std::convert::AsRef<[T]>>::as_ref',
    'std::iter::Iterator::copied',
    'std::iter::Iterator::cloned',
    'std::mem::drop',
    'std::clone::impls::<impl std::clone::Clone for &T>::clone',
    'std::clone::impls::<impl std::clone::Clone for f64>::clone',
    'std::clone::impls::<impl std::clone::Clone for usize>::clone',
    'std::clone::impls::<impl std::clone::Clone for bool>::clone',
    'std::hint::must_use',
    'core::slice::iter::<impl std::iter::IntoIterator for &\'a [T]>::into_iter',
    '<std::vec::Vec<T, A> as std::iter::IntoIterator>::into_iter',
}

import re as _re
_F64_OP = _re.compile(r"^<&?f64 as std::ops::(Add|Sub|Mul|Div)<&?f64>>::(add|sub|mul|div)$")
_F64_OPASSIGN = _re.compile(r"^<f64 as std::ops::(Add|Sub|Mul|Div)Assign<&?f64>>::(add|sub|mul|div)_assign$")

OWNED_PREFIXES = ('std::vec::Vec<', 'linalg::array::vec::Vector', 'linalg::array::matrix::Matrix')


def is_owned_heap_ty(ty):
    return ty.startswith(OWNED_PREFIXES)


INDEX_CALLS = {
    '<std::vec::Vec<T, A> as std::ops::Index<I>>::index',
    '<std::vec::Vec<T, A> as std::ops::IndexMut<I>>::index_mut',
    'core::slice::index::<impl std::ops::Index<I> for [T]>::index',
    'core::slice::index::<impl std::ops::IndexMut<I> for [T]>::index_mut',
    'std::ops::Index::index',
    'std::ops::IndexMut::index_mut',
}

LEN_CALLS = {
    'core::slice::<impl [T]>::len',
    'std::vec::Vec::<T, A>::len',
    '<std::ops::Range<usize> as std::iter::ExactSizeIterator>::len',
}

NEXT_CALLS_SUFFIX = ('::next',)

IMPURE_PREFIXES = ('alea::',)


def is_next_call(path):
    return path.endswith('>::next') or path == 'std::iter::Iterator::next' or path.endswith('::next')


def is_f64_method(path):
    return path.startswith('std::f64::<impl f64>::') or path.startswith('core::f64::<impl f64>::') \
        or path.startswith('core::f64::math::')


def f64_method_name(path):
    return path.rsplit('::', 1)[1]


def short(path):
    """canonical short name for a std callee path (last segment)"""
    return path.rsplit('::', 1)[-1]


PANIC_PATHS = (
    'core::panicking::panic', 'core::panicking::panic_fmt', 'core::panicking::assert_failed',
    'std::rt::begin_panic', 'core::panicking::panic_display', 'core::panicking::panic_bounds_check',
    'core::option::unwrap_failed', 'core::result::unwrap_failed', 'core::option::expect_failed',
    'std::rt::panic_fmt', 'core::panicking::panic_nounwind', 'core::panicking::panic_explicit',
    'core::panicking::unreachable_display', 'core::panicking::panic_str_2015', 'std::rt::panic_display',
    'core::slice::index::slice_index_fail', 'core::slice::index::slice_end_index_len_fail',
)


def is_panic_path(path):
    return path.startswith('core::panicking::') or path.startswith('std::rt::begin_panic') or \
        path.startswith('std::rt::panic') or path in PANIC_PATHS or path.endswith('unwrap_failed') or \
        path.endswith('expect_failed')


# ----------------------------------------------------------------------------- term helpers

def tag(t):
    return t[0] if isinstance(t, tuple) and t else None


def subterms(t):
    """all subterms (pre-order), including t"""
    stack = [t]
    while stack:
        x = stack.pop()
        if not isinstance(x, tuple):
            continue
        yield x
        k = x[0]
        if k in ('bin',):
            stack.extend((x[2], x[3]))
        elif k in ('un',):
            stack.append(x[2])
        elif k == 'cast':
            stack.append(x[2])
        elif k == 'call':
            stack.extend(x[2])
        elif k in ('field', 'len', 'downcast', 'discr'):
            stack.append(x[1])
        elif k == 'index':
            stack.extend((x[1], x[2]))
        elif k == 'agg':
            stack.extend(x[3])
        elif k in ('range', 'rangeincl'):
            stack.extend((x[1], x[2]))
        elif k == 'item':
            stack.append(x[2])
        elif k == 'repeat':
            stack.append(x[1])


def leaves(t):
    return [x for x in subterms(t) if x[0] in ('arg', 'upvar', 'local', 'const', 'constx', 'fnptr')]


def root(t):
    """strip projections: the object a place-like term lives in"""
    while isinstance(t, tuple) and t[0] in ('field', 'index', 'downcast'):
        t = t[1]
    return t


def is_const(t, v=None):
    if tag(t) != 'const':
        return False
    return v is None or t[2] == v


def map_term(t, f):
    """bottom-up rewrite: f is applied to every node after its children were rewritten"""
    if not isinstance(t, tuple):
        return t
    k = t[0]
    if k == 'bin':
        n = (k, t[1], map_term(t[2], f), map_term(t[3], f), t[4])
    elif k == 'un':
        n = (k, t[1], map_term(t[2], f), t[3])
    elif k == 'cast':
        n = (k, t[1], map_term(t[2], f), t[3], t[4])
    elif k == 'call':
        n = (k, t[1], tuple(map_term(a, f) for a in t[2]), t[3])
    elif k == 'field':
        n = (k, map_term(t[1], f), t[2], t[3])
    elif k == 'downcast':
        n = (k, map_term(t[1], f), t[2])
    elif k in ('len', 'discr'):
        n = (k, map_term(t[1], f))
    elif k == 'index':
        n = (k, map_term(t[1], f), map_term(t[2], f))
    elif k == 'agg':
        n = (k, t[1], t[2], tuple(map_term(a, f) for a in t[3]))
    elif k in ('range', 'rangeincl'):
        n = (k, map_term(t[1], f), map_term(t[2], f))
    elif k == 'item':
        n = (k, t[1], map_term(t[2], f))
    elif k == 'repeat':
        n = (k, map_term(t[1], f), t[2])
    else:
        n = t
    return f(n)


def show(t, names=None):
    """compact human-readable rendering of a term"""
    if not isinstance(t, tuple):
        return repr(t)
    k = t[0]
    if k == 'arg':
        return t[2] or ('arg%d' % t[1])
    if k == 'upvar':
        return 'upvar%d' % t[1]
    if k == 'local':
        return t[2] or ('_%d' % t[1])
    if k == 'const':
        return repr(t[2])
    if k == 'constx':
        return t[3] or t[2]
    if k == 'bin':
        sym = {'Add': '+', 'Sub': '-', 'Mul': '*', 'Div': '/', 'Rem': '%', 'Eq': '==', 'Ne': '!=', 'Lt': '<',
               'Le': '<=', 'Gt': '>', 'Ge': '>=', 'BitAnd': '&', 'BitOr': '|', 'BitXor': '^'}.get(t[1], t[1])
        return '(%s %s %s)' % (show(t[2]), sym, show(t[3]))
    if k == 'un':
        return '%s(%s)' % ({'Neg': '-', 'Not': '!'}.get(t[1], t[1]), show(t[2]))
    if k == 'cast':
        return '(%s as %s)' % (show(t[2]), t[3])
    if k == 'call':
        p = t[1]
        if is_f64_method(p):
            return '%s.%s(%s)' % (show(t[2][0]) if t[2] else '', f64_method_name(p),
                                  ', '.join(show(a) for a in t[2][1:]))
        nm = p if not p.startswith('<') and p.count('::') < 3 else short(p)
        return '%s(%s)' % (nm, ', '.join(show(a) for a in t[2]))
    if k == 'field':
        return '%s.%s' % (show(t[1]), t[2])
    if k == 'index':
        return '%s[%s]' % (show(t[1]), show(t[2]))
    if k == 'len':
        return 'len(%s)' % show(t[1])
    if k == 'downcast':
        return '(%s as v%s)' % (show(t[1]), t[2])
    if k == 'discr':
        return 'discr(%s)' % show(t[1])
    if k == 'agg':
        return '%s{%s}' % (short(t[2]) if t[2] else t[1], ', '.join(show(a) for a in t[3]))
    if k == 'range':
        return '%s..%s' % (show(t[1]), show(t[2]))
    if k == 'rangeincl':
        return '%s..=%s' % (show(t[1]), show(t[2]))
    if k == 'item':
        return 'item@%s(%s)' % (t[1], show(t[2]))
    if k == 'fnptr':
        return 'fn:' + short(t[1])
    if k == 'repeat':
        return '[%s; %s]' % (show(t[1]), t[2])
    return repr(t)


# ----------------------------------------------------------------------------- function context

class Store:
    """a write `target := value` (assignment through a projection / reference, or a full
    assignment to a multi-def local)"""
    __slots__ = ('bb', 'idx', 'target', 'value', 'span', 'rv')

    def __init__(self, bb, idx, target, value, span, rv=None):
        self.bb = bb
        self.idx = idx
        self.target = target
        self.value = value
        self.span = span
        self.rv = rv


class CallSite:
    __slots__ = ('bb', 'path', 'decl', 'fn', 'args', 'dest', 'span', 'term', 'argtys')

    def __init__(self, bb, fn, args, dest, span, term, argtys):
        self.bb = bb
        self.fn = fn
        self.path = fn.path if fn else None
        self.decl = fn.decl if fn else None
        self.args = args
        self.dest = dest
        self.span = span
        self.term = term
        self.argtys = argtys


class Func:
    def __init__(self, pdb, body):
        self.pdb = pdb
        self.body = body
        self.cfg = CFG(body)
        self.names = body.names()
        self._defs = None
        self._term_cache = {}
        self._in_progress = set()
        self._collect_defs()
        self._stores = None
        self._calls = None
        self._guards = None

    # ------------------------------------------------------------ specialisation
    def specialise(self, argvals):
        """a copy of this function in which parameters listed in argvals (MIR local -> bool/int) are known:
        every switch on such a parameter is replaced by a goto, unreachable blocks disappear and the locals
        they defined become single-definition again"""
        import copy
        body = copy.copy(self.body)
        blocks = []
        for bi, b in enumerate(self.body.blocks):
            nb = copy.copy(b)
            t = b.term
            if t.kind == 'switch' and bi in self.cfg.nodes:
                d = self.operand_term(t.discr)
                if tag(d) == 'arg' and d[1] in argvals:
                    v = int(argvals[d[1]])
                    tgt = None
                    for val, tg in t.targets:
                        if val == v:
                            tgt = tg
                    if tgt is None:
                        tgt = t.otherwise
                    nt = copy.copy(t)
                    nt.kind = 'goto'
                    nt.target = tgt
                    nt.targets = []
                    nb.term = nt
            blocks.append(nb)
        body.blocks = blocks
        body._names = None
        g = Func(self.pdb, body)
        g.spec = dict(argvals)
        return g

    # ------------------------------------------------------------ definitions
    def _collect_defs(self):
        """local -> list of ('assign', bb, idx, rv) | ('call', bb, term); partial -> locals with projected writes"""
        defs = {}
        partial = set()
        body = self.body
        for bi in self.cfg.nodes:
            b = body.blocks[bi]
            for si, s in enumerate(b.stmts):
                if s.kind == 'assign':
                    if s.place.is_local():
                        defs.setdefault(s.place.local, []).append(('assign', bi, si, s.rv))
                    else:
                        if s.place.proj[0][0] != 'deref':
                            partial.add(s.place.local)
                elif s.kind == 'setdiscr':
                    partial.add(s.place.local)
            t = b.term
            if t.kind == 'call':
                if t.dest.is_local():
                    defs.setdefault(t.dest.local, []).append(('call', bi, t))
                else:
                    partial.add(t.dest.local)
        self._defs = defs
        self._partial = partial

    def n_defs(self, l):
        return len(self._defs.get(l, []))

    def is_arg(self, l):
        return 1 <= l <= self.body.arg_count

    # ------------------------------------------------------------ terms
    def local_term(self, l):
        if l in self._term_cache:
            return self._term_cache[l]
        body = self.body
        nm = self.names.get(l)
        if self.is_arg(l):
            # closure: arg 1 is the environment
            t = ('arg', l, nm)
            self._term_cache[l] = t
            return t
        ds = self._defs.get(l, [])
        if len(ds) != 1 or l in self._in_progress:
            t = ('local', l, nm)
            if l not in self._in_progress:
                self._term_cache[l] = t
            return t
        self._in_progress.add(l)
        try:
            d = ds[0]
            if d[0] == 'assign':
                t = self.rvalue_term(d[3], d[1])
            else:
                t = self.call_term(d[2], d[1])
        finally:
            self._in_progress.discard(l)
        # if the local is partially overwritten later (struct built field by field) keep identity
        if l in self._partial and tag(t) not in ('agg',):
            pass
        self._term_cache[l] = t
        return t

    def place_term(self, p):
        t = self.local_term(p.local)
        if self.body.kind == 'closure' and p.local == 1:
            # environment: (*_1).k  or _1.k  ->  upvar k
            proj = list(p.proj)
            if proj and proj[0][0] == 'deref':
                proj = proj[1:]
            if proj and proj[0][0] == 'field':
                t = ('upvar', proj[0][1], proj[0][2])
                proj = proj[1:]
                return self._apply_proj(t, proj)
        return self._apply_proj(t, p.proj)

    def _apply_proj(self, t, proj):
        for e in proj:
            k = e[0]
            if k == 'deref':
                continue
            if k == 'field':
                t = self.mk_field(t, e[1], e[2])
            elif k == 'index':
                t = ('index', t, self.local_term(e[1]))
            elif k == 'cindex':
                t = ('index', t, ('const', 'usize', e[1]))
            elif k == 'downcast':
                t = ('downcast', t, e[1])
            elif k == 'subslice':
                t = ('call', 'subslice', (t, ('const', 'usize', e[1]), ('const', 'usize', e[2])), None)
            else:
                t = ('call', 'proj:' + k, (t,), None)
        return t

    def mk_field(self, t, idx, ty=None):
        # projection of an aggregate literal folds
        if tag(t) == 'agg' and t[1] in ('tuple', 'adt', 'closure') and idx < len(t[3]):
            return t[3][idx]
        if tag(t) == 'downcast' and tag(t[1]) == 'call' and is_next_call(t[1][1]) and t[2] == 1 and idx == 0:
            c = t[1]
            return ('item', c[3], c[2][0])
        if tag(t) == 'downcast' and tag(t[1]) == 'agg' and t[1][1] == 'adt':
            a = t[1]
            if idx < len(a[3]):
                return a[3][idx]
        return ('field', t, idx, ty)

    def operand_term(self, o):
        k = o.kind
        if k in ('copy', 'move'):
            return self.place_term(o.place)
        if k == 'const':
            return ('const', o.ty, o.val)
        if k == 'fn':
            return ('fnptr', o.fn.path)
        if k == 'constx':
            return ('constx', o.ty, o.val, o.item)
        return ('constx', 'rtcheck', str(o.val), None)

    def rvalue_term(self, rv, bb=None):
        k = rv.kind
        if k == 'use':
            return self.operand_term(rv.a)
        if k in ('ref', 'rawptr'):
            return self.place_term(rv.place)
        if k == 'bin':
            return ('bin', rv.op, self.operand_term(rv.a), self.operand_term(rv.b), rv.ty)
        if k == 'un':
            a = self.operand_term(rv.a)
            if rv.op == 'PtrMetadata':
                return ('len', a)
            return ('un', rv.op, a, rv.ty)
        if k == 'cast':
            a = self.operand_term(rv.a)
            if rv.op.startswith('Coerce') or rv.op in ('PtrToPtr', 'Transmute', 'Subtype'):
                return a
            return ('cast', rv.op, a, rv.ty, rv.from_ty)
        if k == 'discr':
            return ('discr', self.place_term(rv.place))
        if k == 'agg':
            fs = tuple(self.operand_term(f) for f in rv.fields)
            a = rv.agg
            if a['k'] == 'adt':
                p = a['path']
                if p == 'std::ops::Range' and len(fs) == 2:
                    return ('range', fs[0], fs[1])
                return ('agg', 'adt', p + ('#%d' % a['variant'] if a['variant'] else ''), fs)
            if a['k'] == 'closure':
                return ('agg', 'closure', a['path'], fs)
            return ('agg', a['k'], a.get('ty'), fs)
        if k == 'repeat':
            return ('repeat', self.operand_term(rv.a), rv.raw)
        return ('call', 'rvalue:' + k, (), (bb,))

    def call_term(self, t, bb):
        fn = t.callee
        args = tuple(self.operand_term(a) for a in t.args)
        if fn is None:
            # call through a value (closure / fn pointer held in a local)
            return ('call', 'indirect', (self.operand_term(t.func),) + args, None)
        path = fn.path
        if (path in IDENTITY_CALLS or fn.decl in IDENTITY_CALLS) and (
                path not in self.pdb.bodies or short(path) in ('deref', 'deref_mut', 'as_ref')):
            return args[0]
        if (path in INDEX_CALLS or fn.decl in INDEX_CALLS) and path not in self.pdb.bodies:
            return ('index', args[0], args[1])
        if path in LEN_CALLS:
            return ('len', args[0])
        if path == 'std::ops::RangeInclusive::<Idx>::new':
            return ('rangeincl', args[0], args[1])
        m = _F64_OP.match(path)
        if m and len(args) == 2:
            return ('bin', m.group(1), args[0], args[1], 'f64')
        site = None
        if is_next_call(path) or path.startswith(IMPURE_PREFIXES) or path in self.pdb.impure_fns() \
                or fn.decl in self.pdb.impure_fns():
            site = (bb,)
        elif t.dest.is_local() and is_owned_heap_ty(self.body.local_ty(t.dest.local)):
            site = (bb,)
        return ('call', path, args, site)

    # ------------------------------------------------------------ stores / calls
    def stores(self):
        """all writes that are not the single definition of a temp"""
        if self._stores is None:
            out = []
            body = self.body
            for bi in self.cfg.nodes:
                b = body.blocks[bi]
                for si, s in enumerate(b.stmts):
                    if s.kind != 'assign':
                        continue
                    if s.place.is_local():
                        l = s.place.local
                        if self.n_defs(l) > 1:
                            out.append(Store(bi, si, ('local', l, self.names.get(l)),
                                             self.rvalue_term(s.rv, bi), s.span, s.rv))
                    else:
                        out.append(Store(bi, si, self.place_term(s.place), self.rvalue_term(s.rv, bi), s.span, s.rv))
                t = b.term
                if t.kind == 'call' and t.callee is not None and _F64_OPASSIGN.match(t.callee.path):
                    m = _F64_OPASSIGN.match(t.callee.path)
                    a0 = self.operand_term(t.args[0])
                    a1 = self.operand_term(t.args[1])
                    out.append(Store(bi, len(b.stmts), a0, ('bin', m.group(1), a0, a1, 'f64'), t.span))
                elif t.kind == 'call':
                    if t.dest.is_local():
                        l = t.dest.local
                        if self.n_defs(l) > 1:
                            out.append(Store(bi, len(b.stmts), ('local', l, self.names.get(l)),
                                             self.call_term(t, bi), t.span))
                    else:
                        out.append(Store(bi, len(b.stmts), self.place_term(t.dest), self.call_term(t, bi), t.span))
            self._stores = out
        return self._stores

    def calls(self):
        if self._calls is None:
            out = []
            for bi in self.cfg.nodes:
                t = self.body.blocks[bi].term
                if t.kind == 'call':
                    args = tuple(self.operand_term(a) for a in t.args)
                    out.append(CallSite(bi, t.callee, args, t.dest, t.span, t, t.argtys))
            self._calls = out
        return self._calls

    def return_term(self):
        return self.local_term(0)

    def return_values(self):
        """terms assigned to _0 (all definitions)"""
        out = []
        for d in self._defs.get(0, []):
            if d[0] == 'assign':
                out.append(self.rvalue_term(d[3], d[1]))
            else:
                out.append(self.call_term(d[2], d[1]))
        return out

    # ------------------------------------------------------------ guards
    def edge_conditions(self):
        """list of (src_bb, dst_bb, cond_term, polarity_or_value)
        for switch terminators and asserts. For bool switches value is True/False; for integer /
        discriminant switches value is ('eq', v) or ('ne', (v1, v2..))."""
        out = []
        body = self.body
        for bi in self.cfg.nodes:
            t = body.blocks[bi].term
            if t.kind == 'switch':
                c = self.operand_term(t.discr)
                if t.discr_ty == 'bool':
                    for v, tg in t.targets:
                        out.append((bi, tg, c, bool(v)))
                    # otherwise = the complement
                    vals = [v for v, _ in t.targets]
                    if vals == [0]:
                        out.append((bi, t.otherwise, c, True))
                    elif vals == [1]:
                        out.append((bi, t.otherwise, c, False))
                else:
                    for v, tg in t.targets:
                        out.append((bi, tg, c, ('eq', v)))
                    out.append((bi, t.otherwise, c, ('ne', tuple(v for v, _ in t.targets))))
            elif t.kind == 'assert':
                c = self.operand_term(t.cond)
                out.append((bi, t.target, c, bool(t.expected)))
        return out

    def guards(self):
        """bb -> list of (cond_term, value) known to hold on entry to bb (edge dominance)"""
        if self._guards is None:
            cfg = self.cfg
            ec = self.edge_conditions()
            # an edge (s->d) "owns" d if d's only predecessor is s (or the switch has several arms to d with same value)
            direct = {}
            for s, d, c, v in ec:
                preds = cfg.pred[d]
                if all(p == s for p in preds):
                    # several arms may lead to same block with different values -> drop
                    direct.setdefault(d, []).append((c, v, s))
            for d in list(direct):
                lst = direct[d]
                if len(lst) > 1:
                    bysrc = {}
                    for c, v, s in lst:
                        bysrc.setdefault((s, c), []).append(v)
                    keep = []
                    for (s, c), vs in bysrc.items():
                        if len(vs) == 1:
                            keep.append((c, vs[0], s))
                    direct[d] = keep
            g = {}
            for b in cfg.rpo():
                acc = []
                x = b
                seen = 0
                while True:
                    for c, v, s in direct.get(x, []):
                        acc.append((c, v))
                    if x == 0 or x not in cfg.idom or cfg.idom[x] == x:
                        break
                    x = cfg.idom[x]
                    seen += 1
                g[b] = acc
            self._guards = g
        return self._guards

    def control_conds(self, bb):
        """condition terms of all branches that block bb is (transitively) control dependent on"""
        if getattr(self, '_cd', None) is None:
            self._cd = self.cfg.control_deps()
        seen = set()
        out = []
        work = [bb]
        while work:
            b = work.pop()
            for (a, s) in self._cd.get(b, ()):
                if a in seen:
                    continue
                seen.add(a)
                t = self.body.blocks[a].term
                if t.kind == 'switch':
                    out.append(self.operand_term(t.discr))
                elif t.kind == 'assert':
                    out.append(self.operand_term(t.cond))
                work.append(a)
        return out

    # ------------------------------------------------------------ loops
    def loop_info(self):
        """list of dicts: header, blocks, item term, iterator term, for `for` loops driven by Iterator::next"""
        out = []
        loops = self.cfg.loops()
        for h, blocks in loops.items():
            info = {'header': h, 'blocks': blocks, 'item': None, 'iter': None, 'next_bb': None}
            # find the next() call inside the loop whose discr switch exits the loop
            for bi in sorted(blocks):
                t = self.body.blocks[bi].term
                if t.kind == 'call' and t.callee is not None and is_next_call(t.callee.path):
                    ct = self.call_term(t, bi)
                    info['iter'] = ct[2][0]
                    info['item'] = ('item', ct[3], ct[2][0])
                    info['next_bb'] = bi
                    break
            out.append(info)
        return out

    def enclosing_loops(self, bb):
        return [li for li in self.loop_info() if bb in li['blocks']]


class Program:
    """whole-crate context: Func objects on demand, call graph"""

    def __init__(self, pdb):
        self.pdb = pdb
        self._funcs = {}

    def func(self, key):
        f = self._funcs.get(key)
        if f is None:
            b = self.pdb.bodies.get(key)
            if b is None:
                return None
            f = Func(self.pdb, b)
            self._funcs[key] = f
        return f

    def all_funcs(self):
        for k in self.pdb.bodies:
            yield self.func(k)

    def straight_line(self, g):
        """no store through a projection, reference or view and no `&mut` argument anywhere in g: its return term is then the whole
        story (a value built once and not modified in place afterwards)"""
        r = getattr(g, '_straight', None)
        if r is None:
            r = True
            for s_ in g.stores():
                if tag(s_.target) not in ('local',):
                    r = False
            for c_ in g.calls():
                if any(str(ty).startswith('&mut') for ty in (c_.argtys or ())):
                    r = False
            g._straight = r
        return r

    def inline_closure_calls(self, t, depth=3):
        """t with every direct call of a local closure `f(a, b)` (MIR: {closure}(&f, (a, b))) replaced by the closure's value: parameters
        become the argument terms, captured variables the captured terms.  Only closures with one return site whose term mentions no
        other closure-local state are replaced."""
        if depth <= 0:
            return t

        def one(n):
            if tag(n) != 'call' or n[1] not in self.pdb.bodies or len(n[2]) != 2:
                return n
            cl, tup = n[2]
            if not (tag(cl) == 'agg' and cl[1] == 'closure' and tag(tup) == 'agg' and tup[1] == 'tuple'):
                return n
            g = self.func(n[1])
            if g is None or g.body.kind != 'closure':
                return n
            rets = g.return_values()
            if len(rets) != 1 or not self.straight_line(g):
                return n
            bad = []

            def sub(m):
                if tag(m) == 'upvar':
                    if m[1] < len(cl[3]):
                        return cl[3][m[1]]
                    bad.append(m)
                elif tag(m) == 'arg':
                    if 2 <= m[1] < 2 + len(tup[3]):
                        return tup[3][m[1] - 2]
                    bad.append(m)
                elif tag(m) in ('local', 'item'):
                    bad.append(m)
                return m
            out = map_term(rets[0], sub)
            return n if bad else self.inline_closure_calls(out, depth - 1)
        return map_term(t, one)

    def inline(self, t, depth=3, only=None):
        """t with every call of a straight-line in-crate helper replaced by the helper's value: a helper qualifies when it has one
        return site whose term mentions no callee-local state (multi-definition locals, loop items, upvars); its parameters are
        replaced by the argument terms.  Calls that do not qualify stay as they are."""
        if depth <= 0:
            return t

        def one(n):
            if tag(n) != 'call' or n[1] not in self.pdb.bodies or (only is not None and not only(n[1])):
                return n
            g = self.func(n[1])
            if g is None or g.body.kind == 'closure':
                return n
            rets = g.return_values()
            if len(rets) != 1 or not self.straight_line(g):
                return n
            bad = []

            def sub(m):
                if tag(m) == 'arg':
                    if 1 <= m[1] <= len(n[2]):
                        return n[2][m[1] - 1]
                    bad.append(m)
                elif tag(m) in ('local', 'item', 'upvar'):
                    bad.append(m)
                return m
            out = map_term(rets[0], sub)
            if bad:
                return n
            return self.inline(out, depth - 1, only)
        return map_term(t, one)

    def callees(self, key):
        """resolved in-crate callee keys (including closures created in the body)"""
        f = self.func(key)
        out = []
        if f is None:
            return out
        for c in f.calls():
            if c.fn is None:
                continue
            if c.path in self.pdb.bodies:
                out.append(c.path)
            elif c.decl in self.pdb.bodies:
                out.append(c.decl)
            for cl in c.fn.closures():
                if cl in self.pdb.bodies:
                    out.append(cl)
        # closures constructed in this body
        for b in f.body.blocks:
            if b.cleanup:
                continue
            for s in b.stmts:
                if s.kind == 'assign' and s.rv.kind == 'agg' and s.rv.agg['k'] == 'closure':
                    p = s.rv.agg['path']
                    if p in self.pdb.bodies:
                        out.append(p)
        return out

    def closure(self, key, include=None):
        """transitive in-crate call closure from key (set of body keys, including key)"""
        seen = {key}
        stack = [key]
        while stack:
            k = stack.pop()
            for c in self.callees(k):
                if c not in seen:
                    seen.add(c)
                    stack.append(c)
        return seen

    def std_callees(self, keys):
        """set of non-crate callee paths reachable in the given bodies"""
        out = set()
        for k in keys:
            f = self.func(k)
            for c in f.calls():
                if c.fn is None:
                    out.add('indirect')
                    continue
                if c.path not in self.pdb.bodies and c.decl not in self.pdb.bodies:
                    out.add(c.path)
        return out
