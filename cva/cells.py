"""Cell functions of the broadcast arms (C12 D4).

For one dispatcher and one shape partition the dispatch is deterministic (C12 D1), so exactly one arm runs.  This module
derives, from the arm's loops and in-place effects, the function  out[I][J] = F(m1[a][b], m2[c][d])  with every index
abstracted to {I (row counter), J (column counter), 0, ?} and compares it with the NumPy pairing
    out[I][J] = m1[I if rows(m1) == rows(out) else 0][J if cols(m1) == cols(out) else 0]  o  m2[...]
together with the ranges of I and J (must cover rows(out) x cols(out)) and the stride of flat writes.
Recognised effects: element stores N[a][b] = v and N.data[a*S + b] = v, Matrix::apply_along_row(N, a, closure),
row zips  N[a].iter_mut().zip(&m[r]).for_each(closure); elementwise kernels on whole operands and scalar arms
are read from the returned call.  Anything else is reported as not recognised (no verdict)."""
from .ir import tag, show, short, subterms
from .poly import poly

MAT = 'linalg::array::matrix::Matrix'
IDX = '<%s as std::ops::Index<usize>>::index' % MAT
IDXM = '<%s as std::ops::IndexMut<usize>>::index_mut' % MAT


class NotRecognised(Exception):
    pass


def strip(t):
    while tag(t) in ('cast', 'deref') or (tag(t) == 'call' and short(t[1]) in ('deref', 'deref_mut', 'borrow', 'as_ref') and len(t[2]) == 1):
        t = t[2] if tag(t) == 'cast' else (t[1] if tag(t) == 'deref' else t[2][0])
    return t


class Arm:
    def __init__(self, prog, f, ev, trail, ret, names):
        self.prog, self.f, self.ev, self.trail, self.ret = prog, f, ev, trail, ret
        self.names = names           # {term: 'm1'|'m2'}
        self.notes = []

    # ---- abstraction of index terms
    def idx(self, t, env):
        t = strip(t)
        if t in env:
            return env[t]
        if tag(t) == 'const' and t[2] == 0:
            return '0'
        return '?'

    def cell_of(self, t, env):
        """abstract value of a scalar term"""
        t0 = t
        t = strip(t)
        if t in env:
            return env[t]
        k = tag(t)
        if k == 'const':
            return ('k', t[2])
        if k == 'index' and tag(strip(t[1])) == 'call' and strip(t[1])[1] in (IDX, IDXM):
            m, a = strip(t[1])[2]
            m = strip(m)
            if m in env:
                m = env[m]
            nm = self.names.get(m)
            if nm is None and m == getattr(self, 'out', None):
                # read-modify-write of the result being built: out[I][J] holds the value built so far
                a_, b_ = self.idx(a, env), self.idx(t[2], env)
                return self.cur if (a_, b_) == ('I', 'J') else ('?', 'read of out[%s][%s]' % (a_, b_))
            if nm is None:
                return ('?', 'read of %s' % show(m)[:40])
            return ('cell', nm, self.idx(a if a not in env else a, env) if not isinstance(env.get(strip(a)), str) else env[strip(a)], self.idx(t[2], env))
        if k == 'bin' and t[4] in ('f64', 'f32'):
            return ('op', t[1], self.cell_of(t[2], env), self.cell_of(t[3], env))
        if k == 'call' and t[1].startswith('<') and ' as std::ops::' in t[1] and len(t[2]) == 2 and short(t[1]) in ('add', 'sub', 'mul', 'div'):
            return ('op', short(t[1]).capitalize(), self.cell_of(t[2][0], env), self.cell_of(t[2][1], env))
        return ('?', show(t0)[:50])

    def dim(self, t):
        v = self.ev.value(self.f, t)
        return v

    def shape(self, t):
        return self.ev.matrix_value(self.f, t)


def arm_cells(prog, f, ev, trail, ret):
    """returns dict(kind, F, rows=(lo, hiDim)|'all', cols=..., N) or raises NotRecognised"""
    m1 = ('arg', 1, f.names.get(1))
    m2 = ('arg', 2, f.names.get(2))
    arm = Arm(prog, f, ev, trail, ret, {m1: 'm1', m2: 'm2'})
    r = strip(ret)
    if tag(r) != 'call':
        raise NotRecognised('arm returns %s' % show(ret)[:60])
    path = r[1]
    # -- whole-operand kernels and scalar arms: returned call with two operands
    if short(path) not in ('zeros', 'clone') and len(r[2]) == 2:
        cells = []
        for a in r[2]:
            a = strip(a)
            if a in arm.names:
                cells.append(('cell', arm.names[a], 'I', 'J'))
            else:
                c = arm.cell_of(a, {})
                if c[0] != 'cell':
                    raise NotRecognised('operand %s of %s' % (show(a)[:40], short(path)))
                cells.append(c)
        return {'kind': 'kernel:' + short(path), 'F': ('op', None, cells[0], cells[1]), 'rows': 'all', 'cols': 'all', 'writes_all': True}
    N = r
    if short(path) == 'clone':
        src = strip(r[2][0])
        if src not in arm.names:
            raise NotRecognised('clone of %s' % show(src)[:40])
        cur = ('cell', arm.names[src], 'I', 'J')
        fresh = False
    elif short(path) == 'zeros':
        cur = ('k', 0.0)
        fresh = True
    else:
        raise NotRecognised('result built by %s' % short(path))
    tset = set(trail)
    loops = [li for li in f.loop_info() if li['header'] in tset and li['item'] is not None]
    # only outermost loops hang off the trail; inner loops are inside their blocks
    outer = [li for li in loops if not any(li is not lj and li['header'] in lj['blocks'] for lj in loops)]
    if len(outer) != 1:
        raise NotRecognised('%d loops in the arm' % len(outer))
    L = outer[0]
    I = L['item']
    rng = I[2]
    chunk = None
    if tag(rng) == 'call' and short(rng[1]) in ('chunks_mut', 'chunks_exact_mut') and len(rng[2]) == 2:
        # `for chunk in out.data.chunks_mut(k)`: the flat data cut into consecutive pieces of k elements; piece I is row I of the result
        # exactly when k is the row length (decided by the caller on the dimension classes)
        base = strip(rng[2][0])
        while tag(base) in ('field',) or (tag(base) == 'call' and short(base[1]) in ('deref_mut', 'deref', 'as_mut_slice', 'data_mut') and base[2]):
            base = strip(base[1] if tag(base) == 'field' else base[2][0])
        if base != N:
            raise NotRecognised('chunks of %s' % show(base)[:40])
        chunk = arm.dim(rng[2][1])
        if chunk is None:
            raise NotRecognised('chunk length %s is not a dimension' % show(rng[2][1])[:40])
        rows = 'all'
    else:
        if tag(rng) != 'range' or not (tag(rng[1]) == 'const' and rng[1][2] == 0):
            raise NotRecognised('row loop range %s' % show(rng)[:50])
        rows = arm.dim(rng[2])
    inner = [li for li in f.loop_info() if li['header'] in L['blocks'] and li['header'] != L['header'] and li['item'] is not None]
    cols = None
    env = {I: 'I'}
    J = None
    if len(inner) == 1:
        J = inner[0]['item']
        jr = J[2]
        if tag(jr) != 'range' or not (tag(jr[1]) == 'const' and jr[1][2] == 0):
            raise NotRecognised('column loop range %s' % show(jr)[:50])
        cols = arm.dim(jr[2])
        env[J] = 'J'
    elif len(inner) > 1:
        raise NotRecognised('%d inner loops' % len(inner))
    effects = 0
    stride = None
    F = cur
    # element stores
    for s in f.stores():
        if s.bb not in L['blocks']:
            continue
        t = s.target
        if tag(t) == 'local':
            continue
        if tag(t) == 'index':
            base = strip(t[1])
            if tag(base) == 'call' and base[1] == IDXM and strip(base[2][0]) == N:
                a, b = arm.idx(base[2][1], env), arm.idx(t[2], env)
                if (a, b) != ('I', 'J'):
                    raise NotRecognised('store into out[%s][%s]' % (a, b))
                arm.out, arm.cur = N, F
                F = arm.cell_of(s.value, dict(env))
                effects += 1
                continue
            # flat store N.data[p] / N.data.v[p]
            root = base
            while tag(root) == 'field':
                root = strip(root[1])
            if root == N:
                p = poly(t[2])
                # p = S*I + J
                S = None
                okp = True
                for mono, c in p.items():
                    ms = [strip(x) for x in mono]
                    if J in ms and len(ms) == 1 and c == 1:
                        continue
                    if I in ms and c == 1:
                        rest = [x for x in ms if x != I]
                        if len(rest) == 1:
                            S = rest[0]
                            continue
                    okp = False
                if not okp or S is None or J is None:
                    raise NotRecognised('flat store index %s' % show(t[2])[:60])
                stride = arm.dim(S)
                F = arm.cell_of(s.value, dict(env))
                effects += 1
                continue
        raise NotRecognised('store %s' % show(t)[:60])
    for c in f.calls():
        if c.bb not in L['blocks'] or not c.path:
            continue
        if c.path == MAT + '::apply_along_row' and strip(c.args[0]) == N:
            a = arm.idx(c.args[1], env)
            clo = c.args[2]
            if a != 'I' or tag(clo) != 'agg' or clo[1] != 'closure':
                raise NotRecognised('apply_along_row(%s, ..)' % a)
            _check_apply_along_row(prog)
            g = prog.func(clo[2])
            cenv = {}
            for i, cap in enumerate(clo[3]):
                for z in subterms(g.return_values()[0]) if g.return_values() else ():
                    if tag(z) == 'upvar' and z[1] == i:
                        cap2 = strip(cap)
                        cenv[z] = env.get(cap2, cap2)
            x = ('arg', 2, g.names.get(2))
            cenv[x] = F
            arm2 = Arm(prog, g, ev, trail, ret, arm.names)
            rv = g.return_values()
            if len(rv) != 1:
                raise NotRecognised('closure of apply_along_row')
            F = arm2.cell_of(rv[0], cenv)
            cols = 'row-of-out'
            effects += 1
        elif short(c.path) == 'for_each' and tag(c.args[0]) == 'call' and short(c.args[0][1]) == 'zip':
            z = c.args[0]
            lhs, rhs = strip(z[2][0]), strip(z[2][1])
            if chunk is not None and tag(lhs) == 'call' and short(lhs[1]) == 'iter_mut' and strip(lhs[2][0]) == I:
                pass          # the piece handed out by the chunk loop is the row being written
            else:
                if not (tag(lhs) == 'call' and short(lhs[1]) == 'iter_mut' and tag(strip(lhs[2][0])) == 'call' and strip(lhs[2][0])[1] == IDXM
                        and strip(strip(lhs[2][0])[2][0]) == N):
                    raise NotRecognised('zip lhs %s' % show(lhs)[:60])
                a = arm.idx(strip(lhs[2][0])[2][1], env)
                if a != 'I':
                    raise NotRecognised('zip over out[%s]' % a)
            if tag(rhs) == 'call' and short(rhs[1]) in ('iter', 'into_iter'):
                rhs = strip(rhs[2][0])
            if not (tag(rhs) == 'call' and rhs[1] == IDX and strip(rhs[2][0]) in arm.names):
                raise NotRecognised('zip rhs %s' % show(rhs)[:60])
            other = ('cell', arm.names[strip(rhs[2][0])], arm.idx(rhs[2][1], env), 'J')
            clo = c.args[1]
            g = prog.func(clo[2]) if tag(clo) == 'agg' and clo[1] == 'closure' else None
            if g is None:
                raise NotRecognised('for_each closure')
            st = [s for s in g.stores() if tag(s.target) == 'field']
            if len(st) != 1 or st[0].target[2] != 0:
                raise NotRecognised('for_each closure effect')
            pr = st[0].target[1]
            cenv = {('field', pr, 0, st[0].target[3]): F}
            for zt in subterms(st[0].value):
                if tag(zt) == 'field' and zt[1] == pr and zt[2] == 1:
                    cenv[zt] = other
            arm2 = Arm(prog, g, ev, trail, ret, arm.names)
            F = arm2.cell_of(st[0].value, cenv)
            # zip stops at the shorter row: the other row must span all columns of out
            cols = ('zip', strip(rhs[2][0]))
            effects += 1
    if effects != 1:
        raise NotRecognised('%d effects in the arm loop' % effects)
    if _has_unknown(F):
        raise NotRecognised('element expression not read: %r' % (F,))
    if rows is None or (J is not None and cols is None):
        raise NotRecognised('loop bound not a dimension of an operand')
    return {'kind': short(path), 'F': F, 'rows': rows, 'cols': cols, 'stride': stride, 'fresh': fresh, 'N': N, 'chunk': chunk}


def _has_unknown(F):
    if F == '?':
        return True
    if isinstance(F, tuple):
        return (len(F) > 0 and F[0] == '?') or any(_has_unknown(x) for x in F[1:])
    return False


_AAR = {}


def _check_apply_along_row(prog):
    """apply_along_row(self, row, f) must be self[row].iter_mut().for_each(|x| *x = f(*x))"""
    if 'ok' in _AAR:
        if not _AAR['ok']:
            raise NotRecognised('apply_along_row body')
        return
    g = prog.func(MAT + '::apply_along_row')
    ok = False
    if g is not None:
        me, row = ('arg', 1, g.names.get(1)), ('arg', 2, g.names.get(2))
        cs = [c for c in g.calls() if c.path and short(c.path) == 'for_each']
        if len(cs) == 1:
            it = strip(cs[0].args[0])
            if tag(it) == 'call' and short(it[1]) == 'iter_mut' and strip(it[2][0]) == ('call', IDXM, (me, row), None):
                clo = cs[0].args[1]
                h = prog.func(clo[2]) if tag(clo) == 'agg' else None
                if h is not None:
                    st = h.stores()
                    x = ('arg', 2, h.names.get(2))
                    if len(st) == 1 and st[0].target == x and tag(st[0].value) == 'call' and short(st[0].value[1]) == 'call' \
                            and tag(st[0].value[2][1]) == 'agg' and st[0].value[2][1][3] == (x,):
                        ok = True
    _AAR['ok'] = ok
    if not ok:
        raise NotRecognised('apply_along_row body')
