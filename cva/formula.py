"""Agreement of extracted closed forms with a reference table (C02 `textbook`).

The element abstraction extracts, from MIR, the closed form(s) a density / mass / moment method returns (a set of alternatives,
one per return site).  This module decides whether such a form denotes the same function as the textbook formula of the named
distribution by identity testing: both are evaluated (in Python, on the *extracted expression* -- no code of /repo is run) at
fixed parameter/argument points with algebraically unrelated values.  Two different expressions built from +,-,*,/,pow,exp,ln,
gamma agree at all of these points only if they are the same function (up to the usual identity-testing argument); a single point
where they differ beyond rounding is a witness of a different function and is reported as the failing input."""
import math


class Uneval(Exception):
    pass


class Excluded(Exception):
    """the alternative belongs to a return site whose dominating comparisons are false at this point"""
    pass


_CMP = {'Lt': lambda a, b: a < b, 'Le': lambda a, b: a <= b, 'Gt': lambda a, b: a > b, 'Ge': lambda a, b: a >= b,
        'Eq': lambda a, b: a == b, 'Ne': lambda a, b: a != b}


INF = float('inf')
NAN = float('nan')


def fexp(a):
    try:
        return math.exp(a)
    except OverflowError:
        return INF


def flog(a):
    if a != a:
        return NAN
    if a == 0:
        return -INF
    if a < 0:
        return NAN
    return math.log(a)


def fdiv(a, b):
    try:
        return a / b
    except ZeroDivisionError:
        if a != a or a == 0:
            return NAN
        neg = (a < 0) != (math.copysign(1.0, b) < 0)
        return -INF if neg else INF
    except OverflowError:
        return INF if (a > 0) == (b > 0) else -INF


def fpow(a, b):
    try:
        r = math.pow(a, b)
        return r
    except OverflowError:
        return INF if (a > 0 or int(b) % 2 == 0) else -INF
    except ValueError:
        if a == 0 and b < 0:
            return INF
        return NAN
    except ZeroDivisionError:
        return INF


def fmul(a, b):
    try:
        return a * b
    except OverflowError:
        return INF if (a > 0) == (b > 0) else -INF


def fgamma(a):
    try:
        return math.gamma(a)
    except OverflowError:
        return INF
    except ValueError:
        return NAN


def ev(e, params, x):
    """evaluate an elem expression; params: field index -> value; x: value of ('sym','X')"""
    k = e[0]
    if k == 'when':
        for c, v in e[1]:
            try:
                if c[0] == 'in':
                    r = c[1] <= ev(c[3], params, x) <= c[2]
                else:
                    r = _CMP[c[1]](ev(c[2], params, x), ev(c[3], params, x))
            except Uneval:
                continue          # a comparison that cannot be evaluated excludes nothing
            if r != v:
                raise Excluded()
        return ev(e[2], params, x)
    if k == 'c':
        return float(e[1])
    if k == 'ci':
        return int(e[1])
    if k == 'sym':
        if e[1] == 'X':
            return x
        raise Uneval('symbol %s' % e[1])
    if k == 'fld':
        if e[1] == ('sym', 'SELF') and e[2] in params:
            return params[e[2]]
        raise Uneval('field %r' % (e,))
    if k == 'cast':
        return float(ev(e[1], params, x))
    if k == 'f2i':
        return int(math.trunc(ev(e[1], params, x)))
    if k == 'neg':
        return -ev(e[1], params, x)
    if k == 'b':
        a, b = ev(e[2], params, x), ev(e[3], params, x)
        op = e[1]
        try:
            if op in ('Add', 'IAdd'): return a + b
            if op in ('Sub', 'ISub'): return a - b
            if op == 'Mul': return fmul(a, b)
            if op == 'IMul': return a * b
            if op == 'Div': return fdiv(a, b)
            if op == 'IDiv': return int(a) // int(b)
            if op in ('Rem', 'IRem'): return math.fmod(a, b) if op == 'Rem' else int(a) % int(b)
        except (ZeroDivisionError, OverflowError, ValueError):
            return float('nan')
        raise Uneval('op %s' % op)
    if k == 'm':
        name = e[1]
        args = [ev(a, params, x) for a in e[2:]]
        try:
            if name == 'powf': return fpow(args[0], args[1])
            if name == 'powi': return fpow(args[0], int(args[1]))
            if name == 'exp': return fexp(args[0])
            if name == 'ln': return flog(args[0])
            if name == 'ln_1p': return math.log1p(args[0])
            if name == 'sqrt': return math.sqrt(args[0])
            if name == 'abs': return abs(args[0])
            if name == 'recip': return fdiv(1.0, args[0])
            if name == 'floor': return math.floor(args[0])
            if name == 'ceil': return math.ceil(args[0])
            if name == 'trunc': return float(math.trunc(args[0]))
            if name == 'fract': return args[0] - math.trunc(args[0])
            if name == 'round': return float(math.floor(abs(args[0]) + 0.5)) * (1.0 if args[0] >= 0 else -1.0)
            if name == 'max': return max(args)
            if name == 'min': return min(args)
            if name == 'gamma': return fgamma(args[0])
            if name == 'beta': return math.exp(math.lgamma(args[0]) + math.lgamma(args[1]) - math.lgamma(args[0] + args[1]))
            if name == 'erf': return math.erf(args[0])
            if name == 'binom_coeff':
                c_ = math.comb(int(args[0]), int(args[1]))
                return float(c_) if c_ < 2 ** 64 else float('nan')      # the crate's function returns u64: larger values are not representable
            if name == 'ln_gamma': return math.lgamma(args[0])
            if name in ('sin', 'cos', 'tan', 'tanh'): return getattr(math, name)(args[0])
        except (ValueError, OverflowError, ZeroDivisionError):
            return float('nan')
        raise Uneval('function %s' % name)
    raise Uneval('node %s' % k)


def close(a, b, rtol=1e-8):
    if isinstance(a, float) and isinstance(b, float) and (math.isnan(a) or math.isnan(b)):
        return math.isnan(a) and math.isnan(b)
    if a == b:
        return True
    if math.isinf(a) or math.isinf(b):
        return False
    return abs(a - b) <= rtol * max(abs(a), abs(b), 1e-300)


EULER = 0.5772156649015329


def _binom_pmf(p, k):
    n, q = p['n'], p['p']
    if k < 0 or k > n:
        return 0.0
    if q == 0.0:
        return 1.0 if k == 0 else 0.0
    if q == 1.0:
        return 1.0 if k == n else 0.0
    return math.exp(math.lgamma(n + 1) - math.lgamma(k + 1) - math.lgamma(n - k + 1) + k * math.log(q) + (n - k) * math.log(1 - q))


def _edge(on_edge, value):
    """reference value at a point of the support's boundary whose membership differs between sources: 0 or the formula's value"""
    return (0.0, value) if on_edge else value


# distribution -> dict(fields=[names in struct order as used], grid=[param dicts], support x values (callable of params),
#                      pdf/pmf, mean, var as python callables of (params, x) / (params))
TABLE = {
    'normal::Normal': dict(
        grid=[{'mu': 0.3, 'sigma': 1.7}, {'mu': -2.1, 'sigma': 0.6}],
        xs=lambda p: [p['mu'] - 1.3 * p['sigma'], p['mu'] + 0.4 * p['sigma'], p['mu'] + 2.2 * p['sigma'], p['mu'] - 60 * p['sigma'], p['mu'] + 1e3 * p['sigma']],
        pdf=lambda p, x: fexp(-0.5 * ((x - p['mu']) / p['sigma']) ** 2) / (p['sigma'] * math.sqrt(2 * math.pi)),
        mean=lambda p: p['mu'], var=lambda p: p['sigma'] ** 2),
    'gamma::Gamma': dict(
        grid=[{'alpha': 0.7, 'beta': 1.9}, {'alpha': 2.3, 'beta': 0.45}, {'alpha': 5.1, 'beta': 3.2}, {'alpha': 2.0, 'beta': 1e3}, {'alpha': 1.0, 'beta': 2.0}],
        xs=lambda p: [0.21, 1.37, 4.9, -0.8, 2.5e3, 0.0],
        # x = 0: the support is written (0, inf) or [0, inf) depending on the source; 0 and the limit of the formula are both accepted
        pdf=lambda p, x: 0.0 if x < 0 else _edge(x == 0, p['beta'] ** p['alpha'] / math.gamma(p['alpha']) * fpow(x, p['alpha'] - 1) * fexp(-p['beta'] * x)),
        mean=lambda p: p['alpha'] / p['beta'], var=lambda p: p['alpha'] / p['beta'] ** 2),
    'exponential::Exponential': dict(
        grid=[{'lambda': 0.37}, {'lambda': 2.9}, {'lambda': 1e3}, {'lambda': 1e-3}],
        xs=lambda p: [0.13, 1.1, 3.7, -0.4, 5e3, 0.0],
        pdf=lambda p, x: 0.0 if x < 0 else p['lambda'] * fexp(-p['lambda'] * x),
        mean=lambda p: 1 / p['lambda'], var=lambda p: 1 / p['lambda'] ** 2),
    'uniform::Uniform': dict(
        grid=[{'lower': -1.3, 'upper': 2.9}, {'lower': 0.4, 'upper': 0.95}],
        xs=lambda p: [p['lower'] + 0.31 * (p['upper'] - p['lower']), p['lower'] + 0.77 * (p['upper'] - p['lower']), p['lower'] - 0.5, p['upper'] + 1e3, p['lower'], p['upper']],
        pdf=lambda p, x: 1 / (p['upper'] - p['lower']) if p['lower'] <= x <= p['upper'] else 0.0,
        mean=lambda p: (p['lower'] + p['upper']) / 2, var=lambda p: (p['upper'] - p['lower']) ** 2 / 12),
    'pareto::Pareto': dict(
        grid=[{'alpha': 2.7, 'minval': 1.3}, {'alpha': 4.2, 'minval': 0.6}, {'alpha': 1.5, 'minval': 2.0}, {'alpha': 2.0, 'minval': 1.0}],
        xs=lambda p: [p['minval'] * 1.1, p['minval'] * 2.3, p['minval'] * 7.9, p['minval'] * 0.5, -1.0, p['minval'] * 1e6, p['minval']],
        pdf=lambda p, x: p['alpha'] * p['minval'] ** p['alpha'] / x ** (p['alpha'] + 1) if x >= p['minval'] else 0.0,
        # the property constrains a moment only where it is finite: None = no constraint at this parameter point
        mean=lambda p: p['alpha'] * p['minval'] / (p['alpha'] - 1) if p['alpha'] > 1 else None,
        var=lambda p: p['minval'] ** 2 * p['alpha'] / ((p['alpha'] - 1) ** 2 * (p['alpha'] - 2)) if p['alpha'] > 2 else None),
    'gumbel::Gumbel': dict(
        grid=[{'mu': 0.4, 'beta': 1.6}, {'mu': -1.2, 'beta': 0.7}, {'mu': 1e3, 'beta': 1.0}],
        xs=lambda p: [p['mu'] - 0.9 * p['beta'], p['mu'] + 0.3 * p['beta'], p['mu'] + 2.4 * p['beta'], p['mu'] - 1e3 * p['beta'], p['mu'] + 900 * p['beta']],
        pdf=lambda p, x: fexp(-((x - p['mu']) / p['beta'] + fexp(-(x - p['mu']) / p['beta']))) / p['beta'],
        mean=lambda p: p['mu'] + p['beta'] * EULER, var=lambda p: math.pi ** 2 / 6 * p['beta'] ** 2),
    'beta::Beta': dict(
        grid=[{'alpha': 0.6, 'beta': 2.4}, {'alpha': 3.1, 'beta': 1.7}, {'alpha': 1.0, 'beta': 2.5}, {'alpha': 2.0, 'beta': 1.0}, {'alpha': 1.0, 'beta': 1.0}],
        xs=lambda p: [0.13, 0.52, 0.91, -0.3, 1.7, 0.0, 1.0],
        pdf=lambda p, x: _edge(x in (0.0, 1.0), fpow(x, p['alpha'] - 1) * fpow(1 - x, p['beta'] - 1) * math.gamma(p['alpha'] + p['beta']) / (math.gamma(p['alpha']) * math.gamma(p['beta']))) if 0 <= x <= 1 else 0.0,
        mean=lambda p: p['alpha'] / (p['alpha'] + p['beta']),
        var=lambda p: p['alpha'] * p['beta'] / ((p['alpha'] + p['beta']) ** 2 * (p['alpha'] + p['beta'] + 1))),
    'chi_squared::ChiSquared': dict(
        grid=[{'dof': 1}, {'dof': 4}, {'dof': 7}, {'dof': 2}],
        xs=lambda p: [0.37, 2.1, 8.3, -1.5, 4e3, 0.0],
        # the crate documents its convention: support (0, inf) for one degree of freedom, [0, inf) otherwise
        pdf=lambda p, x: _edge(x == 0 and p['dof'] == 1, fpow(x, p['dof'] / 2 - 1) * fexp(-x / 2) / (2 ** (p['dof'] / 2) * math.gamma(p['dof'] / 2))) if x >= 0 else 0.0,
        mean=lambda p: float(p['dof']), var=lambda p: 2.0 * p['dof']),
    't::T': dict(
        grid=[{'dof': 3.0}, {'dof': 7.5}, {'dof': 2.6}, {'dof': 1.5}],
        xs=lambda p: [-1.7, 0.0, 0.6, 2.9, -1e6, 3e4],
        pdf=lambda p, x: math.gamma((p['dof'] + 1) / 2) / (math.sqrt(p['dof'] * math.pi) * math.gamma(p['dof'] / 2)) * (1 + x * x / p['dof']) ** (-(p['dof'] + 1) / 2),
        mean=lambda p: 0.0 if p['dof'] > 1 else None, var=lambda p: p['dof'] / (p['dof'] - 2) if p['dof'] > 2 else None),
    'poisson::Poisson': dict(
        grid=[{'lambda': 0.8}, {'lambda': 6.3}, {'lambda': 31.5}, {'lambda': 200.0}, {'lambda': 1000.0}],
        xs=lambda p: [0, 1, 5, 23, 40, -1, -7] if p['lambda'] < 100 else [int(p['lambda']) - 30, int(p['lambda']), int(p['lambda']) + 45, -2], discrete=True,
        pdf=lambda p, k: 0.0 if k < 0 else fexp(k * math.log(p['lambda']) - p['lambda'] - math.lgamma(k + 1)),
        mean=lambda p: p['lambda'], var=lambda p: p['lambda']),
    'binomial::Binomial': dict(
        grid=[{'n': 9, 'p': 0.37}, {'n': 40, 'p': 0.81}, {'n': 70, 'p': 0.5}, {'n': 1000, 'p': 0.31}, {'n': 7, 'p': 1.0}, {'n': 7, 'p': 0.0}],
        xs=lambda p: [0, 1, 4, p['n'], -1, p['n'] + 1, p['n'] + 30] if p['n'] <= 40 else [int(p['n'] * p['p']) - 7, int(p['n'] * p['p']), int(p['n'] * p['p']) + 11, -3, p['n'] + 2], discrete=True,
        pdf=_binom_pmf,
        mean=lambda p: p['n'] * p['p'], var=lambda p: p['n'] * p['p'] * (1 - p['p'])),
    'bernoulli::Bernoulli': dict(
        grid=[{'p': 0.27}, {'p': 0.83}],
        xs=lambda p: [0, 1, -1, 2, 9], discrete=True,
        pdf=lambda p, k: p['p'] if k == 1 else (1 - p['p'] if k == 0 else 0.0),
        mean=lambda p: p['p'], var=lambda p: p['p'] * (1 - p['p'])),
    'discreteuniform::DiscreteUniform': dict(
        grid=[{'lower': -3, 'upper': 4}, {'lower': 2, 'upper': 11}],
        xs=lambda p: [p['lower'], p['lower'] + 2, p['upper'], p['lower'] - 1, p['upper'] + 1, p['upper'] + 50], discrete=True,
        pdf=lambda p, k: 1.0 / (p['upper'] - p['lower'] + 1) if p['lower'] <= k <= p['upper'] else 0.0,
        mean=lambda p: (p['lower'] + p['upper']) / 2, var=lambda p: ((p['upper'] - p['lower'] + 1) ** 2 - 1) / 12),
}


def compare(alts, ref, points, trivial_ok=True):
    """alts: list of elem expressions (alternatives, possibly tagged ('when', comparisons, e) with the comparisons that select their
    return site); ref(params_by_name, x) ; points: list of (params_by_index, params_by_name, x).
    At each point the alternatives whose comparisons are false are dropped; the code agrees with the reference there if one of the
    remaining alternatives evaluates to the reference value.  A point where every remaining alternative is evaluable and none agrees is
    a witness.  returns ('ok', n) | ('viol', witness dict) | ('undecided', why)"""
    n = 0
    undecided = None
    for pidx, pname, x in points:
        try:
            want = ref(pname, x) if x is not None else ref(pname)
        except Exception as e:
            return 'undecided', 'reference not evaluable: %s' % e
        if want is None:
            continue              # the property does not constrain this quantity here (an infinite moment)
        vals = []
        uneval = None
        for a in alts:
            try:
                vals.append((a, ev(a, pidx, x)))
            except Excluded:
                continue
            except Uneval as e:
                uneval = str(e)
        wants = want if isinstance(want, tuple) else (want,)      # a boundary point may have two accepted values (open or closed support)
        if any(close(float(v), float(w)) for _, v in vals for w in wants):
            n += 1
            continue
        want = wants[-1]
        if uneval is not None:
            undecided = undecided or 'an alternative is not evaluable (%s)' % uneval
            continue
        if not vals:
            undecided = undecided or 'no alternative is selected at x = %r, parameters %s' % (x, pname)
            continue
        nontriv = [av for av in vals if _core(av[0])[0] != 'c'] or vals
        best = min(nontriv, key=lambda av: abs(av[1] - want) if not math.isnan(av[1]) else float('inf')) if nontriv else (None, float('nan'))
        return 'viol', {'params': pname, 'x': x, 'textbook': want, 'code': best[1], 'all': [v for _, v in vals]}
    if undecided:
        return 'undecided', undecided
    return 'ok', n


def _core(e):
    while isinstance(e, tuple) and e and e[0] == 'when':
        e = e[2]
    return e
