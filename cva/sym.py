"""E-SYM: homogeneity (scale) types and shift weights of closed forms, inferred over the expressions produced by
the element abstraction (cva.elem).

A scale type is {unit: exponent} where an exponent is a polynomial (Fraction coefficients) over *dimensionless
parameter symbols* (needed for beta^alpha * x^(alpha-1)).  `ln` of a dimensional value yields a dimensionless value
carrying a log-offset, so that -ln(sigma*sqrt(2 pi)) types as ln(1/X) and exp() recovers the exponent.

This is a refutation analysis: a reported conflict means the expression is not homogeneous of the declared degree
(so it cannot equal a formula that is); absence of conflicts proves nothing about dimensionless factors."""
from fractions import Fraction


# ----------------------------------------------------------------------------- exponent polynomials {monomial: Fraction}
def ep_const(c):
    c = Fraction(c)
    return {(): c} if c != 0 else {}


def ep_add(a, b):
    out = dict(a)
    for m, c in b.items():
        v = out.get(m, 0) + c
        if v == 0:
            out.pop(m, None)
        else:
            out[m] = v
    return out


def ep_scale(a, s):
    s = Fraction(s)
    if s == 0:
        return {}
    return {m: c * s for m, c in a.items()}


def ep_mul(a, b):
    out = {}
    for m1, c1 in a.items():
        for m2, c2 in b.items():
            m = tuple(sorted(m1 + m2))
            v = out.get(m, 0) + c1 * c2
            if v == 0:
                out.pop(m, None)
            else:
                out[m] = v
    return out


def ep_show(a):
    if not a:
        return '0'
    parts = []
    for m, c in sorted(a.items()):
        if not m:
            parts.append(str(c))
        else:
            parts.append(('' if c == 1 else ('-' if c == -1 else '%s*' % c)) + '*'.join(m))
    return '+'.join(parts).replace('+-', '-')


# ----------------------------------------------------------------------------- dimensions {unit: exponent polynomial}
def d_mul(a, b):
    out = dict(a)
    for u, e in b.items():
        v = ep_add(out.get(u, {}), e)
        if v:
            out[u] = v
        else:
            out.pop(u, None)
    return out


def d_pow(a, e):
    """a ** e where e is an exponent polynomial"""
    out = {}
    for u, x in a.items():
        v = ep_mul(x, e)
        if v:
            out[u] = v
    return out


def d_inv(a):
    return {u: ep_scale(e, -1) for u, e in a.items()}


def d_show(a):
    if not a:
        return '1'
    return ' '.join('%s^(%s)' % (u, ep_show(e)) if ep_show(e) != '1' else u for u, e in sorted(a.items()))


class Ty:
    """dim: scale type; log: log-offset (a scale type); poly: value is the polymorphic literal 0 / inf / nan;
    num: numeric value if the expression is a pure number (used for exponents); par: exponent polynomial if the
    expression is a dimensionless parameter combination"""
    __slots__ = ('dim', 'log', 'poly', 'par')

    def __init__(self, dim=None, log=None, poly=False, par=None):
        self.dim = dim or {}
        self.log = log or {}
        self.poly = poly
        self.par = par

    def __repr__(self):
        s = d_show(self.dim)
        if self.log:
            s += ' +ln[%s]' % d_show(self.log)
        if self.poly:
            s += ' (polymorphic)'
        return s


class SymInfer:
    def __init__(self, seeds, params=None):
        """seeds: expr -> Ty for leaves (('sym',name), ('fld', ('sym','SELF'), k)); params: expr -> name for
        dimensionless parameters that may appear in exponents"""
        self.seeds = seeds
        self.params = params or {}
        self.problems = []
        self.unknown = []

    def problem(self, msg):
        if msg not in self.problems:
            self.problems.append(msg)

    def infer_set(self, s, what=''):
        """type of a set of alternatives (all must agree, polymorphic literals excepted)"""
        tys = [self.infer(e) for e in s]
        conc = [t for t in tys if t is not None and not t.poly]
        if not conc:
            return tys[0] if tys else None
        t0 = conc[0]
        for t in conc[1:]:
            if t.dim != t0.dim or t.log != t0.log:
                self.problem('%salternatives have different scale types: %s vs %s' % (what, t0, t))
        return t0

    def infer(self, e):
        from .elem import show_expr
        if e in self.seeds:
            t = self.seeds[e]
            par = ({(self.params[e],): Fraction(1)} if e in self.params else None)
            return Ty(dict(t.dim), dict(t.log), False, par)
        k = e[0]
        if k == 'c':
            v = e[1]
            if isinstance(v, float) and (v == 0.0 or v != v or v in (float('inf'), float('-inf'))):
                return Ty(poly=True, par=ep_const(0) if v == 0.0 else None)
            return Ty(par=ep_const(Fraction(v).limit_denominator(10 ** 9)) if isinstance(v, (int, float)) else None)
        if k == 'ci':
            return Ty(par=ep_const(e[1]))
        if k in ('int', 'len'):
            return Ty()
        if k == 'cast':
            t = self.infer(e[1])
            return t if t is not None else Ty()
        if k == 'neg':
            t = self.infer(e[1])
            if t is None:
                return None
            return Ty(t.dim, {u: ep_scale(x, -1) for u, x in t.log.items()}, t.poly, ep_scale(t.par, -1) if t.par is not None else None)
        if k == 'b':
            op = e[1]
            a, b = self.infer(e[2]), self.infer(e[3])
            if a is None or b is None:
                return None
            if op in ('Add', 'Sub'):
                if a.poly and not b.poly:
                    return Ty(b.dim, b.log if op == 'Add' else {u: ep_scale(x, -1) for u, x in b.log.items()}, False, None)
                if b.poly and not a.poly:
                    return Ty(a.dim, a.log, False, None)
                if a.dim != b.dim:
                    self.problem('%s of %s [%s] and %s [%s]' % ('sum' if op == 'Add' else 'difference', show_expr(e[2])[:60], d_show(a.dim), show_expr(e[3])[:60], d_show(b.dim)))
                    return Ty(a.dim)
                lg = d_mul(a.log, b.log if op == 'Add' else d_inv(b.log))
                par = None
                if a.par is not None and b.par is not None:
                    par = ep_add(a.par, b.par if op == 'Add' else ep_scale(b.par, -1))
                return Ty(a.dim, lg, a.poly and b.poly, par)
            if op in ('Mul', 'Div'):
                bd = b.dim if op == 'Mul' else d_inv(b.dim)
                dim = d_mul(a.dim, bd)
                lg = {}
                if a.log or b.log:
                    # log-valued quantity times a pure number
                    if a.log and not b.log and b.par is not None and len(b.par) <= 1 and all(m == () for m in b.par) and not b.dim:
                        c = b.par.get((), Fraction(0))
                        lg = {u: ep_scale(x, c if op == 'Mul' else 1 / c) for u, x in a.log.items()} if c != 0 else {}
                    elif b.log and not a.log and op == 'Mul' and a.par is not None and all(m == () for m in a.par) and not a.dim:
                        c = a.par.get((), Fraction(0))
                        lg = {u: ep_scale(x, c) for u, x in b.log.items()}
                    else:
                        self.problem('product involving a logarithm of a dimensional quantity: %s' % show_expr(e)[:80])
                par = None
                if a.par is not None and b.par is not None and not dim:
                    if op == 'Mul':
                        par = ep_mul(a.par, b.par)
                    elif all(m == () for m in b.par) and b.par.get((), 0) != 0:
                        par = ep_scale(a.par, 1 / b.par[()])
                return Ty(dim, lg, (a.poly and op == 'Mul') or (a.poly and op == 'Div') or (b.poly and op == 'Mul'), par)
            if op == 'Rem':
                return Ty(a.dim)
            return Ty()
        if k == 'm':
            name = e[1]
            a = self.infer(e[2])
            if a is None:
                return None
            if name in ('abs', 'floor', 'ceil', 'round', 'signum'):
                return Ty(a.dim if name != 'signum' else {}, {}, a.poly)
            if name == 'sqrt':
                return Ty(d_pow(a.dim, ep_const(Fraction(1, 2))), {}, a.poly)
            if name == 'cbrt':
                return Ty(d_pow(a.dim, ep_const(Fraction(1, 3))))
            if name == 'recip':
                return Ty(d_inv(a.dim))
            if name in ('powi', 'powf'):
                ex = self.infer(e[3])
                if ex is None:
                    return None
                if ex.dim:
                    self.problem('exponent %s carries scale %s' % (show_expr(e[3])[:60], d_show(ex.dim)))
                if not a.dim:
                    return Ty()
                if ex.par is None:
                    # data-dependent exponent on a dimensional base (e.g. lambda^k): fine only if base is dimensionless
                    self.unknown.append('non-parametric exponent on dimensional base %s' % show_expr(e)[:60])
                    return None
                return Ty(d_pow(a.dim, ex.par))
            if name == 'ln' or name in ('log10', 'log2', 'ln_1p'):
                if a.log:
                    self.problem('logarithm of a logarithmic quantity')
                if name == 'ln_1p' and a.dim:
                    self.problem('ln_1p of a dimensional quantity %s [%s]' % (show_expr(e[2])[:60], d_show(a.dim)))
                return Ty({}, dict(a.dim))
            if name == 'exp' or name == 'exp_m1' or name == 'exp2':
                if a.dim:
                    self.problem('exp of a dimensional quantity %s [%s]' % (show_expr(e[2])[:80], d_show(a.dim)))
                return Ty(dict(a.log))
            if name in ('sin', 'cos', 'tan', 'sinh', 'cosh', 'tanh', 'asin', 'acos', 'atan', 'gamma', 'ln_gamma', 'beta', 'digamma', 'erf', 'binom_coeff'):
                if a.dim:
                    self.problem('%s of a dimensional quantity %s [%s]' % (name, show_expr(e[2])[:60], d_show(a.dim)))
                for x in e[3:]:
                    t = self.infer(x)
                    if t is not None and t.dim:
                        self.problem('%s of a dimensional quantity %s [%s]' % (name, show_expr(x)[:60], d_show(t.dim)))
                return Ty()
            if name in ('max', 'min'):
                b = self.infer(e[3])
                if b is not None and not a.poly and not b.poly and a.dim != b.dim and e[2] != ('sym', 'acc') and e[3] != ('sym', 'acc'):
                    self.problem('%s of %s and %s' % (name, d_show(a.dim), d_show(b.dim)))
                if e[2] == ('sym', 'acc') or a.poly:
                    return b
                return a
            if name == 'rel_diff':
                return Ty()
            self.unknown.append('method ' + name)
            return None
        if k == 'red':
            elems = [x for x in e[2] if x != ('sym', 'acc')]
            # accumulators: Add(acc, term) -> term
            flat = []
            for x in elems:
                flat.append(x)
            tys = []
            for x in flat:
                t = self.infer(self._strip_acc(x))
                if t is not None and not t.poly:
                    tys.append(t)
            if not tys:
                return Ty(poly=True)
            for t in tys[1:]:
                if t.dim != tys[0].dim:
                    self.problem('reduction over terms of different scale: %s vs %s' % (tys[0], t))
            if e[1] == 'product':
                self.unknown.append('product reduction')
                return None
            return Ty(tys[0].dim)
        if k == 'fld':
            base = self.infer(e[1]) if e[1] in self.seeds else None
            self.unknown.append('unseeded field %s' % show_expr(e))
            return None
        if k == 'sym':
            if e[1] == 'acc':
                return Ty(poly=True)
            if e[1].startswith('rng:'):
                return Ty()
            self.unknown.append('unseeded symbol %s' % e[1])
            return None
        if k == 'uninit' or k == 'top':
            return None
        self.unknown.append('expr kind %s' % k)
        return None

    def _strip_acc(self, x):
        """Add(acc, t) / Add(t, acc) -> t ; m(max, acc, t) -> t"""
        if x[0] == 'b' and x[1] in ('Add', 'Sub'):
            if x[2] == ('sym', 'acc'):
                return self._strip_acc(x[3])
            if x[3] == ('sym', 'acc'):
                return self._strip_acc(x[2])
        return x


def unit(name, p=1):
    return {name: ep_const(p)}
