"""Tolerance tests: `reject when |x - y| > T`.

A routing predicate that treats "nearly equal" as "equal" replaces the data by nearby data; the perturbation it
admits is T.  For the result to stay within a small multiple of machine epsilon *relative to the data* for every
finite input, T must (a) be homogeneous of degree 1 in the data (scale consistency: the predicate's answer must not
change when the whole input is multiplied by a constant), and (b) have a coefficient of the order of machine epsilon.
T == 0 (exact comparison) trivially satisfies both."""
import math
from .ir import tag, show, is_f64_method, f64_method_name
from .absint import AbsEval, Iv

EPS = 2.220446049250313e-16
K_EPS = 16.0      # "a small multiple of machine epsilon"


def degree(t, is_datum):
    """scale degree of term t in the data (None = inconsistent / unknown)"""
    if is_datum(t):
        return 1.0
    k = tag(t)
    if k in ('const', 'constx'):
        return 0.0
    if k == 'un':
        return degree(t[2], is_datum)
    if k == 'cast':
        return degree(t[2], is_datum)
    if k == 'bin':
        a, b = degree(t[2], is_datum), degree(t[3], is_datum)
        if a is None or b is None:
            return None
        if t[1] in ('Add', 'Sub'):
            if a == b:
                return a
            # adding a constant 0 is fine
            for x, d in ((t[2], a), (t[3], b)):
                if tag(x) == 'const' and x[2] == 0:
                    return b if x is t[2] else a
            return None
        if t[1] == 'Mul':
            return a + b
        if t[1] == 'Div':
            return a - b
        return None
    if k == 'call' and is_f64_method(t[1]):
        n = f64_method_name(t[1])
        a = degree(t[2][0], is_datum)
        if a is None:
            return None
        if n in ('abs',):
            return a
        if n in ('max', 'min'):
            b = degree(t[2][1], is_datum)
            return a if a == b else None
        if n == 'sqrt':
            return a / 2
        if n == 'powi' and tag(t[2][1]) == 'const':
            return a * t[2][1][2]
        if a == 0:
            return 0.0
        return None
    return None


def tolerance_verdict(cond, val, is_datum):
    """cond/val: an edge condition under which the predicate rejects.  Returns (ok, text)."""
    if tag(cond) != 'bin':
        return None, 'rejecting condition is not a comparison: %s' % show(cond)[:80]
    op = cond[1]
    a, b = cond[2], cond[3]
    if op in ('Ne', 'Eq') and is_datum(a) and is_datum(b):
        if (op == 'Ne') == bool(val):
            return True, 'exact comparison'
        return None, 'rejects on equality?'
    # normalise to D > T
    if op in ('Gt', 'Ge') and val is True:
        D, T = a, b
    elif op in ('Lt', 'Le') and val is True:
        D, T = b, a
    elif op in ('Le', 'Lt') and val is False:
        D, T = a, b
    elif op in ('Ge', 'Gt') and val is False:
        D, T = b, a
    else:
        return None, 'unrecognised comparison %s is %s' % (op, val)
    dd = degree(D, is_datum)
    if dd != 1.0:
        return None, 'compared quantity %s is not a difference of data' % show(D)[:80]
    dt = degree(T, is_datum)
    if tag(T) == 'const' and T[2] == 0:
        return True, 'exact comparison (tolerance 0)'
    if dt is None:
        return False, 'tolerance %s mixes scales' % show(T)[:100]
    if dt != 1.0:
        return False, ('tolerance %s has scale degree %g while the compared difference has degree 1: the test is not scale consistent '
                       '(an absolute tolerance accepts any matrix whose entries are below it, e.g. 1e-17*[[2,0],[1,2]])' % (show(T)[:60], dt))
    ev = AbsEval(lambda t: Iv(-1.0, 1.0) if is_datum(t) else None)
    v = ev.ev(T)
    hi = v.iv.hi
    if ev.unknown or hi == math.inf:
        return None, 'tolerance coefficient not evaluated (%s)' % '; '.join(ev.unknown)[:100]
    if hi <= K_EPS * EPS:
        return True, 'relative tolerance with coefficient <= %.3g (<= %g eps)' % (hi, K_EPS)
    return False, ('relative tolerance coefficient up to %.3g = %.3g eps: data differing by that much relative amount is treated as equal, '
                   'far beyond a small multiple of machine epsilon' % (hi, hi / EPS))
