"""Tolerance tests: `reject when |x - y| > T`.

A routing predicate that treats "nearly equal" as "equal" replaces the data by nearby data; the perturbation it
admits is T.  For the result to stay within a small multiple of machine epsilon *relative to the data* for every
finite input, T must (a) be homogeneous of degree 1 in the data (scale consistency: the predicate's answer must not
change when the whole input is multiplied by a constant), and (b) have a coefficient of the order of machine epsilon.
T == 0 (exact comparison) trivially satisfies both."""
import math
from .ir import tag, show, short, subterms, is_f64_method, f64_method_name
from .framework import site_of
from .absint import AbsEval, Iv

EPS = 2.220446049250313e-16
K_EPS = 16.0      # "a small multiple of machine epsilon"


def degree(t, is_datum):
    """scale degree of term t in the data (None = inconsistent / unknown)"""
    if is_datum(t):
        return 1.0
    k = tag(t)
    if k in ('const', 'constx'):
        return 0.0
    if k == 'un':
        return degree(t[2], is_datum)
    if k == 'cast':
        return degree(t[2], is_datum)
    if k == 'bin':
        a, b = degree(t[2], is_datum), degree(t[3], is_datum)
        if t[1] in ('Add', 'Sub') and (a is None) != (b is None):
            # a free scalar (parameter / captured variable) added to a quantity of known degree must have that degree
            unk = t[2] if a is None else t[3]
            if tag(unk) in ('arg', 'upvar', 'local'):
                return b if a is None else a
        if a is None or b is None:
            return None
        if t[1] in ('Add', 'Sub'):
            if a == b:
                return a
            # adding a constant 0 is fine
            for x, d in ((t[2], a), (t[3], b)):
                if tag(x) == 'const' and x[2] == 0:
                    return b if x is t[2] else a
            return None
        if t[1] == 'Mul':
            return a + b
        if t[1] == 'Div':
            return a - b
        return None
    if k == 'call' and is_f64_method(t[1]):
        n = f64_method_name(t[1])
        a = degree(t[2][0], is_datum)
        if a is None:
            return None
        if n in ('abs',):
            return a
        if n in ('max', 'min'):
            b = degree(t[2][1], is_datum)
            return a if a == b else None
        if n == 'sqrt':
            return a / 2
        if n == 'powi' and tag(t[2][1]) == 'const':
            return a * t[2][1][2]
        if a == 0:
            return 0.0
        return None
    return None


def tolerance_verdict(cond, val, is_datum):
    """cond/val: an edge condition under which the predicate rejects.  Returns (ok, text)."""
    if tag(cond) != 'bin':
        return None, 'rejecting condition is not a comparison: %s' % show(cond)[:80]
    op = cond[1]
    a, b = cond[2], cond[3]
    if op in ('Ne', 'Eq') and is_datum(a) and is_datum(b):
        if (op == 'Ne') == bool(val):
            return True, 'exact comparison'
        return None, 'rejects on equality?'
    # normalise to D > T
    if op in ('Gt', 'Ge') and val is True:
        D, T = a, b
    elif op in ('Lt', 'Le') and val is True:
        D, T = b, a
    elif op in ('Le', 'Lt') and val is False:
        D, T = a, b
    elif op in ('Ge', 'Gt') and val is False:
        D, T = b, a
    else:
        return None, 'unrecognised comparison %s is %s' % (op, val)
    dd = degree(D, is_datum)
    if dd != 1.0:
        return None, 'compared quantity %s is not a difference of data' % show(D)[:80]
    dt = degree(T, is_datum)
    if tag(T) == 'const' and T[2] == 0:
        return True, 'exact comparison (tolerance 0)'
    if dt is None:
        return False, 'tolerance %s mixes scales' % show(T)[:100]
    if dt != 1.0:
        return False, ('tolerance %s has scale degree %g while the compared difference has degree 1: the test is not scale consistent '
                       '(an absolute tolerance accepts any matrix whose entries are below it, e.g. 1e-17*[[2,0],[1,2]])' % (show(T)[:60], dt))
    ev = AbsEval(lambda t: Iv(-1.0, 1.0) if is_datum(t) else None)
    v = ev.ev(T)
    hi = v.iv.hi
    if ev.unknown or hi == math.inf:
        return None, 'tolerance coefficient not evaluated (%s)' % '; '.join(ev.unknown)[:100]
    if hi <= K_EPS * EPS:
        return True, 'relative tolerance with coefficient <= %.3g (<= %g eps)' % (hi, K_EPS)
    return False, ('relative tolerance coefficient up to %.3g = %.3g eps: data differing by that much relative amount is treated as equal, '
                   'far beyond a small multiple of machine epsilon' % (hi, hi / EPS))


def check_tolerances(prog, rep, rule, roots):
    """apply tolerance_verdict to every data-difference test that makes a bool predicate (reachable from `roots` through
    in-crate bool callees) answer false"""
    pdb = prog.pdb
    preds = list(roots)
    seen = set()
    n = 0
    while preds:
        k = preds.pop()
        if k in seen:
            continue
        seen.add(k)
        f = prog.func(k)
        if f is None:
            continue
        for c in f.calls():
            if c.path and c.path.startswith('linalg::') and prog.func(c.path) is not None and pdb.bodies[c.path].local_ty(0) == 'bool':
                preds.append(c.path)
        rep.touch(k)
        data_roots = [('arg', i + 1, f.names.get(i + 1)) for i in range(f.body.arg_count)]

        def is_datum(t, roots=data_roots):
            if tag(t) != 'index':
                return False
            r = t[1]
            while tag(r) == 'field':
                r = r[1]
            return r in roots
        for s_ in f.stores():
            if not (tag(s_.target) == 'local' and s_.target[1] == 0 and s_.value == ('const', 'bool', False)):
                continue
            for cond, val in f.guards().get(s_.bb, []):
                reads = set(x for x in subterms(cond) if is_datum(x))
                if len(reads) < 2 or tag(cond) != 'bin' or cond[4] not in ('f64', 'f32'):
                    continue
                n += 1
                key = '%s:%s' % (rule, k)
                ok, text = tolerance_verdict(cond, val, is_datum)
                if ok is None:
                    rep.undecided(rule, key, text)
                else:
                    (rep.ok if ok else rep.viol)(rule, key, text, site_of(s_.span))
        if not any(o_.rule == rule and o_.key == '%s:%s' % (rule, k) for o_ in getattr(rep, 'obs', [])) and pdb.bodies[k].local_ty(0) == 'bool':
            # expression form: the predicate's value is a bool expression (all / any over closures, !(..), a local comparison closure)
            for r_ in f.return_values():
                for cond, val in _bool_leaves(prog, r_, True, 0):
                    reads = set(x for x in subterms(cond) if is_datum(x))
                    if len(reads) < 2 or tag(cond) != 'bin' or cond[4] not in ('f64', 'f32'):
                        continue
                    n += 1
                    key = '%s:%s' % (rule, k)
                    ok, text = tolerance_verdict(cond, val, is_datum)
                    if ok is None:
                        rep.undecided(rule, key, text)
                    else:
                        (rep.ok if ok else rep.viol)(rule, key, text, site_of(f.body))
    # the anchors are the roots: a root from which no data-difference test was read (the comparison sits in a helper taking
    # scalars, behind an iterator adaptor, ...) is recorded as not read rather than silently dropped
    for r0 in roots:
        f0 = prog.func(r0)
        if f0 is None:
            continue
        reach, work = set(), [r0]
        while work:
            k = work.pop()
            if k in reach:
                continue
            reach.add(k)
            g = prog.func(k)
            if g is None:
                continue
            for c in g.calls():
                if c.path and c.path.startswith('linalg::') and prog.func(c.path) is not None and pdb.bodies[c.path].local_ty(0) == 'bool':
                    work.append(c.path)
        keys = {'%s:%s' % (rule, k) for k in reach}
        if not any(o_.rule == rule and o_.key in keys for o_ in getattr(rep, 'obs', [])):
            rep.undecided(rule, '%s:%s' % (rule, r0), 'no comparison of two data reads makes this predicate (or a bool predicate it calls) answer false in a read form: '
                          'the tolerance is not read', site_of(f0.body), proof=False)
    return n


def _bool_leaves(prog, t, pol, depth, f=None):
    """comparisons a bool expression is built from, each with the truth value that drives the whole expression towards false:
    yields (comparison, value).  Read through !x, a & b, a | b, iter.all(closure) / iter.any(closure) and direct calls of local closures
    (parameters replaced by the argument terms, captures by the captured terms)."""
    from .ir import map_term
    if depth > 6 or not isinstance(t, tuple):
        return
    k = tag(t)
    if k == 'local' and f is not None:
        # a bool assembled by short-circuit evaluation (`a || b`): every non-constant definition contributes with the same polarity
        for st in f.stores():
            if st.target == t and tag(st.value) != 'const':
                yield from _bool_leaves(prog, st.value, pol, depth + 1, f)
        return
    if k == 'un' and t[1] == 'Not':
        yield from _bool_leaves(prog, t[2], not pol, depth, f)
        return
    if k == 'bin' and t[1] in ('BitAnd', 'BitOr'):
        yield from _bool_leaves(prog, t[2], pol, depth, f)
        yield from _bool_leaves(prog, t[3], pol, depth, f)
        return
    if k == 'bin' and t[1] in ('Lt', 'Le', 'Gt', 'Ge', 'Eq', 'Ne'):
        yield (t, not pol)
        return
    if k == 'call' and short(t[1]) in ('all', 'any') and len(t[2]) == 2 and tag(t[2][1]) == 'agg' and t[2][1][1] == 'closure':
        cl = t[2][1]
        g = prog.func(cl[2])
        if g is None:
            return
        for rv in g.return_values():
            rv2 = map_term(rv, lambda n_: cl[3][n_[1]] if tag(n_) == 'upvar' and n_[1] < len(cl[3]) else n_)
            yield from _bool_leaves(prog, rv2, pol, depth + 1)
        return
    if k == 'call' and t[1] in prog.pdb.bodies and len(t[2]) == 2 and tag(t[2][0]) == 'agg' and t[2][0][1] == 'closure' \
            and tag(t[2][1]) == 'agg' and t[2][1][1] == 'tuple':
        cl, tup = t[2]
        g = prog.func(t[1])
        if g is None or g.body.kind != 'closure':
            return
        comps = tup[3]
        for rv in g.return_values():
            def sub(n_, cl=cl, comps=comps):
                if tag(n_) == 'upvar' and n_[1] < len(cl[3]):
                    return cl[3][n_[1]]
                if tag(n_) == 'arg' and 2 <= n_[1] < 2 + len(comps):
                    return comps[n_[1] - 2]
                return n_
            yield from _bool_leaves(prog, map_term(rv, sub), pol, depth + 1)
        return


def _is_zero(t):
    return tag(t) == 'const' and isinstance(t[2], (int, float)) and t[2] == 0


def is_element_read(t):
    """an element of a buffer: x[i] or an Index call with scalar result (not a range / row slice)"""
    if tag(t) == 'index':
        return tag(t[2]) != 'range'
    if tag(t) == 'call' and (t[1].endswith('>::index') or t[1].endswith('>::index_mut')) and len(t[2]) == 2:
        return tag(t[2][1]) in ('adt', 'array', 'aggregate') or show(t[2][1]).startswith('usize{')
    return False


def check_scale_guards(prog, rep, rule, fnkeys, floor_each=1, values=False, missing_ok=False, why=None, follow_helpers=False):
    """every branch on a floating-point comparison in the listed factorisation bodies must be scale consistent: comparing
    data with the constant 0, or two quantities of the same degree in the data.  (P.A = L.U and L.L^T = A are claimed for every
    matrix, hence also for c*A: a threshold that is not homogeneous makes the factorisation of c*A differ structurally.)"""
    total = 0
    if follow_helpers:
        # helpers extracted from the listed bodies (same module, not public API of another module) are part of them
        fnkeys = list(fnkeys)
        seen_ = set(fnkeys)
        work = list(fnkeys)
        while work:
            k0 = work.pop()
            f0 = prog.func(k0)
            if f0 is None:
                continue
            mod = k0.rsplit('::', 1)[0] if not k0.startswith('<') else None
            for c in f0.calls():
                if c.path and c.path in prog.pdb.bodies and c.path not in seen_ and prog.pdb.bodies[c.path].vis != 'pub' and \
                        (mod is None or c.path.startswith(mod + '::') or '::' not in c.path):
                    seen_.add(c.path)
                    fnkeys.append(c.path)
                    work.append(c.path)
            for b_ in prog.pdb.closures_of(k0):
                if b_.key not in seen_:
                    seen_.add(b_.key)
                    fnkeys.append(b_.key)
    for k in fnkeys:
        f = prog.func(k)
        if f is None:
            if not missing_ok:
                rep.viol(rule, '%s:%s' % (rule, k), 'function disappeared')
            continue
        rep.touch(k)
        seen = set()
        n = 0
        conds_all = [(cond, val) for bb, gl in sorted(f.guards().items()) for cond, val in gl]
        if values:
            # comparisons used as values (closure results fed to all()/any()/filter, stored flags)
            pool = [s_.value for s_ in f.stores()] + list(f.return_values()) + [a for c in f.calls() for a in c.args]
            for t in pool:
                for z in subterms(t):
                    if tag(z) == 'bin' and z[1] in ('Lt', 'Le', 'Gt', 'Ge', 'Eq', 'Ne') and len(z) > 4 and z[4] in ('f64', 'f32'):
                        conds_all.append((z, True))
        if True:
            for cond, val in conds_all:
                if tag(cond) != 'bin' or cond[4] not in ('f64', 'f32') or cond[1] not in ('Lt', 'Le', 'Gt', 'Ge', 'Eq', 'Ne') or cond in seen:
                    continue
                seen.add(cond)
                n += 1
                key = '%s:%s#%d' % (rule, k, n)
                a, b = cond[2], cond[3]
                if _is_zero(a) or _is_zero(b):
                    rep.ok(rule, key, 'comparison with exact zero: %s' % show(cond)[:100])
                    continue
                da, db = degree(a, is_element_read), degree(b, is_element_read)
                if da is None or db is None:
                    rep.undecided(rule, key, 'degree of %s not inferred' % show(cond)[:100], proof=False)
                elif da == db:
                    rep.ok(rule, key, 'both sides have degree %g in the data: %s' % (da, show(cond)[:80]))
                else:
                    rep.viol(rule, key, 'threshold test is not scale consistent: %s has degree %g in the data, %s has degree %g; %s' % (
                                 show(a)[:70], da, show(b)[:40], db, why or 'the factorisation of c*A then differs structurally from that of A '
                                 '(e.g. a pivot of 1e-17 is treated as zero and its column is left undivided)'), site_of(f.body))
        total += n
    return total
