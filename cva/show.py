"""debug helper: python3 -m cva.show <pdb.json> <body-key-substring> [--mir]"""
import sys
from .pdb import PDB
from .ir import Program, show


def main():
    pdb = PDB(sys.argv[1])
    prog = Program(pdb)
    pat = sys.argv[2]
    mir = '--mir' in sys.argv
    for k in sorted(pdb.bodies):
        if pat not in k:
            continue
        f = prog.func(k)
        print('=' * 100)
        print(k, f.body.span)
        if mir:
            print(f.body.pretty())
        print('-- returns:')
        for r in f.return_values():
            print('   ', show(r))
        print('-- stores:')
        for s in f.stores():
            print('    bb%d %s := %s' % (s.bb, show(s.target), show(s.value)))
        print('-- calls:')
        for c in f.calls():
            print('    bb%d %s(%s)' % (c.bb, c.path, ', '.join(show(a) for a in c.args)))
        print('-- guards:')
        for b, g in sorted(f.guards().items()):
            if g:
                print('    bb%d: %s' % (b, '; '.join('%s is %s' % (show(c), v) for c, v in g)))
        print('-- loops:')
        for li in f.loop_info():
            print('    header bb%d blocks %s item %s' % (li['header'], sorted(li['blocks']), show(li['item']) if li['item'] else None))


if __name__ == '__main__':
    main()
