"""Integer polynomial forms of index terms: {monomial: coeff}, monomial = sorted tuple of atom terms
(the empty tuple is the constant).  Atoms are all non-arithmetic subterms (loop items, lengths,
parameters, fields).  Casts between integer types are transparent."""
from .ir import tag


def _key(t):
    return repr(t)


def poly(t):
    k = tag(t)
    if k == 'const' and isinstance(t[2], int) and not isinstance(t[2], bool):
        return {(): t[2]} if t[2] != 0 else {}
    if k == 'bin' and t[4] != 'f64':
        op = t[1]
        if op in ('Add', 'AddO'):
            return padd(poly(t[2]), poly(t[3]))
        if op in ('Sub', 'SubO'):
            return padd(poly(t[2]), pscale(poly(t[3]), -1))
        if op in ('Mul', 'MulO'):
            return pmul(poly(t[2]), poly(t[3]))
    if k == 'cast' and t[1] == 'IntToInt':
        return poly(t[2])
    if k == 'field' and tag(t[1]) == 'bin' and t[1][1] in ('AddO', 'SubO', 'MulO') and t[2] == 0:
        # checked arithmetic returns (value, overflowed)
        return poly(('bin', t[1][1][:-1], t[1][2], t[1][3], t[1][4]))
    return {(t,): 1}


def padd(a, b):
    out = dict(a)
    for m, c in b.items():
        v = out.get(m, 0) + c
        if v == 0:
            out.pop(m, None)
        else:
            out[m] = v
    return out


def pscale(a, s):
    if s == 0:
        return {}
    return {m: c * s for m, c in a.items()}


def pmul(a, b):
    out = {}
    for m1, c1 in a.items():
        for m2, c2 in b.items():
            m = tuple(sorted(m1 + m2, key=_key))
            v = out.get(m, 0) + c1 * c2
            if v == 0:
                out.pop(m, None)
            else:
                out[m] = v
    return out


def psub(a, b):
    return padd(a, pscale(b, -1))


def peq(a, b):
    return not psub(a, b)


def pconst(a):
    """integer value if a is constant else None"""
    if not a:
        return 0
    if len(a) == 1 and () in a:
        return a[()]
    return None


def atoms(a):
    out = []
    for m in a:
        for x in m:
            if x not in out:
                out.append(x)
    return out


def coeff_of(a, atom):
    """split a = atom*q + r where r does not contain atom (degree 1 in atom); returns (q, r) or None"""
    q = {}
    r = {}
    for m, c in a.items():
        n = sum(1 for x in m if x == atom)
        if n == 0:
            r[m] = c
        elif n == 1:
            rest = tuple(x for x in m if x != atom) if m.count(atom) == 1 else None
            q[rest] = q.get(rest, 0) + c
        else:
            return None
    return q, r


def pshow(a, show):
    if not a:
        return '0'
    parts = []
    for m, c in sorted(a.items(), key=lambda kv: repr(kv[0])):
        if not m:
            parts.append(str(c))
        else:
            s = '*'.join(show(x) for x in m)
            parts.append(s if c == 1 else '%d*%s' % (c, s))
    return ' + '.join(parts)
