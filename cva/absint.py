"""E-ABS: interval (with open/closed ends) + monotonicity evaluation of scalar closed-form terms.

Reasoning is over the reals (rounding/underflow are outside the clauses that use this).  Leaves get their
interval from an environment (constructor invariants, guards); the direction is relative to one designated leaf.
"""
import math
from .ir import tag, is_f64_method, f64_method_name, show

INF = float('inf')


class Iv:
    __slots__ = ('lo', 'hi', 'lo_open', 'hi_open')

    def __init__(self, lo=-INF, hi=INF, lo_open=None, hi_open=None):
        self.lo = lo
        self.hi = hi
        self.lo_open = (lo == -INF) if lo_open is None else lo_open
        self.hi_open = (hi == INF) if hi_open is None else hi_open

    @staticmethod
    def point(v):
        return Iv(v, v, False, False)

    def contains_zero(self):
        return (self.lo < 0 or (self.lo == 0 and not self.lo_open)) and (self.hi > 0 or (self.hi == 0 and not self.hi_open))

    def is_pos(self):
        return self.lo > 0 or (self.lo == 0 and self.lo_open)

    def is_nonneg(self):
        return self.lo >= 0

    def is_neg(self):
        return self.hi < 0 or (self.hi == 0 and self.hi_open)

    def is_nonpos(self):
        return self.hi <= 0

    def within(self, lo, hi):
        return self.lo >= lo and self.hi <= hi

    def __repr__(self):
        return '%s%g, %g%s' % ('(' if self.lo_open else '[', self.lo, self.hi, ')' if self.hi_open else ']')


TOPIV = Iv()


def _mulb(a, ao, b, bo):
    """product of two bounds with openness"""
    if a == 0 or b == 0:
        # 0 * anything = 0; closed only if the zero bound is attained
        z_closed = (a == 0 and not ao) or (b == 0 and not bo)
        if (a == 0 and not ao and abs(b) == INF) or (b == 0 and not bo and abs(a) == INF):
            return 0.0, False
        return 0.0, not z_closed
    return a * b, (ao or bo)


def iv_add(a, b):
    return Iv(a.lo + b.lo, a.hi + b.hi, a.lo_open or b.lo_open, a.hi_open or b.hi_open)


def iv_neg(a):
    return Iv(-a.hi, -a.lo, a.hi_open, a.lo_open)


def iv_mul(a, b):
    cands = [_mulb(a.lo, a.lo_open, b.lo, b.lo_open), _mulb(a.lo, a.lo_open, b.hi, b.hi_open),
             _mulb(a.hi, a.hi_open, b.lo, b.lo_open), _mulb(a.hi, a.hi_open, b.hi, b.hi_open)]
    cands = [(v, o) for v, o in cands if not (isinstance(v, float) and math.isnan(v))]
    lo = min(cands, key=lambda x: (x[0], not x[1] and -1 or 0))
    hi = max(cands, key=lambda x: (x[0], not x[1] and 1 or 0))
    lov = min(v for v, _ in cands)
    hiv = max(v for v, _ in cands)
    lo_open = all(o for v, o in cands if v == lov)
    hi_open = all(o for v, o in cands if v == hiv)
    return Iv(lov, hiv, lo_open, hi_open)


def iv_recip(a):
    if a.contains_zero():
        return TOPIV
    if a.is_pos():
        lo = 0.0 if a.hi == INF else 1.0 / a.hi
        lo_open = True if a.hi == INF else a.hi_open
        if a.lo == 0:
            return Iv(lo, INF, lo_open, True)
        return Iv(lo, 1.0 / a.lo, lo_open, a.lo_open)
    if a.is_neg():
        r = iv_recip(iv_neg(a))
        return iv_neg(r)
    return TOPIV


def iv_mono_inc(a, fn, dom_lo=-INF, lo_val=None):
    """image under an increasing function defined on [dom_lo, inf)"""
    def ev(x):
        if x == INF:
            return INF
        if x == -INF:
            return lo_val if lo_val is not None else -INF
        try:
            return fn(x)
        except (ValueError, OverflowError):
            return INF if x > 0 else (lo_val if lo_val is not None else -INF)
    return Iv(ev(a.lo), ev(a.hi), a.lo_open, a.hi_open)


class Val:
    """interval + direction w.r.t. the designated leaf: 'inc' | 'dec' | 'const' | '?' (non-strict monotonicity)"""
    __slots__ = ('iv', 'dir')

    def __init__(self, iv, d):
        self.iv = iv
        self.dir = d

    def __repr__(self):
        return '%r %s' % (self.iv, self.dir)


def _flip(d):
    return {'inc': 'dec', 'dec': 'inc'}.get(d, d)


def _join_add(a, b):
    if a == 'const':
        return b
    if b == 'const':
        return a
    if a == b:
        return a
    return '?'


class AbsEval:
    def __init__(self, leaf_iv, wrt=None, const_value=None, call_hook=None):
        """leaf_iv(term) -> Iv or None; wrt = designated leaf term (direction 'inc')"""
        self.leaf_iv = leaf_iv
        self.wrt = wrt
        self.const_value = const_value
        self.call_hook = call_hook
        self.unknown = []

    def ev(self, t):
        if t == self.wrt:
            iv = self.leaf_iv(t) or TOPIV
            return Val(iv, 'inc')
        k = tag(t)
        liv = self.leaf_iv(t)
        if liv is not None:
            return Val(liv, 'const' if not self._mentions(t) else '?')
        if k == 'const':
            if isinstance(t[2], (int, float)) and not isinstance(t[2], bool):
                return Val(Iv.point(float(t[2])), 'const')
            return Val(TOPIV, 'const')
        if k == 'constx':
            if self.const_value is not None:
                v = self.const_value(t)
                if v is not None:
                    return Val(Iv.point(float(v)), 'const')
            return Val(TOPIV, 'const')
        if k == 'un' and t[1] == 'Neg':
            a = self.ev(t[2])
            return Val(iv_neg(a.iv), _flip(a.dir))
        if k == 'cast':
            a = self.ev(t[2])
            if t[1] == 'IntToFloat' and t[4] in ('u64', 'usize', 'u32', 'u8', 'u16'):
                lo = max(a.iv.lo, 0.0)
                return Val(Iv(lo, a.iv.hi, a.iv.lo_open if a.iv.lo >= 0 else False, a.iv.hi_open), a.dir)
            return a
        if k == 'bin' and t[4] in ('f64', 'f32'):
            op = t[1]
            a = self.ev(t[2])
            b = self.ev(t[3])
            if op == 'Add':
                return Val(iv_add(a.iv, b.iv), _join_add(a.dir, b.dir))
            if op == 'Sub':
                return Val(iv_add(a.iv, iv_neg(b.iv)), _join_add(a.dir, _flip(b.dir)))
            if op == 'Mul':
                if t[2] == t[3]:
                    sq = iv_mul(a.iv, a.iv)
                    lo = max(sq.lo, 0.0)
                    d = a.dir if a.iv.is_nonneg() else (_flip(a.dir) if a.iv.is_nonpos() else ('const' if a.dir == 'const' else '?'))
                    return Val(Iv(lo, sq.hi, sq.lo_open if sq.lo >= 0 else not a.iv.contains_zero(), sq.hi_open), d)
                return Val(iv_mul(a.iv, b.iv), self._mul_dir(a, b))
            if op == 'Div':
                r = Val(iv_recip(b.iv), self._recip_dir(b))
                return Val(iv_mul(a.iv, r.iv), self._mul_dir(a, r))
            return Val(TOPIV, '?')
        if k == 'call':
            p = t[1]
            if self.call_hook is not None:
                r = self.call_hook(self, t)
                if r is not None:
                    return r
            if is_f64_method(p):
                name = f64_method_name(p)
                a = self.ev(t[2][0])
                if name == 'exp':
                    return Val(iv_mono_inc(a.iv, math.exp, lo_val=0.0), a.dir)
                if name == 'ln':
                    if not a.iv.is_nonneg():
                        self.unknown.append('ln of possibly negative %s' % show(t[2][0]))
                        return Val(TOPIV, '?')
                    return Val(iv_mono_inc(a.iv, lambda x: math.log(x) if x > 0 else -INF), a.dir)
                if name == 'sqrt':
                    if not a.iv.is_nonneg():
                        self.unknown.append('sqrt of possibly negative %s' % show(t[2][0]))
                        return Val(TOPIV, '?')
                    return Val(iv_mono_inc(a.iv, math.sqrt), a.dir)
                if name == 'abs':
                    if a.iv.is_nonneg():
                        return a
                    if a.iv.is_nonpos():
                        return Val(iv_neg(a.iv), _flip(a.dir))
                    m = max(abs(a.iv.lo), abs(a.iv.hi))
                    return Val(Iv(0.0, m, False, False if m != INF else True), 'const' if a.dir == 'const' else '?')
                if name == 'recip':
                    return Val(iv_recip(a.iv), self._recip_dir(a))
                if name == 'powi':
                    e = t[2][1]
                    if tag(e) == 'const' and isinstance(e[2], int):
                        n = e[2]
                        return self._powi(a, n)
                    return Val(TOPIV if not a.iv.is_nonneg() else Iv(0.0, INF, False, True), 'const' if a.dir == 'const' else '?')
                if name == 'powf':
                    e = self.ev(t[2][1])
                    return self._powf(a, e)
                if name in ('floor', 'ceil', 'round'):
                    return Val(Iv(math.floor(a.iv.lo) if abs(a.iv.lo) != INF else a.iv.lo,
                                  math.ceil(a.iv.hi) if abs(a.iv.hi) != INF else a.iv.hi, False, False), a.dir)
                if name in ('sin', 'cos'):
                    return Val(Iv(-1.0, 1.0, False, False), 'const' if a.dir == 'const' else '?')
                if name in ('tanh',):
                    return Val(Iv(-1.0, 1.0, True, True), a.dir)
                if name in ('max', 'min'):
                    b = self.ev(t[2][1])
                    if name == 'max':
                        return Val(Iv(max(a.iv.lo, b.iv.lo), max(a.iv.hi, b.iv.hi)), _join_add(a.dir, b.dir))
                    return Val(Iv(min(a.iv.lo, b.iv.lo), min(a.iv.hi, b.iv.hi)), _join_add(a.dir, b.dir))
            self.unknown.append('call ' + p)
            return Val(TOPIV, '?')
        self.unknown.append('term ' + show(t)[:60])
        return Val(TOPIV, '?')

    def _mentions(self, t):
        if self.wrt is None:
            return False
        from .ir import subterms
        return any(x == self.wrt for x in subterms(t))

    def _mul_dir(self, a, b):
        if a.dir == 'const' and b.dir == 'const':
            return 'const'
        if a.dir == 'const':
            if a.iv.is_nonneg():
                return b.dir
            if a.iv.is_nonpos():
                return _flip(b.dir)
            return '?'
        if b.dir == 'const':
            if b.iv.is_nonneg():
                return a.dir
            if b.iv.is_nonpos():
                return _flip(a.dir)
            return '?'
        if a.dir == b.dir and a.iv.is_nonneg() and b.iv.is_nonneg():
            return a.dir
        if a.dir == b.dir and a.iv.is_nonpos() and b.iv.is_nonpos():
            return _flip(a.dir)
        return '?'

    def _recip_dir(self, b):
        if b.dir == 'const':
            return 'const'
        if b.iv.is_pos() or b.iv.is_neg():
            return _flip(b.dir)
        return '?'

    def _powi(self, a, n):
        if n == 0:
            return Val(Iv.point(1.0), 'const')
        if n < 0:
            p = self._powi(a, -n)
            return Val(iv_recip(p.iv), self._recip_dir(p))
        if n % 2 == 1:
            return Val(iv_mono_inc(a.iv, lambda x: x ** n), a.dir)
        # even
        if a.iv.is_nonneg():
            return Val(iv_mono_inc(a.iv, lambda x: x ** n), a.dir)
        if a.iv.is_nonpos():
            r = iv_mono_inc(iv_neg(a.iv), lambda x: x ** n)
            return Val(r, _flip(a.dir))
        m = max(abs(a.iv.lo), abs(a.iv.hi))
        return Val(Iv(0.0, m ** n if m != INF else INF, False, m == INF), 'const' if a.dir == 'const' else '?')

    def _powf(self, a, e):
        # base must be non-negative for a real result with a non-integer exponent
        if not a.iv.is_nonneg():
            self.unknown.append('powf with possibly negative base')
            return Val(TOPIV, '?')
        rng = Iv(0.0, INF, not (a.iv.lo == 0 and not a.iv.lo_open), True)
        if a.iv.lo == a.iv.hi == 1.0:
            return Val(Iv.point(1.0), 'const')
        if e.dir == 'const':
            if e.iv.is_nonneg():
                d = a.dir
                if e.iv.lo == e.iv.hi:
                    c = e.iv.lo
                    rng = iv_mono_inc(a.iv, lambda x: x ** c)
                elif a.iv.is_pos():
                    rng = Iv(0.0, INF, True, True)
            elif e.iv.is_nonpos():
                d = _flip(a.dir) if a.iv.is_pos() else '?'
                if a.iv.lo >= 1.0:
                    rng = Iv(0.0, 1.0, True, False)
                if e.iv.lo == e.iv.hi and a.iv.is_pos():
                    c = e.iv.lo
                    rr = iv_mono_inc(a.iv, lambda x: x ** (-c))
                    rng = iv_recip(rr)
                elif a.iv.is_pos():
                    rng = Iv(0.0, INF, True, True)
            else:
                d = 'const' if a.dir == 'const' else '?'
                if a.iv.is_pos():
                    rng = Iv(0.0, INF, True, True)
            return Val(rng, d)
        if a.dir == 'const':
            if a.iv.is_pos():
                rng = Iv(0.0, INF, True, True)
            # base >= 1: increasing in exponent; base in (0,1]: decreasing
            if a.iv.lo >= 1:
                return Val(rng, e.dir)
            if a.iv.hi <= 1 and a.iv.is_pos():
                return Val(rng, _flip(e.dir))
            return Val(rng, '?')
        return Val(rng, '?')
