"""Necessary conditions of normal return, refuted on exact witnesses ("this call cannot come back").

A body f can return normally from block b only if  b is a return block, or some successor edge (b -> s) has a branch condition that
holds and s can return; when b ends in a call of an in-crate function g, g itself must be able to return for its arguments.  Blocks from
which no return block is reachable (panic paths) cannot return; back edges of loops are taken as "can return" (no constraint).  This
relation is read off the CFG and the call graph -- nothing is executed.

A witness assigns small exact values to the atoms of the entry point (scalar parameters, lengths of slice parameters, scalar fields of
`self`).  Branch conditions are *terms* (single-definition locals are already inlined by the IR); a term is evaluated under the witness
frame by frame: a callee's parameter is the caller's argument term, an access path (len / field / discriminant / payload) rooted at a
parameter is resolved in the caller, a local assigned in several branches takes the one value left after discarding the definitions
whose dominating conditions are false.  Whatever cannot be evaluated (loop-carried state, unknown functions, integer wrap-around) decides
nothing.  The entry point is refuted for a witness when no path can reach a return: the call panics, and the report names the input and a
comparison that fails.  No alarm is not a proof.  Witnesses are filtered by a caller-supplied domain predicate and, for methods of a
struct with a modelled constructor, by the constructor's own guards (object invariants).
"""
import itertools
import math
from .ir import tag, show, short, subterms, map_term, is_f64_method, f64_method_name
from .structs import canon_guard, subst, StructModel

INT_TYS = ('usize', 'u64', 'u32', 'u8', 'u16', 'i64', 'i32', 'isize', 'i8', 'i16')
UNSIGNED = ('usize', 'u64', 'u32', 'u8', 'u16')
FLOAT_TYS = ('f64', 'f32')


class Uneval(Exception):
    pass


def _nk(t):
    """term with user names dropped from arg leaves and types from field nodes (environment key)"""
    def f(n):
        if tag(n) == 'arg':
            return ('arg', n[1], None)
        if tag(n) == 'field':
            return ('field', _strip(n[1]), n[2], None)
        return n
    return map_term(t, f)


def _strip(t):
    while True:
        k = tag(t)
        if k in ('deref', 'ref'):
            t = t[1]
        elif k == 'call' and t[2] and short(t[1]) in ('deref', 'clone', 'borrow', 'as_ref', 'to_owned') and len(t[2]) == 1 and t[1].split('::')[0] in ('std', 'core', 'alloc'):
            t = t[2][0]
        else:
            return t


_CMP = {'Lt': lambda a, b: a < b, 'Le': lambda a, b: a <= b, 'Gt': lambda a, b: a > b, 'Ge': lambda a, b: a >= b,
        'Eq': lambda a, b: a == b, 'Ne': lambda a, b: a != b}


class Frame:
    """evaluation context: body f whose parameters are the argument terms `args` of the call in `parent` (None: entry point, whose
    atoms are valued by env)"""

    def __init__(self, f, args=None, parent=None, env=None, depth=0, ncx=None):
        self.f, self.args, self.parent, self.depth = f, args, parent, depth
        self.env = env if env is not None else (parent.env if parent is not None else {})
        self.ncx = ncx if ncx is not None else (parent.ncx if parent is not None else None)      # gives access to the crate's bodies
        self._busy = set()
        self._reach = None
        self._reach_busy = False

    def live_blocks(self):
        """blocks of self.f some path can reach under this frame (None while that is being computed, or without access to the crate)"""
        if self._reach is None and not self._reach_busy and self.ncx is not None and self.f is not None:
            self._reach_busy = True
            try:
                self._reach = self.ncx.reachable(self.f, self)
            finally:
                self._reach_busy = False
        return self._reach


def _path_root(t):
    """the parameter an access path (len / field / downcast / discr / deref chain) is rooted at, or None"""
    t = _strip(t)
    while tag(t) in ('len', 'field', 'downcast', 'discr'):
        t = _strip(t[1])
    return t if tag(t) == 'arg' else None


def _rebase(t, root, new):
    """access path t with its root parameter replaced by term new"""
    t = _strip(t)
    if t == root:
        return new
    k = tag(t)
    if k == 'len':
        return ('len', _rebase(t[1], root, new))
    if k == 'discr':
        return ('discr', _rebase(t[1], root, new))
    if k == 'field':
        return ('field', _rebase(t[1], root, new), t[2], t[3])
    if k == 'downcast':
        return ('downcast', _rebase(t[1], root, new), t[2])
    return t


def _fold(t):
    """projections of literals folded: field i of an aggregate (through a variant downcast) is its i-th component"""
    t = _strip(t)
    k = tag(t)
    if k == 'field':
        inner = _fold(t[1])
        lit = _fold(inner[1]) if tag(inner) == 'downcast' else inner
        if tag(lit) == 'agg' and isinstance(t[2], int) and t[2] < len(lit[3]):
            return _fold(lit[3][t[2]])
        return ('field', inner, t[2], t[3])
    if k == 'downcast':
        return ('downcast', _fold(t[1]), t[2])
    if k in ('len', 'discr'):
        return (k, _fold(t[1]))
    return t


def _path_base(t):
    """innermost term an access path (len / field / downcast / discr chain) is applied to"""
    t = _strip(t)
    while tag(t) in ('len', 'field', 'downcast', 'discr'):
        t = _strip(t[1])
    return t


def _agree(vals):
    if not vals:
        raise Uneval('no live value')
    if any(type(v) != type(vals[0]) or v != vals[0] for v in vals[1:]):
        raise Uneval('several live values')
    return vals[0]


def _matrix_new(t, base, ctx):
    """Matrix::new(data, nrows, ncols) with positive dimensions is the nrows x ncols matrix over data (it builds 1 x len and reshapes in
    place, so its return site alone does not say so; the reshape and the invariant are C15's obligations).  -1 (inferred) is not read."""
    t = _strip(t)
    if tag(t) == 'field' and _strip(t[1]) == base and t[2] in (1, 2):
        v = tev(base[2][t[2]], ctx)
        if isinstance(v, int) and not isinstance(v, bool) and v > 0:
            return v
        raise Uneval('inferred dimension')
    if tag(t) == 'len' and tag(_strip(t[1])) == 'field' and _strip(_strip(t[1])[1]) == base and _strip(t[1])[2] == 0:
        return tev(('len', base[2][0]), ctx)
    raise Uneval('Matrix::new component')


SUMMARIES = {'linalg::array::matrix::Matrix::new': _matrix_new}


def _through_call(t, base, ctx):
    if ctx.depth >= 6:
        raise Uneval('call depth')
    ncx = ctx.ncx
    h = ncx.prog.func(base[1])
    if h is None:
        raise Uneval('callee')
    summ = SUMMARIES.get(base[1])
    if summ is not None:
        return summ(t, base, ctx)
    strict = not ncx.prog.straight_line(h)
    # strict: the callee writes through a reference or a projection somewhere, so a value at its return site may have been modified in
    # place after it was built.  Then only a dimension of a matrix that the return site itself constructs (`_0 = Matrix::new(buf, r, c)`,
    # scalars passed by value, nothing runs after the call) is read
    tt = _strip(t)
    shape_only = tag(tt) == 'field' and _strip(tt[1]) == base and tt[2] in (1, 2)
    key = ('call', base)
    if key in ctx._busy:
        raise Uneval('recursive call')
    ctx._busy.add(key)
    try:
        sub = Frame(h, tuple(base[2]), ctx, depth=ctx.depth + 1)
        live = ncx.reachable(h, sub)
        vals = []
        for d in h._defs.get(0, []):
            if d[1] not in live:
                continue
            rt = h.rvalue_term(d[3], d[1]) if d[0] == 'assign' else h.call_term(d[2], d[1])
            if strict and not (d[0] == 'call' and shape_only and tag(rt) == 'call' and rt[1] in SUMMARIES):
                raise Uneval('callee mutates in place')
            vals.append(tev(_rebase(t, base, rt), sub))
        return _agree(vals)
    finally:
        ctx._busy.discard(key)


def _through_local(t, base, ctx):
    f = ctx.f
    key = ('phi', t)
    if key in ctx._busy:
        raise Uneval('loop-carried local')
    sts = [s_ for s_ in f.stores() if s_.target == base]
    if not sts or any(base in subterms(s_.value) for s_ in sts):
        raise Uneval('local not a choice of values')
    ctx._busy.add(key)
    try:
        vals = []
        live = ctx.live_blocks()
        for s_ in sts:
            if live is not None and s_.bb not in live:
                continue
            if any(guard_value(canon_guard(c, v), ctx) is False for c, v in f.guards().get(s_.bb, [])):
                continue
            vals.append(tev(_rebase(t, base, s_.value), ctx))
        return _agree(vals)
    finally:
        ctx._busy.discard(key)


def _variant_index(path):
    """variant number of an adt literal's path (`Option#1` = Some; no suffix = variant 0)"""
    if isinstance(path, str):
        if '#' in path:
            try:
                return int(path.rsplit('#', 1)[1])
            except ValueError:
                return None
        return 0
    return None


def tev(t, ctx):
    """value of an IR term of frame ctx; Uneval when some leaf is unknown or the operation is not modelled"""
    if isinstance(ctx, dict):
        ctx = Frame(None, env=ctx)
    env = ctx.env
    t = _strip(t)
    k = tag(t)
    if k in ('field', 'downcast', 'len', 'discr'):
        t = _fold(t)
        k = tag(t)
    if ctx.parent is None:
        key = _nk(t)
        if key in env:
            return env[key]
    # access paths and parameters of a callee frame are resolved in the caller
    if k in ('arg', 'len', 'field', 'downcast', 'discr'):
        root = _path_root(t)
        if root is not None and ctx.parent is not None and ctx.args is not None and 1 <= root[1] <= len(ctx.args):
            return tev(_rebase(t, root, ctx.args[root[1] - 1]), ctx.parent)
    # access paths rooted at the result of an in-crate call or at a local assigned in several branches: the path is applied to the
    # value(s) the call can return / the local can hold under this frame
    if k in ('len', 'field', 'downcast', 'discr', 'call', 'local'):
        base = _path_base(t)
        if tag(base) == 'call' and ctx.ncx is not None and base[1] in ctx.ncx.prog.pdb.bodies and base[1] not in env.get('__fn__', ()):
            return _through_call(t, base, ctx)
        if tag(base) == 'local' and base != t and ctx.f is not None:
            return _through_local(t, base, ctx)
    if k == 'discr':
        inner = _strip(t[1])
        if tag(inner) == 'agg' and inner[1] == 'adt':
            vi = _variant_index(inner[2])
            if vi is not None:
                return vi
            if str(inner[2]).endswith('Option::Some') or str(inner[2]).endswith('::Some'):
                return 1
            if str(inner[2]).endswith('::None'):
                return 0
        raise Uneval('discr')
    if k == 'field':
        inner = _strip(t[1])
        if tag(inner) == 'downcast':
            inner = _strip(inner[1])
        if tag(inner) == 'agg' and isinstance(t[2], int) and t[2] < len(inner[3]):
            return tev(inner[3][t[2]], ctx)
        if tag(inner) == 'bin' and inner[1].endswith('WithOverflow') and t[2] in (0, 1):
            a, b = tev(inner[2], ctx), tev(inner[3], ctx)
            op = inner[1][:-len('WithOverflow')]
            r = {'Add': a + b, 'Sub': a - b, 'Mul': a * b}.get(op)
            if r is None or isinstance(r, float):
                raise Uneval('overflow op')
            ty = inner[4]
            lo, hi = (0, 2 ** 64 - 1) if ty in UNSIGNED else (-2 ** 63, 2 ** 63 - 1)
            if ty in ('u32',):
                hi = 2 ** 32 - 1
            if ty in ('i32',):
                lo, hi = -2 ** 31, 2 ** 31 - 1
            over = not (lo <= r <= hi)
            if t[2] == 1:
                return over
            if over:
                raise Uneval('wrapped')
            return r
        raise Uneval('field')
    if k == 'local' and ctx.f is not None:
        return _phi(t, ctx)
    if k == 'const':
        v = t[2]
        if isinstance(v, (int, float, bool)):
            return v
        raise Uneval('const')
    if k == 'bin':
        op, ty = t[1], t[4]
        if op in _CMP:
            a, b = tev(t[2], ctx), tev(t[3], ctx)
            if isinstance(a, bool) != isinstance(b, bool):
                raise Uneval('mixed')
            return _CMP[op](a, b)
        a, b = tev(t[2], ctx), tev(t[3], ctx)
        if ty in FLOAT_TYS:
            a, b = float(a), float(b)
            try:
                if op == 'Add':
                    return a + b
                if op == 'Sub':
                    return a - b
                if op == 'Mul':
                    return a * b
                if op == 'Div':
                    if b == 0.0:
                        if a == 0.0 or a != a:
                            return float('nan')
                        return math.copysign(float('inf'), a) * math.copysign(1.0, b)
                    return a / b
                if op == 'Rem':
                    return math.fmod(a, b) if b != 0.0 else float('nan')
            except OverflowError:
                raise Uneval('overflow')
            raise Uneval('fop ' + op)
        if ty in INT_TYS:
            if isinstance(a, float) or isinstance(b, float):
                raise Uneval('float in int op')
            if op == 'Add':
                r = a + b
            elif op == 'Sub':
                r = a - b
            elif op == 'Mul':
                r = a * b
            elif op == 'Div':
                if b == 0:
                    raise Uneval('div0')
                r = abs(a) // abs(b) * (1 if (a >= 0) == (b >= 0) else -1)
            elif op == 'Rem':
                if b == 0:
                    raise Uneval('rem0')
                r = abs(a) % abs(b) * (1 if a >= 0 else -1)
            else:
                raise Uneval('iop ' + op)
            if ty in UNSIGNED and r < 0:
                raise Uneval('wrap')          # overflow check / wrap-around: not a value
            if abs(r) >= 2 ** 63:
                raise Uneval('wide')
            return r
        if ty == 'bool' and op in ('BitAnd', 'BitOr', 'BitXor'):
            return {'BitAnd': a and b, 'BitOr': a or b, 'BitXor': a != b}[op]
        raise Uneval('bin ty %s' % ty)
    if k == 'un':
        a = tev(t[2], ctx)
        if t[1] == 'Neg':
            return -a
        if t[1] == 'Not' and isinstance(a, bool):
            return not a
        raise Uneval('un')
    if k == 'cast':
        a = tev(t[2], ctx)
        kind = t[1]
        to = t[3] if len(t) > 3 else None
        if kind == 'IntToFloat':
            return float(a)
        if kind == 'FloatToInt':
            if a != a:
                return 0
            if math.isinf(a):
                raise Uneval('inf to int')
            r = int(math.trunc(a))
            if to in UNSIGNED and r < 0:
                r = 0
            return r
        if kind == 'IntToInt':
            if to in UNSIGNED and a < 0:
                raise Uneval('sign wrap')
            return a
        if kind == 'FloatToFloat':
            return a
        raise Uneval('cast ' + str(kind))
    if k == 'call' and t[1] and t[1] in env.get('__fn__', ()):
        # a function the caller gives a mathematical meaning (the true Gamma for a recursive call of `gamma`)
        return env['__fn__'][t[1]](*[tev(x, ctx) for x in t[2]])
    if k == 'call' and t[1] and is_f64_method(t[1]):
        n = f64_method_name(t[1])
        a = [tev(x, ctx) for x in t[2]]
        try:
            x = float(a[0])
            if n == 'abs':
                return abs(x)
            if n == 'sqrt':
                return math.sqrt(x) if x >= 0 else float('nan')
            if n == 'ln':
                return math.log(x) if x > 0 else (float('-inf') if x == 0 else float('nan'))
            if n == 'exp':
                return math.exp(x)
            if n == 'floor':
                return float(math.floor(x))
            if n == 'ceil':
                return float(math.ceil(x))
            if n == 'trunc':
                return float(math.trunc(x))
            if n == 'round':
                return math.copysign(math.floor(abs(x) + 0.5), x)
            if n == 'max':
                return max(x, float(a[1]))
            if n == 'min':
                return min(x, float(a[1]))
            if n == 'powi':
                return x ** int(a[1])
            if n == 'powf':
                return x ** float(a[1]) if x >= 0 or float(a[1]) == int(a[1]) else float('nan')
            if n in ('sin', 'cos', 'tan', 'tanh', 'sinh', 'cosh', 'atan', 'log10', 'log2', 'ln_1p', 'exp_m1'):
                return {'ln_1p': math.log1p, 'exp_m1': math.expm1}.get(n, getattr(math, n, None))(x)
            if n == 'is_nan':
                return x != x
            if n == 'is_finite':
                return not (math.isinf(x) or x != x)
            if n == 'is_infinite':
                return math.isinf(x)
            if n == 'is_normal':
                return not (math.isinf(x) or x != x or x == 0.0 or abs(x) < 2.2250738585072014e-308)
            if n == 'is_subnormal':
                return x != 0.0 and abs(x) < 2.2250738585072014e-308
            if n == 'signum':
                return x if x != x else math.copysign(1.0, x)
            if n == 'is_sign_negative':
                return math.copysign(1.0, x) < 0
            if n == 'is_sign_positive':
                return math.copysign(1.0, x) > 0
            if n == 'recip':
                return 1.0 / x if x != 0 else math.copysign(float('inf'), x)
        except (OverflowError, ValueError, ZeroDivisionError):
            raise Uneval('f64 method range')
        raise Uneval('f64 method ' + n)
    if k == 'call' and t[1] and 'PartialEq<[U; N]> for [T; N]>::' in t[1] and len(t[2]) == 2 and short(t[1]) in ('eq', 'ne'):
        # equality of two fixed-size arrays (`assert_eq!(m.shape(), [r, c])`): element by element, each side a literal or something
        # whose i-th component can be read (a helper returning a literal)
        a_, b_ = _strip(t[2][0]), _strip(t[2][1])
        lit = a_ if tag(a_) == 'agg' else (b_ if tag(b_) == 'agg' else None)
        if lit is None:
            raise Uneval('array equality without a literal side')
        same = True
        for i in range(len(lit[3])):
            if tev(('field', a_, i, None), ctx) != tev(('field', b_, i, None), ctx):
                same = False
        return same if short(t[1]) == 'eq' else not same
    if k == 'call' and t[1] and t[1].startswith('core::num::<impl ') and short(t[1]) in ('abs', 'unsigned_abs', 'pow', 'min', 'max') and t[2]:
        a = [tev(x, ctx) for x in t[2]]
        if any(isinstance(v, float) or isinstance(v, bool) for v in a):
            raise Uneval('integer method on non-integer')
        n_ = short(t[1])
        if n_ in ('abs', 'unsigned_abs'):
            return abs(a[0])
        if n_ == 'pow':
            r_ = a[0] ** a[1]
            if abs(r_) >= 2 ** 63:
                raise Uneval('wide')
            return r_
        return min(a) if n_ == 'min' else max(a)
    if k == 'call' and t[1] in ('std::cmp::Ord::min', 'std::cmp::Ord::max', 'std::cmp::min', 'std::cmp::max', 'core::cmp::Ord::min', 'core::cmp::Ord::max') and len(t[2]) == 2:
        a = [tev(x, ctx) for x in t[2]]
        if any(isinstance(v, float) or isinstance(v, bool) for v in a):
            raise Uneval('Ord::min on non-integer')
        return min(a) if t[1].endswith('min') else max(a)
    if k == 'call' and t[1] and short(t[1]) in ('is_empty',) and len(t[2]) == 1:
        return tev(('len', t[2][0]), ctx) == 0
    if k == 'call' and t[1] and short(t[1]) == 'contains' and len(t[2]) == 2 and tag(_strip(t[2][0])) == 'constx':
        # a promoted constant range of f64 (`(0. ..=1.)`): start and end are the first two little-endian doubles of its bytes
        cx = _strip(t[2][0])
        x = tev(t[2][1], ctx)
        if isinstance(cx[2], str) and cx[2].startswith('bytes:') and 'Range' in str(cx[1]) and '<f64>' in str(cx[1]):
            import struct
            raw = bytes.fromhex(cx[2][6:])
            if len(raw) >= 16:
                lo, hi = struct.unpack('<dd', raw[:16])
                if 'RangeInclusive' in cx[1]:
                    return lo <= x <= hi
                if str(cx[1]).rstrip('>').endswith('ops::Range<f64'):
                    return lo <= x < hi
        raise Uneval('constant range')
    if k == 'call' and t[1] and short(t[1]) == 'contains' and len(t[2]) == 2 and tag(_strip(t[2][0])) == 'agg':
        rg = _strip(t[2][0])
        x = tev(t[2][1], ctx)
        if rg[1] == 'adt' and 'RangeInclusive' in str(rg[2]) and len(rg[3]) >= 2:
            lo, hi = tev(rg[3][0], ctx), tev(rg[3][1], ctx)
            return lo <= x <= hi
        if rg[1] == 'adt' and str(rg[2]).endswith('ops::Range') and len(rg[3]) == 2:
            lo, hi = tev(rg[3][0], ctx), tev(rg[3][1], ctx)
            return lo <= x < hi
        raise Uneval('contains')
    if k == 'call' and t[1] and short(t[1]) in ('new',) and 'RangeInclusive' in t[1] and len(t[2]) == 2:
        raise Uneval('range value')
    if k == 'len':
        raise Uneval('len of %s' % show(t[1])[:30])
    raise Uneval(k or 'leaf')


def _phi(t, ctx):
    """value of a local of ctx.f assigned in several places: the common value of the definitions whose dominating conditions are not
    definitely false (a loop-carried local has no such value)"""
    f = ctx.f
    key = ('phi', t)
    if key in ctx._busy:
        raise Uneval('loop-carried local')
    sts = [s_ for s_ in f.stores() if s_.target == t]
    if not sts:
        raise Uneval('local without definition')
    if any(t in subterms(s_.value) for s_ in sts):
        raise Uneval('loop-carried local')
    ctx._busy.add(key)
    try:
        vals = []
        live = ctx.live_blocks()
        for s_ in sts:
            dead = live is not None and s_.bb not in live
            for c, v in ([] if dead else f.guards().get(s_.bb, [])):
                if guard_value(canon_guard(c, v), ctx) is False:
                    dead = True
                    break
            if dead:
                continue
            vals.append(tev(s_.value, ctx))
        if not vals:
            raise Uneval('no live definition')
        if any(type(v) != type(vals[0]) or v != vals[0] for v in vals[1:]):
            raise Uneval('several live definitions')
        return vals[0]
    finally:
        ctx._busy.discard(key)


def count_of(t, ctx, depth=0):
    """number of items an iterator / collection term yields under the frame: ranges, slices of known length, the adaptors that keep,
    cut or combine counts, `collect` / `Vector::new` of such, and in-crate functions whose (single reachable) return site is one.
    Uneval for anything else (filters, unknown sources)."""
    if depth > 8:
        raise Uneval('count depth')
    t = _strip(t)
    k = tag(t)
    if k == 'range':
        lo, hi = tev(t[1], ctx), tev(t[2], ctx)
        return max(0, hi - lo)
    if k == 'rangeincl':
        lo, hi = tev(t[1], ctx), tev(t[2], ctx)
        return max(0, hi - lo + 1)
    if k == 'call' and t[1]:
        s_ = short(t[1])
        a = t[2]
        incrate = ctx.ncx is not None and t[1] in ctx.ncx.prog.pdb.bodies
        if not incrate:
            if s_ in ('iter', 'iter_mut', 'into_iter', 'map', 'enumerate', 'rev', 'copied', 'cloned', 'by_ref', 'collect', 'to_vec', 'to_owned', 'clone',
                      'inspect', 'peekable', 'into_boxed_slice', 'into_vec', 'as_slice', 'deref', 'from', 'into') and a:
                return count_of(a[0], ctx, depth + 1)
            if s_ == 'skip' and len(a) == 2:
                return max(0, count_of(a[0], ctx, depth + 1) - tev(a[1], ctx))
            if s_ == 'take' and len(a) == 2:
                return min(count_of(a[0], ctx, depth + 1), tev(a[1], ctx))
            if s_ == 'zip' and len(a) == 2:
                return min(count_of(a[0], ctx, depth + 1), count_of(a[1], ctx, depth + 1))
            if s_ == 'chain' and len(a) == 2:
                return count_of(a[0], ctx, depth + 1) + count_of(a[1], ctx, depth + 1)
            if s_ == 'step_by' and len(a) == 2:
                st_ = tev(a[1], ctx)
                n_ = count_of(a[0], ctx, depth + 1)
                return (n_ + st_ - 1) // st_ if st_ > 0 else 0
            if s_ == 'from_elem' and len(a) == 2:
                return tev(a[1], ctx)
            raise Uneval('count of %s' % s_)
        # in-crate: the value returned at the reachable return site(s)
        h = ctx.ncx.prog.func(t[1])
        if h is None:
            raise Uneval('callee')
        if s_ in ('into_iter', 'iter', 'to_vec', 'data', 'clone', 'to_vector') and a:
            return count_of(a[0], ctx, depth + 1) if not _is_matrix_rows(t[1]) else _uneval('rows of a matrix')
        sub = Frame(h, tuple(a), ctx, depth=ctx.depth + 1)
        live = sub.live_blocks()
        vals = []
        for d in h._defs.get(0, []):
            if live is not None and d[1] not in live:
                continue
            rt = h.rvalue_term(d[3], d[1]) if d[0] == 'assign' else h.call_term(d[2], d[1])
            vals.append(count_of(rt, sub, depth + 1))
        return _agree(vals)
    if k == 'agg' and t[1] == 'array':
        return len(t[3])
    if k == 'agg' and t[1] == 'adt' and len(t[3]) == 1:
        return count_of(t[3][0], ctx, depth + 1)          # a newtype around the data (Vector { v })
    # a slice / vector whose length is an atom or otherwise evaluable
    return tev(('len', t), ctx)


def _is_matrix_rows(path):
    return 'Matrix' in path and short(path) in ('into_iter', 'iter')


def _uneval(why):
    raise Uneval(why)


def guard_value(g, ctx):
    """True / False when the canonical guard is decided in frame ctx, None otherwise"""
    try:
        if g[0] == 'cmp':
            _, op, a, b, truth, ty = g
            va, vb = tev(a, ctx), tev(b, ctx)
            if isinstance(va, bool) != isinstance(vb, bool):
                return None
            return _CMP[op](va, vb) == truth
        c, v = g[1], g[2]
        if isinstance(v, bool):
            val = tev(c, ctx)
            if isinstance(val, bool):
                return val == v
            return None
        if isinstance(v, tuple) and v and v[0] in ('eq', 'ne'):
            val = tev(c, ctx)
            if isinstance(val, bool):
                val = int(val)
            if not isinstance(val, int):
                return None
            return (val == v[1]) if v[0] == 'eq' else (val not in v[1])
        return None
    except Uneval:
        return None
    except (TypeError, ValueError, OverflowError, RecursionError):
        return None


def show_guard(g):
    if g[0] == 'cmp':
        return '%s %s %s%s' % (show(g[2])[:60], {'Lt': '<', 'Le': '<=', 'Eq': '==', 'Ne': '!='}[g[1]], show(g[3])[:60], '' if g[4] else '  [must be false]')
    return '%s is %s' % (show(g[1])[:80], g[2])


class NC:
    """the "can return" relation over the blocks of the crate's bodies, evaluated per witness"""

    def __init__(self, prog, max_depth=3):
        self.prog = prog
        self.max_depth = max_depth
        self.visited = set()
        self._info = {}

    def info(self, f):
        key = f.body.key
        if key not in self._info:
            cfg = f.cfg
            edges = {}
            for s_, d, c, v in f.edge_conditions():
                edges.setdefault(s_, []).append((d, canon_guard(c, v)))
            calls = {}
            for c in f.calls():
                if c.path and c.path in self.prog.pdb.bodies and c.path != key:
                    calls.setdefault(c.bb, []).append(c)
            back = set(cfg.back_edges())
            dead = {b for b in cfg.nodes if cfg.only_panics_from(b)}
            self._info[key] = (edges, calls, back, dead)
            self.visited.add(key)
        return self._info[key]

    def cannot_return(self, f, ctx, why):
        """True when, in frame ctx, no path from the entry of f reaches a return"""
        edges, calls, back, dead = self.info(f)
        cfg = f.cfg
        memo = {}

        def blk(b):
            if b in memo:
                return memo[b] if memo[b] is not None else False       # in progress (loop): no constraint
            if b in dead:
                memo[b] = True
                return True
            if b in cfg.returns:
                memo[b] = False
                return False
            memo[b] = None
            for c in calls.get(b, []):
                if ctx.depth < self.max_depth:
                    h = self.prog.func(c.path)
                    if h is not None and h.cfg.returns is not None:
                        sub = Frame(h, tuple(c.args), ctx, depth=ctx.depth + 1, ncx=self)
                        if self.cannot_return(h, sub, why):
                            memo[b] = True
                            return True
            conds = {}
            for d, g in edges.get(b, []):
                conds.setdefault(d, []).append(g)
            res = True
            for s_ in cfg.succ[b]:
                if (b, s_) in back:
                    res = False
                    break
                gl = conds.get(s_)
                if gl is not None and len(gl) == 1:
                    gv = guard_value(gl[0], ctx)
                    if gv is False:
                        if s_ not in dead:
                            why.append((gl[0], f.body.key))
                        continue
                if not blk(s_):
                    res = False
                    break
            memo[b] = res
            return res
        return blk(0)

    def reachable(self, f, ctx):
        """blocks of f that some path from the entry can reach in frame ctx: edges whose condition is definitely false are not taken"""
        edges, _, _, _ = self.info(f)
        cfg = f.cfg
        seen = {0}
        work = [0]
        while work:
            b = work.pop()
            conds = {}
            for d, g in edges.get(b, []):
                conds.setdefault(d, []).append(g)
            for s_ in cfg.succ[b]:
                gl = conds.get(s_)
                # several arms of one switch may lead to the same block: it is entered when any of them holds
                if gl is not None and all(guard_value(g, ctx) is False for g in gl):
                    continue
                if s_ not in seen:
                    seen.add(s_)
                    work.append(s_)
        return seen

    def definitely_returns(self, f, ctx):
        """True when, in frame ctx, one path from the entry of f to a return is certain: every branch condition on it is decided and
        holds, every in-crate callee on it certainly returns, every other callee is a total f64 method or a range test, and the path
        crosses no back edge.  (False = not shown, not "cannot".)"""
        edges, calls, back, dead = self.info(f)
        cfg = f.cfg
        memo = {}
        other = {}
        for c in f.calls():
            if c.path is None or (c.path not in self.prog.pdb.bodies and not is_f64_method(c.path) and
                                  not c.path.endswith('::contains') and not is_fmt_path(c.path)):
                other.setdefault(c.bb, []).append(c)

        def blk(b):
            if b in memo:
                return bool(memo[b])
            if b in dead:
                memo[b] = False
                return False
            if b in cfg.returns:
                memo[b] = True
                return True
            memo[b] = False
            if other.get(b):
                return False
            for c in calls.get(b, []):
                if ctx.depth >= self.max_depth:
                    return False
                h = self.prog.func(c.path)
                if h is None or not self.definitely_returns(h, Frame(h, tuple(c.args), ctx, depth=ctx.depth + 1, ncx=self)):
                    return False
            conds = {}
            for d, g in edges.get(b, []):
                conds.setdefault(d, []).append(g)
            for s_ in cfg.succ[b]:
                if (b, s_) in back:
                    continue
                gl = conds.get(s_)
                if gl is not None:
                    if len(gl) != 1 or guard_value(gl[0], ctx) is not True:
                        continue
                elif len([x for x in cfg.succ[b] if x not in dead]) > 1:
                    continue          # an unconditioned multi-way branch: not decided
                if blk(s_):
                    memo[b] = True
                    return True
            return False
        return blk(0)

    # ---- atoms of the entry frame that the conditions (own and callees') depend on
    def atoms(self, f):
        out = {}
        seen = set()

        def lift(t, frames):
            # term of the innermost frame -> terms of the entry frame (parameters replaced by the argument terms, level by level)
            for args in reversed(frames):
                def sub(n, args=args):
                    if tag(n) == 'arg' and 1 <= n[1] <= len(args):
                        return args[n[1] - 1]
                    return n
                t = map_term(t, sub)
            return t

        def walk_term(t):
            t = _strip(t)
            kind = _atom_kind(f, t)
            if kind is not None:
                out.setdefault(_nk(t), (kind, t))
                return
            for x in _children(t):
                walk_term(x)

        def visit(g, frames, depth):
            k = (g.body.key, len(frames))
            if k in seen or depth > self.max_depth:
                return
            seen.add(k)
            edges, calls, _, _ = self.info(g)
            for lst in edges.values():
                for d, gd in lst:
                    for t in ((gd[2], gd[3]) if gd[0] == 'cmp' else (gd[1],)):
                        walk_term(lift(t, frames))
            # values of locals assigned in branches are read too
            for st in g.stores():
                if tag(st.target) == 'local':
                    walk_term(lift(st.value, frames))
            for lst in calls.values():
                for c in lst:
                    h = self.prog.func(c.path)
                    if h is not None:
                        visit(h, frames + [tuple(c.args)], depth + 1)
        visit(f, [], 0)
        return out


def is_fmt_path(p):
    return p.startswith('core::fmt') or p.startswith('std::fmt') or 'fmt::Arguments' in p


def _children(t):
    k = tag(t)
    if k == 'bin':
        return (t[2], t[3])
    if k in ('un', 'cast'):
        return (t[2],)
    if k == 'call':
        return tuple(t[2])
    if k in ('field', 'len', 'downcast', 'discr', 'deref', 'ref'):
        return (t[1],)
    if k == 'index':
        return (t[1], t[2])
    if k == 'agg':
        return tuple(t[3])
    if k in ('range', 'rangeincl'):
        return (t[1], t[2])
    if k == 'item':
        return (t[2],)
    return ()


GRID = {
    'f64': [-2.5, -1.0, 0.0, 0.5, 1.0, 3.0],
    'int': [-3, -1, 0, 1, 2, 5],
    'uint': [0, 1, 2, 3, 6],
    'bool': [False, True],
}


def _scalar_kind(ty):
    ty = (ty or '').lstrip('&').replace('mut ', '').strip()
    if ty in FLOAT_TYS:
        return 'f64'
    if ty in UNSIGNED:
        return 'uint'
    if ty in INT_TYS:
        return 'int'
    if ty == 'bool':
        return 'bool'
    return None


def _atom_kind(f, t):
    """grid kind of an assignable atom of the entry frame, or None"""
    t0 = _strip(t)
    k = tag(t0)
    if k == 'arg':
        return _scalar_kind(f.body.local_ty(t0[1]))
    if k == 'len':
        r = _strip(t0[1])
        while tag(r) == 'field':
            r = _strip(r[1])
        return 'uint' if tag(r) == 'arg' else None
    if k == 'field' and isinstance(t0[2], int):
        r = _strip(t0[1])
        if tag(r) == 'arg':
            return _scalar_kind(t0[3] if len(t0) > 3 and isinstance(t0[3], str) else '')
    return None


def struct_invariants(prog, f):
    """guards over `self` fields that the constructor of f's self type establishes: (guards in f's frame, StructModel) or ([], None)"""
    b = f.body
    if not (b.impl and b.sig and b.sig['inputs'] and 'self' in str(f.names.get(1))):
        return [], None
    path = b.impl['self_ty']
    if path not in prog.pdb.adts:
        return [], None
    try:
        sm = StructModel(prog, path)
    except Exception:
        return [], None
    if sm.new is None or sm.inits is None:
        return [], sm
    me = ('arg', 1, f.names.get(1))
    mapping = {}
    for fi, al in sm.param_of.items():
        mapping[('arg', al, sm.new.names.get(al))] = ('field', me, fi, sm.fields[fi]['ty'])
    out = []
    for g in sm.new_guards:
        if g[0] == 'cmp':
            out.append(canon_guard(('bin', g[1], subst(g[2], mapping), subst(g[3], mapping), g[5]), g[4]))
        else:
            out.append(('cond', subst(g[1], mapping), g[2]))
    return out, sm


def _is_field_atom(t):
    t = _strip(t)
    if tag(t) == 'len':
        t = _strip(t[1])
    return tag(t) == 'field'


def find_witness(prog, ncx, f, domain=None, extra=None, limit=20000):
    """(env, reasons, atoms) of the first witness in grid order on which f cannot return, or (None, stats, atoms)"""
    at = ncx.atoms(f)
    inv, sm = struct_invariants(prog, f)
    names = sorted(at, key=repr)
    field_atoms = [n for n in names if _is_field_atom(at[n][1])]
    if field_atoms and (sm is None or sm.new is None or sm.inits is None):
        # fields of an object whose constructor is not modelled: any value could be excluded by an invariant we do not see
        names = [n for n in names if n not in field_atoms]
        field_atoms = []
    grids = []
    for n in names:
        g = list(GRID[at[n][0]])
        if extra and n in extra:
            g = extra[n]
        grids.append(g)
    total = 1
    for g in grids:
        total *= len(g)
    tried = 0
    combos = itertools.product(*grids) if names else [()]
    if total > limit:
        import random
        rnd = random.Random(12345)
        combos = (tuple(rnd.choice(g) for g in grids) for _ in range(limit))
    for combo in combos:
        tried += 1
        env = dict(zip(names, combo))
        if domain is not None and not domain(env, at):
            continue
        if inv:
            root = Frame(f, env=env, ncx=ncx)
            vals = [guard_value(g, root) for g in inv]
            if any(v is False for v in vals):
                continue
            if any(v is None for v in vals) and field_atoms:
                continue
        why = []
        if ncx.cannot_return(f, Frame(f, env=env, ncx=ncx), why):
            return env, why, at
    return None, {'atoms': len(names), 'tried': tried}, at


def show_env(env, at):
    parts = []
    for n in sorted(env, key=repr):
        parts.append('%s = %s' % (show(at[n][1])[:40], env[n]))
    return ', '.join(parts)


def check_returns(prog, rep, rule, keys, domain=None, what='', ncx=None, extra=None):
    """one obligation per body in keys: no witness of the domain on which the body cannot return normally"""
    from .framework import site_of
    ncx = ncx or NC(prog)
    n = 0
    for k in keys:
        f = prog.func(k)
        if f is None:
            continue
        n += 1
        rep.touch(k)
        key = '%s:%s' % (rule, k)
        try:
            env, why, at = find_witness(prog, ncx, f, domain=domain, extra=extra)
        except RecursionError:
            rep.undecided(rule, key, 'condition graph too deep', site_of(f.body), proof=False)
            continue
        if env is not None:
            if why:
                # prefer a comparison from a callee (the precondition that fails) to the discriminant tests met on the way
                ranked = sorted(why, key=lambda w: (w[0][0] != 'cmp', w[1] == k))
                g, origin = ranked[0]
                reason = 'the comparison `%s` %sfails on every path to a return' % (show_guard(g), '[in %s] ' % short(origin) if origin != k else '')
            else:
                reason = 'no return block is reachable'
            rep.viol(rule, key, '%s with %s cannot return: %s -- the call panics%s' % (
                short(k), show_env(env, at) or 'any input', reason, (' ' + what) if what else ''), site_of(f.body))
        else:
            rep.ok(rule, key, 'not refuted: %d atoms, %d witnesses tried' % (why.get('atoms', 0), why.get('tried', 0)))
    for k in ncx.visited:
        rep.touch(k)
    return n


def positive_sizes(env, at):
    """domain: every unsigned atom (a length, a count) is at least 1"""
    return all(env[n] >= 1 for n in env if at[n][0] == 'uint')


def check_rejects(prog, rep, rule, key_fn, witnesses, what, ncx=None):
    """one obligation: for every witness (dict parameter name -> value) outside the function's domain the call must not certainly
    return; a witness on which a return is certain is the violation"""
    from .framework import site_of
    ncx = ncx or NC(prog)
    f = prog.func(key_fn)
    key = '%s:%s' % (rule, key_fn)
    if f is None:
        rep.viol(rule, key, 'function disappeared')
        return
    rep.touch(key_fn)
    names = {f.names.get(i): i for i in range(1, f.body.arg_count + 1)}
    refuted, shown = 0, 0
    for w in witnesses:
        env = {('arg', names[n], None): v for n, v in w.items() if n in names}
        if len(env) != len(w):
            continue
        ctx = Frame(f, env=env, ncx=ncx)
        if ncx.definitely_returns(f, ctx):
            rep.viol(rule, key, '%s(%s) certainly returns a value: every test on the way holds for this argument, %s' % (
                short(key_fn), ', '.join('%s = %r' % kv for kv in sorted(w.items())), what), site_of(f.body))
            for k in ncx.visited:
                rep.touch(k)
            return
        shown += 1
        if ncx.cannot_return(f, Frame(f, env=env, ncx=ncx), []):
            refuted += 1
    for k in ncx.visited:
        rep.touch(k)
    if shown and refuted == shown:
        rep.ok(rule, key, 'cannot return on any of the %d witnesses outside the domain' % shown)
    else:
        rep.undecided(rule, key, 'rejection shown on %d of %d witnesses outside the domain (no certain return on the others)' % (refuted, shown), site_of(f.body), proof=False)


KEEP_WHEN_TRUE = ('filter', 'retain', 'take_while')
DROP_WHEN_TRUE = ('skip_while',)


def check_data_filters(prog, rep, rule, entry_keys, finite=(0.0, -2.5, 1.0, 5e-324, 1e300), what='', ncx=None):
    """every value filter on the way from the entry points (Iterator::filter / take_while / skip_while, Vec::retain with an in-crate
    closure over f64 values) keeps every finite value: the predicate is read for exact finite witnesses (zero, a negative, a subnormal,
    a large value); a witness it certainly drops is the violation.  Returns the number of filter sites read."""
    from .framework import site_of
    ncx = ncx or NC(prog)
    pdb = prog.pdb
    bodies = set()
    for k in entry_keys:
        if k in pdb.bodies:
            bodies |= {b for b in prog.closure(k) if b in pdb.bodies}
    for k in sorted(bodies):
        for b_ in pdb.closures_of(k):
            bodies.add(b_.key)
    n = 0
    for k in sorted(bodies):
        g = prog.func(k)
        if g is None:
            continue
        for c in g.calls():
            if not c.path or c.path in pdb.bodies:
                continue
            s_ = short(c.path)
            if s_ not in KEEP_WHEN_TRUE + DROP_WHEN_TRUE or not c.args:
                continue
            cl = c.args[-1]
            if not (tag(cl) == 'agg' and cl[1] == 'closure'):
                continue
            h = prog.func(cl[2])
            if h is None:
                continue
            at = {a: v for a, v in ncx.atoms(h).items() if v[0] == 'f64' and (_path_root(v[1]) or ('arg', 0))[1] >= 2}
            # elements of captured data read by position (`(0..n).filter(|&i| x[i] > 0.)`) are values too
            edges_h, _, _, _ = ncx.info(h)
            pool = [t for lst in edges_h.values() for _, gd in lst for t in ((gd[2], gd[3]) if gd[0] == 'cmp' else (gd[1],))] + [st.value for st in h.stores()] + list(h.return_values())
            for t in pool:
                for z in subterms(t):
                    if tag(z) == 'index' and tag(_strip(z[1])) in ('upvar', 'arg', 'field') and tag(z[2]) != 'range':
                        at.setdefault(_nk(z), ('f64', z))
                    elif _atom_kind(h, z) == 'f64' and (_path_root(z) or ('arg', 0))[1] >= 2:
                        at.setdefault(_nk(_strip(z)), ('f64', _strip(z)))
            if not at:
                continue
            n += 1
            rep.touch(k)
            rep.touch(cl[2])
            key = '%s:%s:%s' % (rule, short(k), s_)
            drop_val = s_ in DROP_WHEN_TRUE
            bad = None
            unread = False
            for v in finite:
                env = {a: v for a in at}
                ctx = Frame(h, env=env, ncx=ncx)
                live = ncx.reachable(h, ctx)
                vals = []
                for d in h._defs.get(0, []):
                    if d[1] not in live:
                        continue
                    t = h.rvalue_term(d[3], d[1]) if d[0] == 'assign' else h.call_term(d[2], d[1])
                    try:
                        vals.append(tev(t, ctx))
                    except Uneval:
                        vals.append(None)
                if not vals or any(x is None or not isinstance(x, bool) for x in vals):
                    unread = True
                    continue
                if all(x == drop_val for x in vals):
                    bad = v
                    break
            if bad is not None:
                rep.viol(rule, key, '%s passes its data through %s with a predicate that drops the finite value %r (every such observation is silently left out)%s' % (
                    short(k), s_, bad, (' ' + what) if what else ''), site_of(g.body))
            elif unread:
                rep.undecided(rule, key, 'filter predicate not read for every finite witness', site_of(g.body), proof=False)
            else:
                rep.ok(rule, key, 'keeps the %d finite witnesses' % len(finite))
    rep.ok(rule, '%s:scan' % rule, '%d bodies reachable from the entry points scanned, %d value filters read' % (len(bodies), n))
    return n
