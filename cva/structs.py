"""Struct models: constructor initialisers, setters, writers and their guards (E-GRD field invariants)."""
from .ir import tag, show, map_term, short, subterms, is_panic_path


def strip_sites(t):
    def f(n):
        if tag(n) == 'call' and n[3] is not None:
            return ('call', n[1], n[2], None)
        if tag(n) == 'item':
            return ('item', None, n[2])
        return n
    return map_term(t, f)


def subst(t, mapping):
    """replace leaves (exact subterm match) by mapping[leaf]"""
    def f(n):
        return mapping.get(n, n)
    return map_term(t, f)


def mentions(t, leaf):
    return any(x == leaf for x in subterms(t))


def unname(t):
    """drop user variable names from arg/local leaves so that terms from different bodies compare"""
    def f(n):
        if tag(n) == 'arg':
            return ('arg', n[1], None)
        if tag(n) == 'local':
            return ('local', n[1], None)
        return n
    return map_term(t, f)


NEG_INT = {'Lt': 'Ge', 'Le': 'Gt', 'Gt': 'Le', 'Ge': 'Lt', 'Eq': 'Ne', 'Ne': 'Eq'}
SWAP = {'Lt': 'Gt', 'Le': 'Ge', 'Gt': 'Lt', 'Ge': 'Le', 'Eq': 'Eq', 'Ne': 'Ne'}


def canon_guard(c, v):
    """canonical (op, a, b, truth, ty): comparisons oriented so that op is Lt/Le/Eq/Ne; integer comparisons
    with truth False are negated (exact); float comparisons keep their truth value (NaN!)"""
    if tag(c) == 'un' and c[1] == 'Not' and isinstance(v, bool):
        return canon_guard(c[2], not v)
    if tag(c) == 'bin' and c[1] in NEG_INT and isinstance(v, bool):
        op, a, b, ty = c[1], c[2], c[3], c[4]
        if ty != 'f64' and ty != 'f32' and v is False:
            op = NEG_INT[op]
            v = True
        if op in ('Gt', 'Ge'):
            op, a, b = SWAP[op], b, a
        if op in ('Eq', 'Ne') and repr(a) > repr(b):
            a, b = b, a
        return ('cmp', op, a, b, v, ty)
    return ('cond', c, v)


def effective_guards(prog, f, bb, depth=0):
    """canonical guards known at bb: the function's own dominating edge conditions plus, for every in-crate callee called on the way
    (its call block dominates bb) that returns normally only under some conditions (a validation helper that panics otherwise),
    those conditions translated into the caller's frame"""
    own = [canon_guard(c, v) for c, v in f.guards().get(bb, [])]
    if depth >= 2:
        return own
    out = list(own)
    for c in f.calls():
        if not c.path or c.path not in prog.pdb.bodies or c.bb == bb or not f.cfg.dominates(c.bb, bb):
            continue
        if c.path == f.body.key:
            continue
        g = prog.func(c.path)
        if g is None or not g.cfg.returns or g.body.local_ty(0) != '()':
            continue          # only validation helpers (unit result); constructors of embedded objects have their own rules
        # does the callee have a way out other than returning (a panic)?  then its return blocks' guards are preconditions of continuing
        sets = []
        for r in g.cfg.returns:
            sets.append(effective_guards(prog, g, r, depth + 1))
        if not sets:
            continue
        common = [x for x in sets[0] if all(x in s_ for s_ in sets[1:])]
        if not common:
            continue
        mapping = {('arg', i + 1, g.names.get(i + 1)): a for i, a in enumerate(c.args)}
        for gd in common:
            if gd[0] == 'cmp':
                a_, b_ = subst(gd[2], mapping), subst(gd[3], mapping)
                out.append(canon_guard(('bin', gd[1], a_, b_, gd[5]), gd[4]))
            elif gd[0] == 'cond':
                out.append(canon_guard(subst(gd[1], mapping), gd[2]))
    return out


def show_guard(g):
    if g[0] == 'cmp':
        sym = {'Lt': '<', 'Le': '<=', 'Eq': '==', 'Ne': '!='}[g[1]]
        s = '%s %s %s' % (show(g[2]), sym, show(g[3]))
        return s if g[4] else 'not(%s)' % s
    return '%s is %s' % (show(g[1]), g[2])


class StructModel:
    def __init__(self, prog, path):
        self.prog = prog
        self.pdb = prog.pdb
        self.path = path
        self.adt = self.pdb.adts[path]
        self.fields = self.adt['variants'][0]['fields']
        self.nfields = len(self.fields)
        self.new = prog.func(path + '::new')
        self.inits = None          # field idx -> term over new's args
        self.new_guards = []       # canonical guards dominating construction
        self.param_of = {}         # field idx -> new arg local (identity-initialised fields)
        self.undecided = []
        if self.new is not None:
            self._analyse_new()
        self.setters = self._find_setters()

    def fname(self, i):
        return self.fields[i]['name'] if i < self.nfields else str(i)

    def _analyse_new(self):
        f = self.new
        rets = f.return_values()
        aggs = [r for r in rets if tag(r) == 'agg' and r[1] == 'adt' and r[2] == self.path]
        if len(aggs) != 1 or len(rets) != 1:
            self.undecided.append('constructor does not return a single struct literal')
            return
        agg = aggs[0]
        self.inits = {i: t for i, t in enumerate(agg[3])}
        for i, t in self.inits.items():
            # a parameter may pass through a straight-line validation helper that returns it unchanged
            t = self.prog.inline(t, depth=2)
            if tag(t) == 'field' and tag(t[1]) == 'agg' and t[1][1] == 'tuple' and isinstance(t[2], int) and t[2] < len(t[1][3]):
                # ... or through a helper handing a tuple of its parameters back (inlined to a projection of the tuple literal)
                t = t[1][3][t[2]]
                if tag(t) == 'arg':
                    self.inits[i] = t
            # ... or through a validation helper handing a tuple of its parameters back: component i IS the argument
            if tag(t) == 'field' and tag(t[1]) == 'call' and isinstance(t[2], int) and t[1][1] in self.pdb.bodies:
                h = self.prog.func(t[1][1])
                rv = h.return_values() if h is not None else []
                if rv and all(tag(r) == 'agg' and r[1] == 'tuple' and t[2] < len(r[3]) and tag(r[3][t[2]]) == 'arg' for r in rv) \
                        and len({r[3][t[2]][1] for r in rv}) == 1 and rv[0][3][t[2]][1] - 1 < len(t[1][2]):
                    t = self.prog.inline(t[1][2][rv[0][3][t[2]][1] - 1], depth=2)
                    if tag(t) == 'arg':
                        self.inits[i] = t
            if tag(t) == 'arg':
                self.param_of[i] = t[1]
        # guards at the block where the aggregate is built
        bb = None
        for bi in f.cfg.nodes:
            for s in f.body.blocks[bi].stmts:
                if s.kind == 'assign' and s.rv.kind == 'agg' and s.rv.agg.get('path') == self.path:
                    bb = bi
        if bb is None:
            self.undecided.append('struct literal block not found')
            return
        self.new_bb = bb
        self.new_guards = effective_guards(self.prog, f, bb)

    def _find_setters(self):
        out = []
        for k, b in sorted(self.pdb.bodies.items()):
            if b.kind == 'assoc' and b.impl and b.impl['trait'] is None and b.impl['self_ty'] == self.path \
                    and b.sig and b.sig['inputs'] and b.sig['inputs'][0].startswith('&mut'):
                out.append(self.prog.func(k))
        return out

    def writes(self, f):
        """field idx -> list of Store for stores to self.<field> in body f (self = arg 1)"""
        out = {}
        from .ir import Store
        for s in f.stores():
            t = s.target
            if tag(t) == 'field' and tag(t[1]) == 'arg' and t[1][1] == 1:
                out.setdefault(t[2], []).append(s)
            elif tag(t) == 'arg' and t[1] == 1 and tag(s.value) == 'agg' and s.value[1] == 'adt' and s.value[2] == self.path:
                # `*self = Struct { a, b, .. }`: a write of every field
                for i, v in enumerate(s.value[3]):
                    ty = self.fields[i]['ty'] if i < self.nfields else None
                    out.setdefault(i, []).append(Store(s.bb, s.idx, ('field', t, i, ty), v, s.span, s.rv))
        return out

    def guards_at(self, f, bb):
        return effective_guards(self.prog, f, bb)

    def new_arg(self, i):
        return ('arg', i, self.new.names.get(i))

    def translate_new_term(self, t, setter, field_to_setter_arg):
        """rewrite a term over new's args into the setter's frame: the arg that initialises a field written by
        the setter becomes the setter's argument; args of other identity fields become self.<field>"""
        mapping = {}
        for fi, al in self.param_of.items():
            na = self.new_arg(al)
            if fi in field_to_setter_arg:
                mapping[na] = field_to_setter_arg[fi]
            else:
                mapping[na] = ('field', ('arg', 1, setter.names.get(1)), fi, self.fields[fi]['ty'])
        return subst(t, mapping)


# ----------------------------------------------------------------------------- three-point ordering domain

def orderings(guards, a, b, is_float=False):
    """the subset of {'lt','eq','gt'} (a ? b) (plus 'nan' for floats) consistent with canonical guards"""
    poss = {'lt', 'eq', 'gt'} | ({'nan'} if is_float else set())
    sat = {'Lt': {'lt'}, 'Le': {'lt', 'eq'}, 'Eq': {'eq'}, 'Ne': {'lt', 'gt', 'nan'}}
    flip = {'lt': 'gt', 'gt': 'lt', 'eq': 'eq', 'nan': 'nan'}
    for g in guards:
        if g[0] != 'cmp':
            continue
        op, x, y, truth = g[1], g[2], g[3], g[4]
        if (x, y) == (a, b):
            s = sat[op]
        elif (x, y) == (b, a):
            s = {flip[o] for o in sat[op]}
        else:
            continue
        if truth:
            poss &= s
        else:
            poss -= s
    return poss


def requirement_holds(guards, op, a, b, is_float=False):
    """does `a op b` (op in Lt/Le/Gt/Ge/Eq/Ne) hold for every ordering consistent with guards?
    returns (bool, set of counterexample orderings)"""
    need = {'Lt': {'lt'}, 'Le': {'lt', 'eq'}, 'Gt': {'gt'}, 'Ge': {'gt', 'eq'}, 'Eq': {'eq'}, 'Ne': {'lt', 'gt', 'nan'}}[op]
    poss = orderings(guards, a, b, is_float)
    bad = poss - need
    return (not bad), bad
