"""Program database loader: wraps the JSON written by driver/ (compute-mirdump).

Nothing here looks at source text; everything is the type-checked MIR of /repo's
working tree at -Zmir-opt-level=0.
"""
import json
import struct


def f64_from_bits(bits):
    return struct.unpack('<d', struct.pack('<Q', bits & 0xFFFFFFFFFFFFFFFF))[0]


def f32_from_bits(bits):
    return struct.unpack('<f', struct.pack('<I', bits & 0xFFFFFFFF))[0]


INT_TYS = {'i8': 8, 'i16': 16, 'i32': 32, 'i64': 64, 'i128': 128, 'isize': 64}
UINT_TYS = {'u8': 8, 'u16': 16, 'u32': 32, 'u64': 64, 'u128': 128, 'usize': 64}


def decode_scalar(ty, bits):
    bits = int(bits)
    if ty == 'f64':
        return f64_from_bits(bits)
    if ty == 'f32':
        return f32_from_bits(bits)
    if ty == 'bool':
        return bool(bits)
    if ty in INT_TYS:
        w = INT_TYS[ty]
        if bits >= 1 << (w - 1):
            bits -= 1 << w
        return bits
    return bits


class Place:
    __slots__ = ('local', 'proj')

    def __init__(self, j):
        self.local = j['l']
        self.proj = tuple(tuple(e) for e in j['p'])

    def is_local(self):
        return not self.proj

    def __repr__(self):
        s = '_%d' % self.local
        for e in self.proj:
            k = e[0]
            if k == 'deref':
                s = '(*%s)' % s
            elif k == 'field':
                s = '%s.%d' % (s, e[1])
            elif k == 'index':
                s = '%s[_%d]' % (s, e[1])
            elif k == 'cindex':
                s = '%s[%s%d]' % (s, '-' if e[3] else '', e[1])
            elif k == 'downcast':
                s = '(%s as v%d)' % (s, e[1])
            elif k == 'subslice':
                s = '%s[%d..%s%d]' % (s, e[1], '-' if e[3] else '', e[2])
            else:
                s = '%s.<%s>' % (s, k)
        return s


class FnRef:
    __slots__ = ('decl', 'res', 'res_local', 'decl_local', 'gargs')

    def __init__(self, j):
        self.decl = j['decl']
        self.res = j['res']
        self.res_local = j['res_local']
        self.decl_local = j['decl_local']
        self.gargs = j['gargs']

    @property
    def path(self):
        """Best-resolved path of the callee."""
        return self.res or self.decl

    def closures(self):
        return [g[len('closure:'):] for g in self.gargs if g.startswith('closure:')]

    def __repr__(self):
        return 'fn<%s>' % self.path


class Operand:
    """kind in copy|move|const|fn|constx|rtcheck"""
    __slots__ = ('kind', 'place', 'ty', 'val', 'fn', 'item')

    def __init__(self, j):
        self.kind = j[0]
        self.place = None
        self.ty = None
        self.val = None
        self.fn = None
        self.item = None
        if self.kind in ('copy', 'move'):
            self.place = Place(j[1])
        elif self.kind == 'const':
            self.ty = j[1]
            self.val = decode_scalar(j[1], j[2])
        elif self.kind == 'fn':
            self.fn = FnRef(j[1])
        elif self.kind == 'constx':
            self.ty = j[1]
            self.val = j[2]
            self.item = j[3]
        elif self.kind == 'rtcheck':
            self.val = j[1]

    def __repr__(self):
        if self.place is not None:
            return '%s %r' % (self.kind, self.place)
        if self.kind == 'const':
            return 'const %r_%s' % (self.val, self.ty)
        if self.kind == 'fn':
            return repr(self.fn)
        return '%s(%s)' % (self.kind, self.val)


class Rvalue:
    __slots__ = ('kind', 'op', 'a', 'b', 'ty', 'from_ty', 'place', 'agg', 'fields', 'mut', 'raw')

    def __init__(self, j):
        k = j[0]
        self.kind = k
        self.op = self.a = self.b = self.ty = self.from_ty = self.place = None
        self.agg = self.fields = self.mut = None
        self.raw = None
        if k == 'use':
            self.a = Operand(j[1])
        elif k == 'repeat':
            self.a = Operand(j[1])
            self.raw = j[2]
        elif k == 'ref':
            self.mut = j[1]
            self.place = Place(j[2])
        elif k == 'rawptr':
            self.mut = j[1]
            self.place = Place(j[2])
        elif k == 'cast':
            self.op = j[1]
            self.a = Operand(j[2])
            self.ty = j[3]
            self.from_ty = j[4]
        elif k == 'bin':
            self.op = j[1]
            self.a = Operand(j[2])
            self.b = Operand(j[3])
            self.ty = j[4]      # operand type
        elif k == 'un':
            self.op = j[1]
            self.a = Operand(j[2])
            self.ty = j[3]
        elif k == 'discr':
            self.place = Place(j[1])
        elif k == 'agg':
            self.agg = j[1]
            self.fields = [Operand(o) for o in j[2]]
        else:
            self.raw = j[1] if len(j) > 1 else None

    def operands(self):
        out = []
        if self.a is not None:
            out.append(self.a)
        if self.b is not None:
            out.append(self.b)
        if self.fields:
            out.extend(self.fields)
        return out

    def __repr__(self):
        k = self.kind
        if k == 'use':
            return repr(self.a)
        if k == 'ref':
            return '&%s%r' % ('mut ' if self.mut == 'mut' else '', self.place)
        if k == 'rawptr':
            return '&raw %r' % (self.place,)
        if k == 'cast':
            return '%r as %s (%s)' % (self.a, self.ty, self.op)
        if k == 'bin':
            return '%s(%r, %r)' % (self.op, self.a, self.b)
        if k == 'un':
            return '%s(%r)' % (self.op, self.a)
        if k == 'discr':
            return 'discr(%r)' % (self.place,)
        if k == 'agg':
            a = self.agg
            nm = a.get('path') or a.get('k')
            return '%s{%s}' % (nm, ', '.join(repr(f) for f in self.fields))
        if k == 'repeat':
            return '[%r; %s]' % (self.a, self.raw)
        return '%s(%s)' % (k, self.raw)


class Stmt:
    __slots__ = ('kind', 'place', 'rv', 'span', 'raw')

    def __init__(self, j):
        self.kind = j[0]
        self.place = self.rv = self.span = self.raw = None
        if self.kind == 'assign':
            self.place = Place(j[1])
            self.rv = Rvalue(j[2])
            self.span = j[3]
        elif self.kind == 'setdiscr':
            self.place = Place(j[1])
            self.raw = j[2]
        else:
            self.raw = j[1:]

    def __repr__(self):
        if self.kind == 'assign':
            return '%r = %r' % (self.place, self.rv)
        return '%s %r %r' % (self.kind, self.place, self.raw)


class Term:
    __slots__ = ('kind', 'target', 'targets', 'otherwise', 'discr', 'discr_ty', 'func', 'args', 'argtys',
                 'dest', 'span', 'cond', 'expected', 'msg', 'place', 'raw')

    def __init__(self, j):
        k = j[0]
        self.kind = k
        self.target = None
        self.targets = []
        self.otherwise = None
        self.discr = self.discr_ty = self.func = self.args = self.argtys = self.dest = None
        self.span = self.cond = self.expected = self.msg = self.place = self.raw = None
        if k == 'goto':
            self.target = j[1]
        elif k == 'switch':
            self.discr = Operand(j[1])
            self.targets = [(int(v), t) for v, t in j[2]]
            self.otherwise = j[3]
            self.discr_ty = j[4]
            self.span = j[5]
        elif k == 'drop':
            self.place = Place(j[1])
            self.target = j[2]
        elif k == 'call':
            c = j[1]
            self.func = Operand(c['f'])
            self.args = [Operand(a) for a in c['args']]
            self.argtys = c['argtys']
            self.dest = Place(c['dest'])
            self.target = c['target']
            self.span = c['span']
        elif k == 'assert':
            self.cond = Operand(j[1])
            self.expected = j[2]
            self.msg = j[3]
            self.target = j[4]
            self.span = j[5]
        elif k == 'other':
            self.raw = j[1]

    def succs(self):
        k = self.kind
        if k in ('goto', 'drop', 'assert'):
            return [self.target]
        if k == 'call':
            return [self.target] if self.target is not None else []
        if k == 'switch':
            out = [t for _, t in self.targets]
            out.append(self.otherwise)
            return out
        return []

    @property
    def callee(self):
        if self.kind == 'call' and self.func.kind == 'fn':
            return self.func.fn
        return None

    def __repr__(self):
        k = self.kind
        if k == 'goto':
            return 'goto bb%d' % self.target
        if k == 'switch':
            return 'switch(%r) [%s, otherwise: bb%d]' % (
                self.discr, ', '.join('%d: bb%d' % (v, t) for v, t in self.targets), self.otherwise)
        if k == 'drop':
            return 'drop(%r) -> bb%d' % (self.place, self.target)
        if k == 'call':
            return '%r = %r(%s) -> %s' % (self.dest, self.func, ', '.join(repr(a) for a in self.args),
                                          'bb%d' % self.target if self.target is not None else '!')
        if k == 'assert':
            return 'assert(%r == %s, %s) -> bb%d' % (self.cond, self.expected, self.msg, self.target)
        return k


class Block:
    __slots__ = ('stmts', 'term', 'cleanup')

    def __init__(self, j):
        self.stmts = [Stmt(s) for s in j['s']]
        self.term = Term(j['t'])
        self.cleanup = j['cleanup']


def span_line(span):
    """'file:l:c-l:c[!]' -> (file, line, from_expansion)"""
    if not span:
        return ('?', 0, False)
    exp = span.endswith('!')
    s = span.rstrip('!')
    parts = s.split(':')
    try:
        return (parts[0], int(parts[1]), exp)
    except Exception:
        return (s, 0, exp)


class Body:
    def __init__(self, key, j):
        self.key = key
        self.kind = j['kind']
        self.vis = j['vis']
        self.name = j['name']
        self.parent = j['parent']
        self.parent_kind = j['parent_kind']
        self.impl = j['impl']
        self.sig = j['sig']
        self.span = j['span']
        self.locals = j['locals']
        self.arg_count = j['arg_count']
        self.debug = [(n, Place(p)) for n, p in j['debug']]
        self.blocks = [Block(b) for b in j['blocks']]
        self._names = None

    @property
    def file(self):
        return span_line(self.span)[0]

    @property
    def line(self):
        return span_line(self.span)[1]

    def local_ty(self, l):
        return self.locals[l]['ty']

    def names(self):
        """local -> user variable name (first debug entry naming the bare local)"""
        if self._names is None:
            d = {}
            for n, p in self.debug:
                if p.is_local() and p.local not in d:
                    d[p.local] = n
            self._names = d
        return self._names

    def arg_names(self):
        nm = self.names()
        return [nm.get(i) for i in range(1, self.arg_count + 1)]

    def self_ty(self):
        return self.impl['self_ty'] if self.impl else None

    def trait(self):
        return self.impl['trait'] if self.impl else None

    def live_blocks(self):
        """indices of non-cleanup blocks"""
        return [i for i, b in enumerate(self.blocks) if not b.cleanup]

    def calls(self):
        for bi, b in enumerate(self.blocks):
            if b.cleanup:
                continue
            if b.term.kind == 'call':
                yield bi, b.term

    def pretty(self):
        out = ['fn %s  [%s] %s' % (self.key, self.kind, self.span)]
        nm = self.names()
        for i, l in enumerate(self.locals):
            tag = 'ret' if i == 0 else ('arg' if i <= self.arg_count else 'let')
            out.append('  %s _%d: %s%s' % (tag, i, l['ty'], ('  // ' + nm[i]) if i in nm else ''))
        for bi, b in enumerate(self.blocks):
            if b.cleanup:
                continue
            out.append('  bb%d:' % bi)
            for s in b.stmts:
                out.append('    %r' % s)
            out.append('    %r' % b.term)
        return '\n'.join(out)


class PDB:
    def __init__(self, path):
        with open(path) as f:
            j = json.load(f)
        self.crate = j['crate']
        self.rustc = j['rustc']
        self.bodies = {k: Body(k, v) for k, v in j['bodies'].items()}
        self.adts = j['adts']
        self.consts = j['consts']
        self.impls = j['impls']
        self.traits = j['traits']
        self.statics = j.get('statics', {})

    def body(self, key):
        return self.bodies.get(key)

    def impure_fns(self):
        """in-crate bodies (and trait-method declarations) from which an RNG draw (alea::*) is reachable"""
        if getattr(self, '_impure', None) is not None:
            return self._impure
        edges = {}
        direct = set()
        for k, b in self.bodies.items():
            outs = set()
            for _, t in b.calls():
                fn = t.callee
                if fn is None:
                    continue
                for p in (fn.res, fn.decl):
                    if p:
                        outs.add(p)
                        if p.startswith('alea::') and not p.endswith('set_seed') and not p.endswith('get_seed'):
                            direct.add(k)
                for cl in fn.closures():
                    outs.add(cl)
            # closures defined inside are part of the parent for this purpose
            edges[k] = outs
        # trait method declarations -> impls
        decl_impls = {}
        for k, b in self.bodies.items():
            if b.impl and b.impl.get('trait'):
                tr = b.impl['trait'].split('<')[0]
                decl_impls.setdefault('%s::%s' % (tr, b.name), set()).add(k)
        impure = set(direct)
        changed = True
        while changed:
            changed = False
            for d, impls in decl_impls.items():
                if d not in impure and impls & impure:
                    impure.add(d)
                    changed = True
            for k, outs in edges.items():
                if k not in impure and outs & impure:
                    impure.add(k)
                    changed = True
            for k in list(self.bodies):
                # a closure makes its parent impure when called there (conservative)
                if k in impure and '::{closure#' in k:
                    parent = k.split('::{closure#')[0]
                    if parent in self.bodies and parent not in impure:
                        impure.add(parent)
                        changed = True
        self._impure = impure
        return impure

    def find(self, pred):
        return [b for b in self.bodies.values() if pred(b)]

    def closures_of(self, key):
        pre = key + '::{closure#'
        return [b for k, b in self.bodies.items() if k.startswith(pre)]

    def const_value(self, path):
        """decode an evaluated const item: f64 / integer scalars and (nested) arrays of them"""
        c = self.consts.get(path)
        if c is None or c['bytes'] is None:
            return None
        return decode_const(c['ty'], bytes.fromhex(c['bytes']))

    def adt_fields(self, path, variant=0):
        a = self.adts.get(path)
        if a is None:
            return None
        return a['variants'][variant]['fields']

    def field_name(self, adt_path, idx, variant=0):
        fs = self.adt_fields(adt_path, variant)
        if fs is None or idx >= len(fs):
            return None
        return fs[idx]['name']


_SCALAR_SIZES = {'f64': 8, 'f32': 4, 'bool': 1}
_SCALAR_SIZES.update({k: v // 8 for k, v in INT_TYS.items()})
_SCALAR_SIZES.update({k: v // 8 for k, v in UINT_TYS.items()})


def _parse_array_ty(ty):
    ty = ty.strip()
    if ty.startswith('[') and ty.endswith(']'):
        inner = ty[1:-1]
        depth = 0
        for i in range(len(inner) - 1, -1, -1):
            ch = inner[i]
            if ch == ']':
                depth += 1
            elif ch == '[':
                depth -= 1
            elif ch == ';' and depth == 0:
                return inner[:i].strip(), int(inner[i + 1:].strip())
    return None


def ty_size(ty):
    if ty in _SCALAR_SIZES:
        return _SCALAR_SIZES[ty]
    a = _parse_array_ty(ty)
    if a:
        return ty_size(a[0]) * a[1]
    raise ValueError('unsized const type ' + ty)


def decode_const(ty, b):
    if ty in _SCALAR_SIZES:
        n = _SCALAR_SIZES[ty]
        bits = int.from_bytes(b[:n], 'little')
        return decode_scalar(ty, bits)
    a = _parse_array_ty(ty)
    if a:
        et, n = a
        sz = ty_size(et)
        return [decode_const(et, b[i * sz:(i + 1) * sz]) for i in range(n)]
    return None
