"""Trip counts of counting loops and lengths of vectors filled in them (C03 bulk helpers, C19 bootstrap).

trip_count(f, loop) -> polynomial | None
  * `for _ in lo..hi`            : hi - lo   (the loop must have no other exit than iterator exhaustion)
  * `while i < n { ..; i += 1 }` : n - i0    (single exit on the counter test, one increment by 1 on every iteration, i0 a constant
                                              initialisation dominating the loop)
appends(f, vec, loop) -> calls to push/extend on `vec` inside the loop that execute on every iteration (dominate the latch)."""
from .ir import tag, show, short, subterms
from .poly import poly, psub, padd


def _exits(f, li):
    out = []
    for s, d, c, v in f.edge_conditions():
        if s in li['blocks'] and d not in li['blocks'] and not f.cfg.only_panics_from(d):
            out.append((s, d, c, v))
    return out


def trip_count(f, li):
    ex = _exits(f, li)
    if li.get('item') is not None and tag(li.get('iter')) == 'range':
        # every exit must be the iterator's None arm
        if all(tag(c) == 'discr' for _, _, c, _ in ex):
            return psub(poly(li['iter'][2]), poly(li['iter'][1]))
        return None
    # while loop on a counter
    if len(ex) != 1:
        return None
    s, d, c, v = ex[0]
    if tag(c) != 'bin' or not isinstance(v, bool):
        return None
    op, a, b = c[1], c[2], c[3]
    # normalise to: stay while a < b
    if (op == 'Lt' and v is False) or (op == 'Ge' and v is True):
        i, n = a, b
    elif (op == 'Gt' and v is False) or (op == 'Le' and v is True):
        i, n = b, a
    else:
        return None
    if tag(i) != 'local':
        return None
    defs = [st for st in f.stores() if st.target == i]
    inits = [st for st in defs if st.bb not in li['blocks']]
    incs = [st for st in defs if st.bb in li['blocks']]
    if len(inits) != 1 or len(incs) != 1:
        return None
    if not (tag(inits[0].value) == 'const' and isinstance(inits[0].value[2], int) and f.cfg.dominates(inits[0].bb, li['header'])):
        return None
    inc = incs[0].value
    if not (tag(inc) == 'bin' and inc[1] in ('Add', 'AddO') and inc[2] == i and tag(inc[3]) == 'const' and inc[3][2] == 1):
        return None
    latches = [p for p in f.cfg.pred[li['header']] if p in li['blocks']]
    if not all(f.cfg.dominates(incs[0].bb, lt) for lt in latches):
        return None
    if any(z == i for z in subterms(n)):
        return None
    return psub(poly(n), poly(inits[0].value))


def loops_of(f):
    """all natural loops with header/blocks (for-loops carry item/iter, while loops do not)"""
    infos = {li['header']: li for li in f.loop_info()}
    out = []
    for h, blocks in f.cfg.loops().items():
        li = dict(infos.get(h) or {'header': h, 'blocks': blocks, 'item': None, 'iter': None})
        li['blocks'] = blocks
        out.append(li)
    return out


def appends(f, vec, li):
    latches = [p for p in f.cfg.pred[li['header']] if p in li['blocks']]
    out = []
    for c in f.calls():
        if c.bb in li['blocks'] and c.path and short(c.path) in ('push', 'extend', 'extend_from_slice') and c.args and c.args[0] == vec:
            every = all(f.cfg.dominates(c.bb, lt) for lt in latches)
            out.append((c, every))
    return out
