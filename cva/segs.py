"""Segment-list abstraction of vectors assembled from slices of an input (C19 jackknife).

A slice value is (base, lo, hi) with lo/hi polynomials over the frame's integer terms (half-open, in elements of `base`);
a Vec value is the ordered list of segments it was assembled from.  Understood operations:
  slices : x (whole), x[a..b], x[..b], x[a..], split_at(x, i).0/.1, split_first(x).unwrap().1 (= x[1..]), deref/as_slice
  vectors: Vec::new / with_capacity (empty), to_vec(slice), extend_from_slice(v, slice) / extend(v, slice iterator) in program order,
           remove(v, i) (order preserving), swap_remove(v, i) (last element moves into the hole), clone
  calls  : an in-crate helper returning a Vec is evaluated in its own frame with the caller's bindings.
Unknown constructs raise Unknown (no verdict)."""
from .ir import tag, show, short, subterms
from .poly import poly, padd, psub, peq, pconst


class Unknown(Exception):
    pass


class NeedChoice(Exception):
    def __init__(self, local, n):
        Exception.__init__(self, 'choice')
        self.local, self.n = local, n


def _strip(t):
    while True:
        if tag(t) == 'cast':
            t = t[2]
        elif tag(t) == 'call' and short(t[1]) in ('deref', 'deref_mut', 'as_slice', 'as_ref', 'borrow', 'iter', 'into_iter', 'copied', 'cloned') and len(t[2]) == 1:
            t = t[2][0]
        else:
            return t


class SegEval:
    def __init__(self, prog, f, bind_slices=None, bind_ints=None, depth=0):
        self.prog, self.f, self.depth = prog, f, depth
        self.bs = bind_slices or {}     # arg term -> slice value in the *root* frame
        self.bi = bind_ints or {}       # arg term -> polynomial in the root frame
        self.choice = {}                # multi-definition local -> which definition (the caller enumerates all)

    def ipoly(self, t):
        """integer term of this frame as a polynomial over root-frame atoms"""
        t0 = t
        while tag(t) == 'cast':
            t = t[2]
        if t in self.bi:
            return self.bi[t]
        k = tag(t)
        if k == 'const' and isinstance(t[2], int):
            return {(): t[2]} if t[2] else {}
        if k == 'bin' and t[1] in ('Add', 'Sub'):
            a, b = self.ipoly(t[2]), self.ipoly(t[3])
            return padd(a, b) if t[1] == 'Add' else psub(a, b)
        if k == 'len':
            s = self.slice(t[1])
            return psub(s[2], s[1])
        if k == 'call' and short(t[1]) == 'len' and t[2]:
            s = self.slice(t[2][0])
            return psub(s[2], s[1])
        if k in ('item', 'arg', 'local', 'upvar'):
            return poly(t)
        raise Unknown('integer %s' % show(t0)[:50])

    def slice(self, t):
        t = _strip(t)
        if t in self.bs:
            return self.bs[t]
        k = tag(t)
        if k == 'arg':
            return (t, {}, poly(('len', t)))
        if k == 'local':
            defs = [st for st in self.f.stores() if st.target == t]
            if not defs:
                raise Unknown('local %s' % show(t))
            if len(defs) > 1:
                if t not in self.choice:
                    raise NeedChoice(t, len(defs))
                return self.slice(defs[self.choice[t]].value)
            return self.slice(defs[0].value)
        if k == 'index':
            b = self.slice(t[1])
            r = t[2]
            if tag(r) == 'range':
                return (b[0], padd(b[1], self.ipoly(r[1])), padd(b[1], self.ipoly(r[2])))
            if tag(r) == 'agg' and 'RangeTo' in str(r[2]) and 'Inclusive' not in str(r[2]):
                return (b[0], b[1], padd(b[1], self.ipoly(r[3][0])))
            if tag(r) == 'agg' and 'RangeFrom' in str(r[2]):
                return (b[0], padd(b[1], self.ipoly(r[3][0])), b[2])
            raise Unknown('slice index %s' % show(r)[:40])
        if k == 'field' and tag(_strip(t[1])) == 'call':
            c = _strip(t[1])
            if short(c[1]) in ('split_at', 'split_at_mut'):
                b = self.slice(c[2][0])
                mid = padd(b[1], self.ipoly(c[2][1]))
                return (b[0], b[1], mid) if t[2] == 0 else (b[0], mid, b[2])
            if short(c[1]) in ('unwrap', 'expect') and tag(_strip(c[2][0])) == 'call' and short(_strip(c[2][0])[1]) in ('split_first', 'split_first_mut') and t[2] == 1:
                b = self.slice(_strip(c[2][0])[2][0])
                return (b[0], padd(b[1], {(): 1}), b[2])
        raise Unknown('slice %s' % show(t)[:60])

    def vec(self, t):
        """ordered segment list of a Vec-valued term (with all in-place effects in this frame applied)"""
        t = t if tag(t) != 'cast' else t[2]
        k = tag(t)
        if k == 'call':
            p = t[1]
            s = short(p)
            if s in ('with_capacity', 'new') and 'Vec' in p:
                segs = []
            elif s == 'to_vec' or s == 'to_owned':
                segs = [self.slice(t[2][0])]
            elif s == 'clone' and t[2]:
                segs = list(self.vec(t[2][0]))
            elif p in self.prog.pdb.bodies and self.depth < 3:
                g = self.prog.func(p)
                bs, bi = {}, {}
                for i, a in enumerate(t[2]):
                    pa = ('arg', i + 1, g.names.get(i + 1))
                    ty = g.body.local_ty(i + 1)
                    if ty in ('usize', 'u64', 'i32', 'i64', 'isize', 'u32'):
                        bi[pa] = self.ipoly(a)
                    else:
                        try:
                            bs[pa] = self.slice(a)
                        except Unknown:
                            pass
                sub = SegEval(self.prog, g, bs, bi, self.depth + 1)
                rv = g.return_values()
                if len(rv) != 1:
                    raise Unknown('helper %s has %d return values' % (short(p), len(rv)))
                return sub.vec(rv[0])
            else:
                raise Unknown('vector built by %s' % s)
            return self.apply_effects(t, segs)
        raise Unknown('vector %s' % show(t)[:50])

    def apply_effects(self, v, segs):
        f = self.f
        order = {b: i for i, b in enumerate(f.cfg.rpo())}
        effs = [c for c in f.calls() if c.args and c.args[0] == v and c.path]
        effs.sort(key=lambda c: order.get(c.bb, 0))
        segs = list(segs)
        for c in effs:
            s = short(c.path)
            if s in ('extend_from_slice', 'extend'):
                segs.append(self.slice(c.args[1]))
            elif s == 'push' or s in ('len', 'capacity', 'iter', 'deref', 'as_slice', 'is_empty', 'reserve'):
                if s == 'push':
                    raise Unknown('push of a scalar')
            elif s == 'remove':
                segs = _remove(segs, self.ipoly(c.args[1]), swap=False)
            elif s == 'swap_remove':
                segs = _remove(segs, self.ipoly(c.args[1]), swap=True)
            elif s in ('deref_mut', 'as_mut_slice'):
                raise Unknown('mutable view taken')
            else:
                raise Unknown('effect %s' % s)
        return segs


def _remove(segs, i, swap):
    """remove position i from a single-segment vector (the only case needed); swap=True moves the last element into the hole"""
    if len(segs) != 1:
        raise Unknown('remove on an assembled vector')
    b, lo, hi = segs[0]
    at = padd(lo, i)
    one = {(): 1}
    if not swap:
        return [(b, lo, at), (b, padd(at, one), hi)]
    # [lo, at) ++ [hi-1, hi) ++ [at+1, hi-1)
    return [(b, lo, at), (b, psub(hi, one), hi), (b, padd(at, one), psub(hi, one))]


def normalise(segs):
    """drop provably empty segments and merge adjacent ones"""
    out = []
    for b, lo, hi in segs:
        if peq(lo, hi):
            continue
        if out and out[-1][0] == b and peq(out[-1][2], lo):
            out[-1] = (b, out[-1][1], hi)
        else:
            out.append((b, lo, hi))
    return out


def all_alternatives(make_eval, value):
    """segment lists of `value` for every combination of definitions of the multi-definition locals met"""
    outs = []
    work = [{}]
    while work:
        ch = work.pop()
        ev = make_eval()
        ev.choice = dict(ch)
        try:
            outs.append(normalise(ev.vec(value)))
        except NeedChoice as e:
            for i in range(e.n):
                c2 = dict(ch)
                c2[e.local] = i
                work.append(c2)
            if len(work) > 32:
                raise Unknown('too many alternatives')
    return outs
