"""C10 — optimizers follow their published update rules; Levenberg-Marquardt descends.

D1 determinism: no RNG, clock, environment or thread source is reachable from the three optimize bodies.
D3 recurrences (canonical-form comparison of the update statements with the published ones):
   Adam  m <- b1 m + (1-b1) g;  v <- b2 v + (1-b2) g g;  theta <- theta - a (m/(1-b1^t)) / (sqrt(v/(1-b2^t)) + eps), t the step counter
         incremented once per iteration before the update;
   SGD   u <- mom u + a g;  theta <- theta - u;  with nesterov the gradient is taken at theta - mom u, otherwise at theta.
D4 early stop: the loop runs while t < maxsteps && !converged and `converged` is set only under
   max_i rel_diff(theta_i, previous theta_i) < EPSILON.
D5 LM acceptance: parameters are overwritten only under rho > 0 with rho = (|r|^2 - |r_new|^2)/(0.5 * predicted reduction), hence the residual
   sum of squares never increases; the returned covariance is |r|^2/(n - p) * (J^T J)^-1 at the returned point.
Not decided: LM's damping schedule, convergence, equality beyond these recurrences."""
import re
from ..ir import tag, show, short, subterms, map_term, is_f64_method, f64_method_name
from ..framework import site_of

LEVEL = 'other'
EXPLANATION = (
    'The update statements of each optimizer are extracted from MIR as terms, canonicalised (struct fields by name, commutative operands '
    'sorted, automatic-differentiation wrappers mapped to their arithmetic) and compared with the published recurrences; loop conditions, the '
    'convergence flag\'s only writer and LM\'s acceptance guard are checked on the CFG; the call closure is searched for nondeterminism sources. '
    'This decides "returns the k-th iterate of the published recurrence" structurally for every objective and k; LM damping is not decided.')

O = 'optimize::'


def canon(f, t, fieldnames, me, loc_alias):
    """canonical string of an update expression"""
    k = tag(t)
    if k == 'const':
        v = t[2]
        return repr(float(v)) if isinstance(v, (int, float)) and not isinstance(v, bool) else repr(v)
    if k == 'field' and t[1] == me:
        return fieldnames.get(t[2], 'f%d' % t[2])
    if k == 'index':
        return '%s[%s]' % (canon(f, t[1], fieldnames, me, loc_alias), canon(f, t[2], fieldnames, me, loc_alias))
    if k == 'item':
        return loc_alias.get(t, 'p')
    if k == 'local':
        return loc_alias.get(t, t[2] or '?')
    if k == 'cast':
        return canon(f, t[2], fieldnames, me, loc_alias)
    if k == 'bin':
        a, b = canon(f, t[2], fieldnames, me, loc_alias), canon(f, t[3], fieldnames, me, loc_alias)
        op = t[1]
        if op in ('Add', 'Mul') and a > b:
            a, b = b, a
        return '%s(%s,%s)' % (op, a, b)
    if k == 'call':
        p = t[1]
        if t in loc_alias:
            return loc_alias[t]
        if is_f64_method(p):
            return '%s(%s)' % (f64_method_name(p), ','.join(canon(f, a, fieldnames, me, loc_alias) for a in t[2]))
        m = re.search(r'std::ops::(Add|Sub|Mul|Div)', p)
        if m and len(t[2]) == 2:
            a, b = canon(f, t[2][0], fieldnames, me, loc_alias), canon(f, t[2][1], fieldnames, me, loc_alias)
            op = m.group(1)
            if op in ('Add', 'Mul') and a > b:
                a, b = b, a
            return '%s(%s,%s)' % (op, a, b)
        s = short(p)
        if s in ('add', 'sub', 'mul', 'div') and len(t[2]) == 2:
            op = s.capitalize()
            a, b = canon(f, t[2][0], fieldnames, me, loc_alias), canon(f, t[2][1], fieldnames, me, loc_alias)
            if op in ('Add', 'Mul') and a > b:
                a, b = b, a
            return '%s(%s,%s)' % (op, a, b)
        return '%s(%s)' % (s, ','.join(canon(f, a, fieldnames, me, loc_alias) for a in t[2]))
    if k == 'arg':
        return t[2] or 'arg%d' % t[1]
    if k == 'upvar':
        return 'up%d' % t[1]
    return show(t)[:40]


def run(prog, rep, tier, repo):
    pdb = prog.pdb
    keys = {'adam': '<%sadam::Adam as %sOptimizer>::optimize' % (O, O), 'sgd': '<%ssgd::SGD as %sOptimizer>::optimize' % (O, O),
            'lm': '<%slm::LM as %sOptimizer>::optimize' % (O, O)}
    # ------------------------------------------------------------------ D1 determinism
    DENY = ('alea::', 'std::time::', 'std::env::', 'std::thread::', 'std::process::', 'std::collections::hash', 'std::hash::random', 'core::time')
    for name, k in keys.items():
        key = 'deterministic:%s' % name
        if k not in pdb.bodies:
            rep.viol('deterministic', key, 'optimize impl disappeared')
            continue
        clo = prog.closure(k)
        for kk in clo:
            rep.touch(kk)
        ext = prog.std_callees(clo)
        bad = sorted(p for p in ext if p.startswith(DENY))
        if bad:
            rep.viol('deterministic', key, '%s::optimize reaches a source of nondeterminism: %s' % (name, bad), site_of(pdb.bodies[k]))
        else:
            rep.ok('deterministic', key, '%d bodies reachable, no RNG/clock/env/thread callee' % len(clo))
    rep.floor('deterministic', 3, 'optimize bodies')

    # ------------------------------------------------------------------ Adam
    f = prog.func(keys['adam'])
    if f is not None:
        me = ('arg', 1, f.names.get(1))
        fn = {i: fl['name'] for i, fl in enumerate(pdb.adts[O + 'adam::Adam']['variants'][0]['fields'])}
        # identify m and v buffers (Vector::zeros sites) by the coefficient field they are updated with
        st = [s for s in f.stores() if tag(s.target) == 'index']
        alias = {}
        grad = None
        for s in st:
            base = s.target[1]
            if tag(base) == 'call' and base[1].endswith('Vector::zeros'):
                c = canon(f, s.value, fn, me, {})
                if 'beta1' in c:
                    alias[base] = 'm'
                elif 'beta2' in c:
                    alias[base] = 'v'
        for z in [z for s in st for z in subterms(s.value)]:
            if tag(z) == 'index' and tag(z[1]) == 'call' and short(z[1][1]) == 'wrt':
                alias[z[1]] = 'g'
        tloc = [s.target for s in f.stores() if tag(s.target) == 'local' and s.target[2] == 't']
        # the item of a loop that encloses the element stores without indexing them is the step counter (`for t in 1..=maxsteps`)
        idx_items = {z for s in st for z in subterms(s.target[2]) if tag(z) == 'item'}
        for li in f.loop_info():
            if li['item'] is not None and li['item'] not in idx_items and tag(li['iter']) in ('range', 'rangeincl') and \
                    any(s.bb in li['blocks'] for s in st):
                alias[li['item']] = 't'
        got = {}
        for s in st:
            tgt = canon(f, s.target, fn, me, alias)
            got[tgt] = canon(f, s.value, fn, me, alias)
        want = {
            'm[p]': 'Add(Mul(Sub(1.0,beta1),g[p]),Mul(beta1,m[p]))',
            'v[p]': 'Add(Mul(Mul(Sub(1.0,beta2),g[p]),g[p]),Mul(beta2,v[p]))',
            'params[p]': 'Sub(params[p],Div(Mul(Div(m[p],Sub(1.0,powi(beta1,t))),stepsize),Add(epsilon,sqrt(Div(v[p],Sub(1.0,powi(beta2,t)))))))',
        }
        for tgt, w in want.items():
            key = 'recurrence:adam:%s' % tgt
            g_ = got.get(tgt)
            if g_ is None:
                rep.undecided('recurrence', key, 'no element store into %s recognised (statements: %s): update idiom not read' % (tgt, sorted(got)), site_of(f.body), proof=False)
            elif g_ == w:
                rep.ok('recurrence', key, '%s := %s' % (tgt, g_))
                rep.sample('Adam: %s := %s' % (tgt, g_))
            else:
                rep.viol('recurrence', key, 'Adam updates %s := %s; the published rule (Kingma & Ba 2014, Alg. 1) is %s' % (tgt, g_, w), site_of(f.body))
        # every coordinate is advanced in every step: the recurrences m <- b1 m + (1-b1) g, v <- .., theta <- .. hold for all g, also g = 0
        # (m and v decay, theta still moves by the remembered momentum); an update that is skipped on a test of the gradient value leaves
        # that coordinate at an earlier iterate
        key = 'recurrence:adam:every-coordinate'
        skipped = []
        for s_ in st:
            for cn in f.control_conds(s_.bb):
                if tag(cn) == 'bin' and len(cn) > 4 and cn[4] in ('f64', 'f32') and cn[1] in ('Eq', 'Ne', 'Lt', 'Le', 'Gt', 'Ge'):
                    if any(tag(z) == 'index' and alias.get(z[1]) == 'g' for z in subterms(cn)) or \
                            any(tag(z) == 'call' and short(z[1]) == 'wrt' for z in subterms(cn)):
                        skipped.append((s_, cn))
        if not st:
            rep.undecided('recurrence', key, 'no element store in the update loop', site_of(f.body), proof=False)
        elif skipped:
            s_, cn = skipped[0]
            rep.viol('recurrence', key, 'the update of %s is performed only when `%s` goes one way: a coordinate whose gradient meets that test keeps its old m, v and value, '
                     'so the result is not the k-th iterate of the recurrence' % (canon(f, s_.target, fn, me, alias), show(cn)[:50]), site_of(s_.span))
        else:
            rep.ok('recurrence', key, 'no update store depends on a test of the gradient value')
        # t is incremented once per iteration, before the parameter loop
        key = 'recurrence:adam:step-counter'
        ts = [s for s in f.stores() if tag(s.target) == 'local' and s.target[2] == 't']
        incs = [s for s in ts if tag(s.value) == 'bin' and s.value[1] == 'Add' and s.value[2] == s.target and tag(s.value[3]) == 'const' and s.value[3][2] == 1]
        inits = [s for s in ts if tag(s.value) == 'const' and s.value[2] == 0]
        upd = [s for s in st if canon(f, s.target, fn, me, alias) == 'params[p]']
        ok = len(incs) == 1 and len(inits) == 1 and len(ts) == 2 and upd and f.cfg.dominates(incs[0].bb, upd[0].bb) and _in_outer_loop_only(f, incs[0].bb, upd[0].bb)
        if not ok and len(incs) == 1 and len(inits) == 1 and len(ts) == 2 and not upd:
            # the per-coordinate update lives elsewhere (a helper taking t): judge the counter by where it is read -- every read other
            # than the increment and the loop test comes after the single increment of the iteration, inside an inner loop or after it
            tl = ts[0].target
            reads = [c_.bb for c_ in f.calls() if any(tl in list(subterms(a_)) for a_ in c_.args) and not (c_.path or '').startswith('std::fmt')
                     and 'Argument' not in (c_.path or '')]
            reads += [s_.bb for s_ in f.stores() if s_ not in ts and tl in list(subterms(s_.value))]
            if reads and all(f.cfg.dominates(incs[0].bb, b_) for b_ in reads):
                loops_ = f.cfg.loops()
                with_inc = [bl for bl in loops_.values() if incs[0].bb in bl]
                if len(with_inc) == 1:
                    ok = True
        # the exponent of the bias corrections, whatever it is called: powi(beta, t as i32)
        exps = set()
        for s_ in f.stores():
            for z in subterms(s_.value):
                if tag(z) == 'call' and is_f64_method(z[1]) and f64_method_name(z[1]) == 'powi' and tag(z[2][0]) == 'field' and z[2][0][1] == me:
                    e_ = z[2][1]
                    while tag(e_) == 'cast':
                        e_ = e_[2]
                    exps.add(e_)
        items = [e_ for e_ in exps if tag(e_) == 'item']
        if ok:
            rep.ok('recurrence', key, 't starts at 0 and is incremented once per iteration before the update (bias correction uses t >= 1)')
        elif len(exps) == 1 and items:
            rng_ = items[0][2]
            lo_ = rng_[1] if tag(rng_) in ('range', 'rangeincl') else (rng_[2][0] if tag(rng_) == 'call' and 'RangeInclusive' in rng_[1] and rng_[2] else None)
            if tag(lo_) == 'const' and lo_[2] >= 1:
                rep.ok('recurrence', key, 'the bias corrections use the loop counter of `for t in %s`, which starts at %d' % (show(rng_)[:30], lo_[2]))
            elif tag(lo_) == 'const':
                rep.viol('recurrence', key, 'the bias corrections use a loop counter starting at %d: 1 - beta^0 = 0 divides by zero in the first step' % lo_[2], site_of(f.body))
            else:
                rep.undecided('recurrence', key, 'start of the step counter range not read', site_of(f.body), proof=False)
        elif not ts and not exps:
            rep.undecided('recurrence', key, 'no step counter found', site_of(f.body), proof=False)
        elif ts:
            rep.viol('recurrence', key, 'the step counter is not 0-initialised and incremented exactly once per iteration before the update', site_of(f.body))
        else:
            rep.undecided('recurrence', key, 'step counter idiom not read (exponents %s)' % [show(e_)[:30] for e_ in exps], site_of(f.body), proof=False)
        _early_stop(prog, rep, f, 'adam')
    # ------------------------------------------------------------------ SGD
    f = prog.func(keys['sgd'])
    if f is not None:
        me = ('arg', 1, f.names.get(1))
        fn = {i: fl['name'] for i, fl in enumerate(pdb.adts[O + 'sgd::SGD']['variants'][0]['fields'])}
        st = [s for s in f.stores() if tag(s.target) == 'index']
        alias = {}
        for s in st:
            base = s.target[1]
            if tag(base) == 'call' and base[1].endswith('Vector::zeros'):
                alias[base] = 'u'
        if not alias:
            # the velocity buffer is written through iterator items only: it is the one zero-initialised Vector of the body
            zs = {z for c_ in f.calls() for a_ in c_.args for z in subterms(a_) if tag(z) == 'call' and z[1].endswith('Vector::zeros')}
            if len(zs) == 1:
                alias[next(iter(zs))] = 'u'
        gl = [s.target for s in f.stores() if tag(s.target) == 'local' and s.target[2] == 'grad']
        if gl:
            alias[gl[0]] = 'g'
        got = {canon(f, s.target, fn, me, alias): canon(f, s.value, fn, me, alias) for s in st}
        want = {'u[p]': 'Add(Mul(g[p],stepsize),Mul(momentum,u[p]))', 'params[p]': 'Sub(params[p],u[p])'}
        for tgt, w in want.items():
            key = 'recurrence:sgd:%s' % tgt
            g_ = got.get(tgt)
            # hoisted form: `let update = mom*u[p] + a*g[p]; u[p] = update; params[p] = params[p] - update` -- the same quantity, evaluated once
            hoisted = False
            if tgt == 'params[p]' and got.get('u[p]') == want['u[p]'] and g_ == 'Sub(params[p],%s)' % want['u[p]']:
                su_ = [s_ for s_ in st if canon(f, s_.target, fn, me, alias) == 'u[p]']
                sp_ = [s_ for s_ in st if canon(f, s_.target, fn, me, alias) == 'params[p]']
                # one evaluation: both stores carry the very same term object path (a single-definition local inlined twice), and the
                # product momentum*u[p] is computed by exactly one call in the loop
                nmul = sum(1 for c_ in f.calls() if c_.path and canon(f, ('call', c_.path, c_.args, None), fn, me, alias) == 'Mul(momentum,u[p])')
                hoisted = bool(su_ and sp_) and nmul <= 1
            if g_ == w or hoisted:
                rep.ok('recurrence', key, '%s := %s' % (tgt, g_))
                rep.sample('SGD: %s := %s' % (tgt, g_))
            elif g_ is None:
                rep.undecided('recurrence', key, 'no element store into %s recognised (statements: %s)' % (tgt, sorted(got)), site_of(f.body), proof=False)
            else:
                rep.viol('recurrence', key, 'SGD updates %s := %s; the momentum rule is %s' % (tgt, g_, w), site_of(f.body))
        # order: update_vec is updated before it is subtracted
        key = 'recurrence:sgd:order'
        su = [s for s in st if canon(f, s.target, fn, me, alias) == 'u[p]']
        sp = [s for s in st if canon(f, s.target, fn, me, alias) == 'params[p]']
        ok = su and sp and (f.cfg.dominates(su[0].bb, sp[0].bb) and (su[0].bb != sp[0].bb or su[0].idx < sp[0].idx))
        reads_u = bool(sp) and any(canon(f, z, fn, me, alias) == 'u[p]' for z in subterms(sp[0].value)) and got.get('params[p]') == want['params[p]']
        if ok or (su and sp and not reads_u):
            rep.ok('recurrence', key, 'the velocity is updated before it is applied' if ok else 'the parameter update does not read the velocity buffer (hoisted update)')
        elif not su or not sp:
            rep.undecided('recurrence', key, 'velocity / parameter stores not recognised', site_of(f.body), proof=False)
        else:
            rep.viol('recurrence', key, 'parameters are updated with the stale velocity', site_of(f.body))
        # gradient point
        key = 'recurrence:sgd:gradient-point'
        gs = [s for s in f.stores() if tag(s.target) == 'local' and s.target[2] == 'grad']
        nest = ('field', me, [i for i, n in fn.items() if n == 'nesterov'][0], 'bool')
        okn = okp = False
        for s in gs:
            gd = f.guards().get(s.bb, [])
            isn = any(cn == nest and v is True for cn, v in gd)
            isp = any(cn == nest and v is False for cn, v in gd)
            wrt = s.value
            if tag(wrt) == 'call' and short(wrt[1]) == 'wrt':
                pt = wrt[2][1]
                evalpt = [z for z in subterms(wrt[2][0]) if tag(z) == 'call' and short(z[1]) == 'call']
                same = evalpt and tag(evalpt[0][2][1]) == 'agg' and evalpt[0][2][1][3][0] == pt
                if isn and same and tag(pt) == 'call' and short(pt[1]) == 'collect':
                    # closure: *p - momentum * u over zip(params, update_vec)
                    mp = pt[2][0]
                    if tag(mp) == 'call' and short(mp[1]) == 'map' and tag(mp[2][1]) == 'agg':
                        g = prog.func(mp[2][1][2])
                        rv = g.return_values()
                        cme = {0: me}
                        c = canon(g, rv[0], fn, ('upvar', 0, None), {}) if len(rv) == 1 else ''
                        zp = mp[2][0]
                        okzip = tag(zp) == 'call' and short(zp[1]) == 'zip' and canon(f, zp[2][1], fn, me, alias) == 'u'
                        okn = okzip and _is_lookahead(g, rv, fn, mp[2][1][3])
                if isp and same and tag(pt) == 'local' and pt[2] == 'params':
                    okp = True
        # the look-ahead point built by an in-crate helper with a loop of its own (`self.look_ahead(&params, &velocity)`) is not read
        helper_pt = any(tag(s_.value) == 'call' and short(s_.value[1]) == 'wrt' and len(s_.value[2]) > 1 and tag(s_.value[2][1]) == 'call' and
                        s_.value[2][1][1] in pdb.bodies for s_ in gs)
        if okn and okp:
            rep.ok('recurrence', key, 'nesterov: gradient at theta - momentum*u; plain: gradient at theta')
        elif helper_pt and okp:
            rep.undecided('recurrence', key, 'the look-ahead point is built by an in-crate helper whose body is not read', site_of(f.body), proof=False)
        elif len(gs) != 2 or not all(tag(s_.value) == 'call' and short(s_.value[1]) == 'wrt' for s_ in gs):
            rep.undecided('recurrence', key, 'gradient evaluation idiom not read (expected two definitions of the gradient, one per value of the nesterov flag)', site_of(f.body), proof=False)
        else:
            rep.viol('recurrence', key, 'the gradient evaluation point does not follow the nesterov flag (look-ahead theta - momentum*u vs theta)', site_of(f.body))
        _early_stop(prog, rep, f, 'sgd')
    rep.floor('recurrence', 9, 'Adam (m, v, theta, every coordinate, t) + SGD (u, theta, order, gradient point)')
    rep.floor('early-stop', 4, 'loop condition + convergence flag for Adam and SGD')

    # ------------------------------------------------------------------ LM
    f = prog.func(keys['lm'])
    # the LM rules read the state of the iteration through the locals that carry it (res, jtj, jtr, jacobian, params).  A body that keeps the
    # state elsewhere (a struct of its own, helper methods) is not read: every LM obligation stays open
    if f is not None:
        present_ = {nm_ for nm_ in f.names.values() if isinstance(nm_, str)}
        if not {'res', 'jtj', 'jtr', 'jacobian'} <= present_:
            rep.touch(f.body.key)
            for sub_ in ('acceptance', 'covariance', 'state-coherent'):
                rep.undecided('lm', 'lm:%s' % sub_, 'the iteration state is not carried in the locals res / jtj / jtr / jacobian (found %s): LM body not read' % sorted(present_)[:8],
                              site_of(f.body), proof=False)
            f = None
    if f is not None:
        rep.touch(f.body.key)
        key = 'lm:acceptance'
        cps = [c for c in f.calls() if c.path and short(c.path) == 'copy_from_slice']
        writes = [s for s in f.stores() if tag(s.target) == 'local' and s.target[2] == 'params']
        problems = []
        undec_acc = []
        rho = None
        if len(cps) != 1:
            # the accepted proposal is not installed by one `params.copy_from_slice(&new_params)` (values carried as plain f64 and re-registered
            # on the tape each turn, say): the acceptance idiom is not read
            undec_acc.append('the accepted proposal is not installed by a single copy_from_slice (%d found): acceptance idiom not read' % len(cps))
        else:
            gs = f.guards().get(cps[0].bb, [])
            acc = [cn for cn, v in gs if v is True and tag(cn) == 'bin' and cn[1] == 'Gt' and tag(cn[3]) == 'const' and cn[3][2] == 0.0]
            if not acc:
                problems.append('the proposal is accepted without the test rho > 0')
            else:
                rho = acc[0][2]
                # rho = (dot(res,res) - dot(new,new)) / (0.5 * pred)
                okr = tag(rho) == 'bin' and rho[1] == 'Div' and tag(rho[2]) == 'bin' and rho[2][1] == 'Sub'
                if okr:
                    a, b = rho[2][2], rho[2][3]

                    def is_sq_norm_of_res(t):
                        return tag(t) == 'call' and short(t[1]) == 'dot' and t[2][0] == t[2][1] and tag(t[2][0]) == 'local' and t[2][0][2] == 'res'
                    oka = is_sq_norm_of_res(a)
                    cached = False
                    if not oka and tag(a) == 'local':
                        # |r|^2 carried in a local: initialised as dot(res, res) and replaced, together with res, by the proposal's value
                        defs = [s_ for s_ in f.stores() if s_.target == a]
                        res_defs = {s_.bb: s_.value for s_ in f.stores() if tag(s_.target) == 'local' and s_.target[2] == 'res'}

                        def def_ok(s_):
                            v = s_.value
                            if is_sq_norm_of_res(v):
                                return True
                            nr_ = res_defs.get(s_.bb)
                            return nr_ is not None and tag(v) == 'call' and short(v[1]) == 'dot' and v[2][0] == v[2][1] and v[2][0] == nr_
                        if defs and all(def_ok(s_) for s_ in defs):
                            oka = cached = True
                        else:
                            # a definition that takes the proposal's sum of squares outside the accepting branch: after a rejected
                            # proposal the carried value no longer belongs to the current residuals
                            for s_ in defs:
                                v_ = s_.value
                                if tag(v_) == 'call' and short(v_[1]) == 'dot' and v_[2][0] == v_[2][1] and not is_sq_norm_of_res(v_) and \
                                        not f.cfg.dominates(cps[0].bb, s_.bb):
                                    problems.append('the carried sum of squares `%s` is set to the proposal\'s value %s outside the accepting branch: after a '
                                                    'rejected step rho compares the next proposal with a residual norm that was never accepted' % (show(a), show(v_)[:40]))
                                    break
                    okb = tag(b) == 'call' and short(b[1]) == 'dot' and b[2][0] == b[2][1] and (cached or b[2][0] != a[2][0])
                    # the proposal's residuals are computed at the proposed parameters (the copied value)
                    prop = cps[0].args[1]
                    okc = any(z == prop for z in subterms(b))
                    if tag(a) == 'local' and not oka and problems:
                        pass
                    elif tag(a) == 'local' and not oka:
                        undec_acc.append('the current sum of squares is carried in `%s`, whose definitions are not read' % show(a))
                    elif not (oka and okb and okc):
                        problems.append('rho\'s numerator is not |r|^2 - |r_new|^2 with r_new evaluated at the proposal')
                else:
                    problems.append('rho is not a ratio of the actual to the predicted reduction')
        # other writes of params only re-wrap the same values on the tape
        for s in writes:
            v = s.value
            if len(cps) == 1 and not (tag(v) == 'call' and short(v[1]) == 'collect'):
                problems.append('parameters are also overwritten by %s' % show(v)[:60])
        if undec_acc and not problems:
            rep.undecided('lm', key, '; '.join(undec_acc), site_of(f.body), proof=False)
        else:
            (rep.viol if problems else rep.ok)('lm', key, '; '.join(problems) if problems else
                                               'parameters change only under rho > 0, rho = (|r|^2 - |r_new|^2)/(0.5*pred): the residual sum of squares never increases', site_of(f.body))
        key = 'lm:covariance'
        rets = f.return_values()
        ok = False
        why = '?'
        if len(rets) == 1 and tag(rets[0]) == 'agg' and rets[0][1] == 'tuple' and len(rets[0][3]) == 2:
            cov = rets[0][3][1]
            c = canon(f, cov, {}, ('arg', 1, None), {})
            ok = bool(re.match(r'Mul\(Div\(t_dot\(res,res\),Sub\(len\(.*\),len\(params\)\)\),inv\(jtj\)\)$', c)) or \
                bool(re.match(r'Mul\(Div\(t_dot\(res,res\),Sub\(.*\)\),inv\(jtj\)\)$', c))
            ok = ok or bool(re.match(r'Mul\(inv\(jtj\),Div\(t_dot\(res,res\),Sub\(.*\)\)\)$', c))       # the scalar on the right
            why = c
            # refuted in the read form only: an expression over the LM state (res, jtj, jtr, params), the data arguments and arithmetic
            voc = {'Mul', 'Div', 'Sub', 'Add', 'Neg', 't_dot', 'inv', 'len', 'res', 'jtj', 'jtr', 'params', 'dot', 't'} | {str(nm) for nm in f.names.values() if isinstance(nm, str)}
            read = set(re.findall(r'[A-Za-z_][A-Za-z_0-9]*', c)) <= voc and 'jtj' in c
        else:
            read = False
        if ok:
            rep.ok('lm', key, 'covariance = |r|^2/(n - p) * inv(J^T J)')
        elif read:
            rep.viol('lm', key, 'returned covariance is %s' % (why if rets else '?'), site_of(f.body))
        else:
            rep.undecided('lm', key, 'returned covariance is not one expression over res, jtj and the counts (%s): not read' % str(why)[:120],
                          site_of(f.body), proof=False)
        # jtj / res are refreshed together with the accepted parameters
        key = 'lm:state-coherent'
        if cps:
            bb = cps[0].bb
            upd = {s.target[2] for s in f.stores() if tag(s.target) == 'local' and s.target[2] in ('jtj', 'res', 'jtr', 'jacobian') and f.cfg.dominates(bb, s.bb)}
            ok = upd == {'jtj', 'res', 'jtr', 'jacobian'}
            # .. and on every way out of the accepting iteration: a path from the acceptance to the next iteration or out of the loop that
            # skips one of the refreshes leaves that quantity at the previous iterate
            skipped = []
            if ok:
                cfg = f.cfg
                loop = None
                for h, blocks in cfg.loops().items():
                    if bb in blocks and (loop is None or len(blocks) < len(loop[1])):
                        loop = (h, blocks)
                for nm in ('jtj', 'res', 'jtr', 'jacobian'):
                    ub = {s.bb for s in f.stores() if tag(s.target) == 'local' and s.target[2] == nm and cfg.dominates(bb, s.bb)}
                    if bb in ub:
                        continue
                    reach = cfg.reach_from(bb, avoid=ub)
                    if loop is not None:
                        h, blocks = loop
                        leaves = any((v not in blocks or v == h) and not cfg.only_panics_from(v) for u in reach if u in blocks for v in cfg.succ[u])
                    else:
                        leaves = any(r in reach for r in cfg.returns)
                    if leaves:
                        skipped.append(nm)
            if skipped:
                rep.viol('lm', key, 'after a proposal is accepted %s %s not refreshed on every path to the next iteration / the exit (an early exit sits '
                         'between the acceptance and the refresh): the returned covariance mixes the new point with quantities of the previous one' % (
                             ', '.join(skipped), 'is' if len(skipped) == 1 else 'are'), site_of(f.body))
            else:
                (rep.ok if ok else rep.viol)('lm', key, 'J, J^T J, J^T r and r are recomputed whenever a proposal is accepted' if ok else
                                             'only %s are refreshed after accepting a proposal: the returned covariance is not at the returned point' % sorted(upd), site_of(f.body))
        else:
            rep.undecided('lm', key, 'the point where a proposal is accepted is not read (no copy_from_slice of the parameters)', site_of(f.body), proof=False)
    rep.floor('lm', 3, 'acceptance, covariance, state coherence')
    return {}


def _in_outer_loop_only(f, inc_bb, upd_bb):
    loops = f.cfg.loops()
    inner = [blocks for h, blocks in loops.items() if upd_bb in blocks]
    withinc = [blocks for blocks in inner if inc_bb in blocks]
    return len(withinc) >= 1 and len(inner) > len(withinc)


def _is_lookahead(g, rv, fn, caps=None):
    """closure |(p, u)| *p - momentum * u (momentum read from self or captured as a hoisted local holding self.momentum)"""
    if len(rv) != 1:
        return False
    t = rv[0]
    if caps:
        from ..ir import map_term

        def res(n):
            # a captured scalar local (`let momentum = self.momentum;`) is the field read itself; a captured `self` stays an upvar
            if tag(n) == 'upvar' and n[1] < len(caps) and tag(caps[n[1]]) == 'field':
                c_ = caps[n[1]]
                return ('field', ('upvar', 0, None), c_[2], c_[3])
            return n
        t = map_term(t, res)
    if not (tag(t) == 'call' and short(t[1]) == 'sub' and len(t[2]) == 2):
        return False
    a, b = t[2]
    okp = tag(a) == 'field' and a[2] == 0
    okm = False
    if tag(b) == 'bin' and b[1] == 'Mul' or (tag(b) == 'call' and short(b[1]) == 'mul'):
        xs = (b[2], b[3]) if tag(b) == 'bin' else b[2]
        names = []
        for x in xs:
            if tag(x) == 'field' and tag(x[1]) == 'upvar':
                names.append(fn.get(x[2]))
            elif tag(x) == 'field' and x[2] == 1:
                names.append('u')
        okm = sorted(n or '' for n in names) == ['momentum', 'u']
    return okp and okm


def _early_stop(prog, rep, f, name):
    """Every way out of the optimisation loop is the step limit or the convergence criterion max_i rel_diff(theta_i, previous theta_i) < eps,
    in whatever control-flow idiom (while condition, `loop` with breaks, a `converged` flag or a direct test)."""
    rep.touch(f.body.key)
    maxsteps = ('arg', 5, f.names.get(5))

    def mentions_rel_diff(t, depth=0):
        for z in subterms(t):
            if tag(z) == 'call' and z[1] == 'approx_eq::rel_diff':
                return True
            if tag(z) == 'agg' and z[1] == 'closure' and depth < 3:
                g = prog.func(z[2])
                if g is not None and any(mentions_rel_diff(r, depth + 1) for r in g.return_values()):
                    return True
            if tag(z) == 'local' and depth < 3:
                for st in f.stores():
                    if st.target == z and st.value != z and mentions_rel_diff(st.value, depth + 1):
                        return True
        return False

    def is_criterion(cn):
        """max(rel_diff(..)) < tiny constant"""
        if tag(cn) != 'bin' or cn[1] not in ('Lt', 'Le'):
            return False
        cn = prog.inline(cn, only=lambda p_: p_.startswith('optimize::'))       # the measure may live in a private helper of the optimiser
        a, b = cn[2], cn[3]
        if not (tag(b) == 'const' and isinstance(b[2], float) and 0 < b[2] < 1e-10 and mentions_rel_diff(a)):
            return False
        # the compared quantity is the largest relative change: max(..) directly, or a local holding it
        if (tag(a) == 'call' and a[1] == 'statistics::order::max') or tag(a) == 'local':
            return True
        # the maximum written as a fold: `.fold(seed, |acc, d| f64::max(acc, d))`
        if tag(a) == 'call' and short(a[1]) == 'fold' and len(a[2]) == 3 and tag(a[2][2]) == 'agg' and a[2][2][1] == 'closure':
            gm = prog.func(a[2][2][2])
            rvm = gm.return_values() if gm is not None else []
            if len(rvm) == 1 and tag(rvm[0]) == 'call' and is_f64_method(rvm[0][1]) and f64_method_name(rvm[0][1]) == 'max' and \
                    {z[1] for z in rvm[0][2] if tag(z) == 'arg'} == {2, 3}:
                return True
        return False

    def classify(cn, v):
        """'limit' / 'converged' / 'other' / None(unknown)"""
        if tag(cn) == 'un' and cn[1] == 'Not':
            return classify(cn[2], (not v) if isinstance(v, bool) else v)
        if tag(cn) == 'bin' and cn[1] in ('Lt', 'Le', 'Gt', 'Ge') and maxsteps in (cn[2], cn[3]) and isinstance(v, bool):
            other = cn[3] if cn[2] == maxsteps else cn[2]
            if tag(other) == 'local':
                op = cn[1] if cn[2] == other else {'Lt': 'Gt', 'Le': 'Ge', 'Gt': 'Lt', 'Ge': 'Le'}[cn[1]]      # t op maxsteps
                leaves = (op in ('Ge', 'Gt') and v is True) or (op in ('Lt', 'Le') and v is False)
                return 'limit' if leaves else 'other'
        if is_criterion(cn):
            return 'converged' if v is True else 'other'
        if tag(cn) == 'local' and f.body.local_ty(cn[1]) == 'bool':
            defs = [st for st in f.stores() if st.target == cn]
            if not defs:
                return None
            oks = []
            for st in defs:
                if tag(st.value) == 'const' and st.value[2] is False:
                    oks.append(True)
                elif tag(st.value) == 'const' and st.value[2] is True:
                    oks.append(any(is_criterion(c2) and v2 is True for c2, v2 in f.guards().get(st.bb, [])))
                else:
                    oks.append(is_criterion(st.value))
            if all(oks):
                return 'converged' if v is True else 'other'
            return 'flag-not-criterion'
        if tag(cn) == 'discr':
            return 'skip'
        if tag(cn) == 'bin' and len(cn) > 4 and cn[4] in ('f64', 'f32'):
            # a measure computed by an in-crate helper that is not read (a loop of its own) compared with a tiny constant: not classified
            if cn[1] in ('Lt', 'Le') and tag(cn[3]) == 'const' and isinstance(cn[3][2], float) and 0 < cn[3][2] < 1e-10 and \
                    tag(cn[2]) == 'call' and cn[2][1] in prog.pdb.bodies:
                return None
            return 'other'
        if tag(cn) == 'call' and short(cn[1]) in ('all', 'any'):
            return 'other'
        return None
    loops = f.cfg.loops()
    main = None
    for h, blocks in loops.items():
        if main is None or len(blocks) > len(main[1]):
            main = (h, blocks)
    key = 'early-stop:%s:loop-condition' % name
    key2 = 'early-stop:%s:flag' % name
    if main is None:
        rep.undecided('early-stop', key, 'no optimisation loop found', proof=False)
        rep.undecided('early-stop', key2, 'no optimisation loop found', proof=False)
        return
    blocks = main[1]
    exits = [(cn, v) for s_, d_, cn, v in f.edge_conditions() if s_ in blocks and d_ not in blocks and not f.cfg.only_panics_from(d_)]
    kinds = [(classify(cn, v), cn, v) for cn, v in exits]
    kinds = [k_ for k_ in kinds if k_[0] != 'skip']
    others = [k_ for k_ in kinds if k_[0] == 'other']
    unknown = [k_ for k_ in kinds if k_[0] is None]
    badflag = [k_ for k_ in kinds if k_[0] == 'flag-not-criterion']
    has_limit = any(k_[0] == 'limit' for k_ in kinds)
    # `for t in lo..=maxsteps` / `for _ in 0..maxsteps`: the iterator's exhaustion is the step limit
    for li in f.loop_info():
        if li['header'] == main[0] and li['item'] is not None and tag(li['iter']) in ('range', 'rangeincl') and maxsteps in subterms(li['iter']):
            has_limit = True
        if li['header'] == main[0] and li['item'] is not None and tag(li['iter']) == 'call' and maxsteps in subterms(li['iter']):
            has_limit = True
    has_conv = any(k_[0] == 'converged' for k_ in kinds)
    if others:
        rep.viol('early-stop', key, 'the optimisation loop can also be left when `%s` is %s: the returned point is then not the k-th iterate of the recurrence '
                 '(only the step limit and the convergence criterion may end the run)' % (show(others[0][1])[:80], others[0][2]), site_of(f.body))
    elif unknown:
        rep.undecided('early-stop', key, 'exit condition %s not classified' % show(unknown[0][1])[:80], site_of(f.body), proof=False)
    elif has_limit:
        rep.ok('early-stop', key, 'the loop is left only at the step limit%s' % (' or on convergence' if has_conv else ''))
    else:
        rep.viol('early-stop', key, 'no exit of the optimisation loop tests the step counter against maxsteps', site_of(f.body))
    if badflag:
        rep.viol('early-stop', key2, 'the flag that ends the run (%s) is also set by something other than max_i rel_diff(theta_i, previous theta_i) < EPSILON' % show(badflag[0][1]), site_of(f.body))
    elif has_conv:
        rep.ok('early-stop', key2, 'the run ends early only when max_i rel_diff(theta_i, previous theta_i) < EPSILON')
    else:
        rep.undecided('early-stop', key2, 'no convergence exit recognised', site_of(f.body), proof=False)
