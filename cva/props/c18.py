"""C18 — distributions are a pure function of current parameters and the RNG seed.

Induction over histories: fresh-twin equivalence holds iff after every mutator each field equals what
new(final params) would store.  Decided per struct:
 D1 cache-coherent   every setter that writes a parameter field rewrites each field derived from it, with the
                     constructor's own initialiser (under parameter -> setter-argument substitution)
 D2 setter-agree     every setter validates exactly like the constructor (guards mentioning the parameter)
 D3 update           the bulk update writes every parameter field, through setters / the constructor, and never
                     validates a new value against a sibling field that is overwritten later in the same update
 D4 observers        the structs are Copy (no interior mutability), the crate has no statics, observers take &self
 D5 rng              the only non-std, non-crate callees reachable from any `sample` are alea's generators; no clock,
                     environment, thread or hash-seed source
"""
import re
from ..ir import tag, show, short, subterms, is_panic_path, is_f64_method
from ..structs import StructModel, strip_sites, unname, mentions, canon_guard, show_guard, subst
from ..objstate import ObjModel, gmap, gterms
from ..framework import site_of

LEVEL = 'other'
EXPLANATION = (
    'Typestate/invariant argument over all mutators of the 13 univariate distribution structs, decided on MIR: '
    'constructor initialisers are extracted per field; a setter must re-establish every derived (cached) field with the '
    'constructor\'s initialiser, must validate with the constructor\'s guards, and update() must route every parameter '
    'through these writers without validating against a stale sibling. Together with Copy-ness (no interior '
    'mutability), absence of statics and an allow-list of nondeterminism sources reachable from sample(), this proves '
    'by induction over histories that an object equals a freshly constructed twin. alea\'s own reproducibility is trusted.')

DISTS = ['bernoulli::Bernoulli', 'beta::Beta', 'binomial::Binomial', 'chi_squared::ChiSquared',
         'discreteuniform::DiscreteUniform', 'exponential::Exponential', 'gamma::Gamma', 'gumbel::Gumbel',
         'normal::Normal', 'pareto::Pareto', 'poisson::Poisson', 't::T', 'uniform::Uniform']

NONDET_DENY = ('std::time::', 'std::env::', 'std::thread::', 'std::process::', 'std::fs::', 'std::net::',
               'std::collections::hash', 'std::hash::random', 'std::random', 'core::time', 'std::io::stdin',
               'std::sync::', 'core::sync::', 'std::ptr::', 'core::ptr::')
RNG_ALLOW = ('alea::f64', 'alea::u64', 'alea::i64_in_range', 'alea::f32', 'alea::u32', 'alea::i32_in_range',
             'alea::u64_less_than', 'alea::i64_less_than', 'alea::f64_in_range', 'alea::u64_in_range')


def run(prog, rep, tier, repo):
    pdb = prog.pdb
    n_setters = 0
    for d in DISTS:
        path = 'distributions::' + d
        name = d.split('::')[1]
        if path not in pdb.adts:
            rep.viol('struct-model', 'struct-model:%s' % path, 'distribution struct disappeared')
            continue
        sm = StructModel(prog, path)
        if sm.new is None or sm.inits is None:
            rep.undecided('struct-model', 'struct-model:%s' % path, 'constructor not understood: %s' % sm.undecided)
            continue
        rep.touch(sm.new.body.key)
        rep.ok('struct-model', 'struct-model:%s' % path, 'new(%s): %s' % (
            ', '.join(a or '?' for a in sm.new.body.arg_names()),
            ', '.join('%s := %s' % (sm.fname(i), show(t)) for i, t in sm.inits.items())))
        rep.sample('%s::new: %s | guards: %s' % (name, ', '.join('%s := %s' % (sm.fname(i), show(t)) for i, t in sm.inits.items()),
                                                 '; '.join(show_guard(g) for g in sm.new_guards) or 'none'))
        param_fields = dict(sm.param_of)           # field -> new arg
        derived = {}                               # field -> set of new args it depends on
        for i, t in sm.inits.items():
            if i in param_fields:
                continue
            deps = {al for fi, al in param_fields.items() if mentions(t, sm.new_arg(al))}
            extra = [x for x in subterms(t) if tag(x) == 'arg' and x[1] not in param_fields.values()]
            if extra:
                deps |= {x[1] for x in extra}
            if deps:
                derived[i] = deps
        om = ObjModel(prog, sm)
        # -------------------------------------------------------------- setters
        for st in sm.setters:
            sk = st.body.key
            rep.touch(sk)
            n_setters += 1
            eff = om.effect(st)
            for hk in eff.bodies:
                rep.touch(hk)
            me = ('arg', 1, st.names.get(1))
            W = [fi for fi in eff.state if fi in param_fields]
            if not eff.undec and any(fi in eff.partial for fi in W):
                eff.undec = 'parameter field written on some paths only'
            if eff.undec:
                for fi in (W or ['?']):
                    rep.undecided('setter-agree', 'setter-agree:%s:%s' % (sk, sm.fname(fi) if fi != '?' else '?'),
                                  'effect of %s not read: %s' % (short(sk), eff.undec), site_of(st.body), proof=False)
                for ci, deps in derived.items():
                    if not W or any(param_fields[fi] in deps for fi in W):
                        rep.undecided('cache-coherent', 'cache-coherent:%s:%s' % (sk, sm.fname(ci)),
                                      'effect of %s not read: %s' % (short(sk), eff.undec), site_of(st.body), proof=False)
                continue
            if not W:
                # a mutator that writes no parameter: every field it writes must still hold what new() stores
                pass
            exp, mapping = om.expected(me, eff.state)
            # D1 cache coherence / D1' no field drifts away from its constructor value
            for ci in sorted(set(derived) | (set(eff.state) - set(param_fields))):
                deps = derived.get(ci, set())
                touched = [fi for fi in W if param_fields[fi] in deps]
                got = eff.state.get(ci)
                if got is None and not touched:
                    continue
                key = 'cache-coherent:%s:%s' % (sk, sm.fname(ci))
                want = om.clean(exp[ci])
                if ci in eff.partial and touched:
                    rep.viol('cache-coherent', key, '%s writes %s but rebuilds the derived field `%s` only on some paths (new() initialises it unconditionally as %s): '
                             'on the other paths it keeps the value of the previous parameters' % (
                                 short(sk), ', '.join(sm.fname(f) for f in touched), sm.fname(ci), show(sm.inits[ci])[:60]), site_of(st.body))
                elif got is None:
                    rep.viol('cache-coherent', key, '%s writes %s but leaves the derived field `%s` (initialised in new as %s) '
                             'unchanged: the object differs from a freshly constructed twin' % (
                                 short(sk), ', '.join(sm.fname(f) for f in touched), sm.fname(ci), show(sm.inits[ci])), site_of(st.body))
                elif om.clean(got) == want:
                    rep.ok('cache-coherent', key, '`%s` rebuilt as %s' % (sm.fname(ci), show(got)[:80]))
                elif ci in getattr(eff, 'nested', ()):
                    okn, whyn = om.nested_coherent(ci, got, exp[ci])
                    if okn is True:
                        rep.ok('cache-coherent', key, '`%s` retuned in place through its own setters to what new() builds' % sm.fname(ci))
                    elif okn is False:
                        rep.viol('cache-coherent', key, '%s retunes `%s` in place: %s' % (short(sk), sm.fname(ci), whyn), site_of(st.body))
                    else:
                        rep.undecided('cache-coherent', key, '`%s` retuned in place: %s' % (sm.fname(ci), whyn), site_of(st.body), proof=False)
                elif ci not in derived:
                    rep.viol('cache-coherent', key, '%s overwrites `%s` with %s, but new() initialises it as %s' % (
                        short(sk), sm.fname(ci), show(got)[:80], show(exp[ci])[:80]), site_of(st.body))
                else:
                    rep.viol('cache-coherent', key, '`%s` is rebuilt as %s but new() initialises it as %s' % (
                        sm.fname(ci), show(got)[:80], show(exp[ci])[:80]), site_of(st.body))
            # D2 validation agreement
            for fi in W:
                key = 'setter-agree:%s:%s' % (sk, sm.fname(fi))
                na = sm.new_arg(param_fields[fi])
                v = eff.state[fi]
                want = {om.clean(gmap(g, lambda t: subst(t, mapping))) for g in om.new_guards if any(mentions(x, na) for x in gterms(g))}
                got = {om.clean(g) for g in eff.guards if any(mentions(x, v) for x in gterms(g))}
                opaque = [g for g in got if g[0] == 'cond'] + [('cond', oc, '?') for oc in eff.opaque if mentions(oc, v) or any(mentions(z, v) for z in subterms(oc))]
                if want == got:
                    rep.ok('setter-agree', key, 'validates like new: {%s}' % '; '.join(sorted(show_guard(g) for g in got)) if got else 'unconstrained in new and in the setter')
                elif opaque and not any(g[0] == 'cond' for g in want):
                    # the setter tests the new value through something that is not a plain comparison (partial_cmp + match on the Ordering,
                    # a predicate call): which values pass is not read
                    rep.undecided('setter-agree', key, '%s validates `%s` through %s: the accepted set is not read' % (
                        short(sk), show(v)[:20], '; '.join(show_guard(g)[:60] for g in opaque[:2])), site_of(st.body), proof=False)
                elif om.new_unread:
                    rep.undecided('setter-agree', key, om.new_unread, site_of(st.body), proof=False)
                else:
                    missing = want - got
                    extra = got - want
                    rep.viol('setter-agree', key, '%s validates {%s} but new() requires {%s}%s%s' % (
                        short(sk), '; '.join(sorted(show_guard(g) for g in got)), '; '.join(sorted(show_guard(g) for g in want)),
                        (' — missing: ' + '; '.join(show_guard(g) for g in missing)) if missing else '',
                        (' — stricter: ' + '; '.join(show_guard(g) for g in extra)) if extra else ''), site_of(st.body))
        # -------------------------------------------------------------- update
        uk = '<%s as distributions::Distribution1D>::update' % path
        uf = prog.func(uk)
        if uf is None:
            rep.viol('update', 'update:%s' % path, 'Distribution1D::update impl disappeared')
        else:
            rep.touch(uk)
            _check_update(prog, rep, sm, om, uf, param_fields, derived)
        # -------------------------------------------------------------- D4
        key = 'observers:%s' % path
        adt = sm.adt
        privs = [f['name'] for f in sm.fields if f['pub']]
        if not adt['copy']:
            rep.viol('observers', key, '%s is not Copy: interior mutability / owned caches cannot be excluded' % name)
        elif privs:
            rep.viol('observers', key, 'fields %s are public: they can be assigned without validation or cache rebuild' % privs)
        else:
            bad = []
            for k, b in pdb.bodies.items():
                if b.impl and b.impl['self_ty'] == path and b.impl['trait'] and b.impl['trait'].startswith('distributions::') \
                        and b.name in ('pdf', 'pmf', 'ln_pdf', 'mean', 'var', 'sample') and b.sig and b.sig['inputs'] \
                        and b.sig['inputs'][0].startswith('&mut'):
                    bad.append(k)
            if bad:
                rep.viol('observers', key, 'observers take &mut self: %s' % bad)
            else:
                rep.ok('observers', key, '%s is Copy (no interior mutability), all fields private, observers take &self' % name)
        # -------------------------------------------------------------- D5
        sk = '<%s as distributions::Distribution>::sample' % path
        if sk not in pdb.bodies:
            rep.viol('rng-discipline', 'rng-discipline:%s' % path, 'sample impl disappeared')
        else:
            clo = prog.closure(sk)
            for k in clo:
                rep.touch(k)
            ext = prog.std_callees(clo)
            key = 'rng-discipline:%s' % path
            deny = sorted(p for p in ext if p.startswith(NONDET_DENY))
            foreign = sorted(p for p in ext if not _is_std(p) and not p.startswith('alea::') and p != 'indirect')
            rng = sorted(p for p in ext if p.startswith('alea::'))
            badrng = [p for p in rng if p not in RNG_ALLOW]
            if deny:
                rep.viol('rng-discipline', key, 'sample() reaches a nondeterminism source other than the seeded RNG: %s' % deny, site_of(pdb.bodies[sk]))
            elif badrng:
                rep.viol('rng-discipline', key, 'sample() reaches %s (re-seeding or an unknown alea entry point)' % badrng, site_of(pdb.bodies[sk]))
            elif foreign:
                rep.undecided('rng-discipline', key, 'sample() reaches callees of an unknown crate: %s' % foreign, site_of(pdb.bodies[sk]))
            elif 'indirect' in ext:
                rep.undecided('rng-discipline', key, 'sample() makes an indirect call', site_of(pdb.bodies[sk]))
            elif not rng:
                rep.viol('rng-discipline', key, 'sample() never draws from the RNG', site_of(pdb.bodies[sk]))
            else:
                rep.ok('rng-discipline', key, '%d bodies reachable; RNG sources: %s' % (len(clo), rng))
    check_literals(prog, rep, 'literal-coherent')
    key = 'observers:no-statics'
    if pdb.statics:
        rep.viol('observers', key, 'the crate defines statics: %s' % sorted(pdb.statics))
    else:
        rep.ok('observers', key, 'the crate defines no static items')
    rep.floor('struct-model', 13, 'distribution structs')
    rep.floor('setter-agree', 21, 'parameter writes in setters')
    rep.floor('cache-coherent', 3, 'setters touching a parameter with a derived field (Beta x2, ChiSquared)')
    rep.floor('update', 13, 'update bodies')
    rep.floor('observers', 14, '13 structs + statics')
    rep.floor('rng-discipline', 13, 'sample bodies')
    rep.trusted.append('alea 0.2.2: f64()/u64()/i64_in_range() are deterministic functions of the thread-local seeded state')
    return {}


def _is_std(p):
    q = p.lstrip('<&')
    return q.startswith(('std::', 'core::', 'alloc::')) or ' as std::' in p or ' as core::' in p or p in ('subslice',) \
        or p.startswith('<') and ('std::' in p or 'core::' in p)


def _guard_map(g, f):
    if g[0] == 'cmp':
        a, b = f(g[2]), f(g[3])
        if g[1] in ('Eq', 'Ne') and repr(a) > repr(b):
            a, b = b, a
        return ('cmp', g[1], a, b, g[4], g[5])
    return ('cond', f(g[1]), g[2])


def _check_update(prog, rep, sm, om, uf, param_fields, derived):
    """update(params) must leave the object equal to new(p..) for the parameter values it stores: every parameter field is written,
    every other field holds the constructor's initialiser for those values, and update returns normally exactly under the
    constructor's guards on those values (a guard that still reads a field of the old object is validation against stale state)"""
    path = sm.path
    key = 'update:%s' % path
    eff = om.effect(uf)
    for hk in eff.bodies:
        rep.touch(hk)
    if eff.undec:
        rep.undecided('update', key, 'effect of update() not read: %s' % eff.undec, site_of(uf.body), proof=False)
        return
    me = ('arg', 1, uf.names.get(1))
    missing = [sm.fname(fi) for fi in param_fields if fi not in eff.state]
    if missing:
        rep.viol('update', key, 'update() never writes parameter field(s) %s' % missing, site_of(uf.body))
        return
    exp, mapping = om.expected(me, eff.state)
    problems = []
    unread_nested = []
    for ci in sorted(set(exp) - set(param_fields)):
        got = eff.state.get(ci)
        depends = ci in derived
        if ci in eff.partial and depends:
            problems.append('the derived field `%s` is rebuilt only on some paths' % sm.fname(ci))
        elif got is None:
            if depends:
                problems.append('the derived field `%s` is not rebuilt' % sm.fname(ci))
        elif om.clean(got) != om.clean(exp[ci]):
            if ci in getattr(eff, 'nested', ()):
                okn, whyn = om.nested_coherent(ci, got, exp[ci])
                if okn is False:
                    problems.append('`%s` is retuned in place: %s' % (sm.fname(ci), whyn))
                elif okn is None:
                    unread_nested.append('`%s` retuned in place: %s' % (sm.fname(ci), whyn))
            else:
                problems.append('`%s` is left as %s where new() stores %s' % (sm.fname(ci), show(got)[:60], show(exp[ci])[:60]))
    vals = [eff.state[fi] for fi in param_fields]

    def relevant(g):
        ts = gterms(g)
        return any(mentions(x, v) for x in ts for v in vals) or any(tag(z) == 'field' and z[1] == me for x in ts for z in subterms(x))
    want = {om.clean(gmap(g, lambda t: subst(t, mapping))) for g in om.new_guards}
    got = {om.clean(g) for g in eff.guards if relevant(g)}
    stale = [g for g in got - want if any(tag(z) == 'field' and tag(z[1]) == 'arg' and z[1][1] == 1 for x in gterms(g) for z in subterms(x))]
    opaque = [g for g in got - want if g[0] == 'cond' and g not in stale] + \
        [('cond', oc, '?') for oc in eff.opaque if any(any(z == v_ for z in subterms(oc)) for v_ in vals)]
    if opaque and not stale and (want - got) and not any(g[0] == 'cond' for g in want):
        rep.undecided('update', key, 'a new value is validated through %s: the accepted set is not read' % '; '.join(show_guard(g)[:60] for g in opaque[:2]),
                      site_of(uf.body), proof=False)
        return
    if om.new_unread and not stale and want != got and not problems:
        rep.undecided('update', key, om.new_unread, site_of(uf.body), proof=False)
        return
    if stale:
        problems.append('a new value is validated against a field of the object as it was before the update ({%s}): a valid parameter set can be '
                        'rejected depending on the previous parameters' % '; '.join(show_guard(g) for g in stale))
    elif want - got:
        problems.append('update() does not enforce {%s}, which new() requires' % '; '.join(sorted(show_guard(g) for g in want - got)))
    elif got - want:
        problems.append('update() additionally rejects through {%s}' % '; '.join(sorted(show_guard(g) for g in got - want)))
    if problems:
        rep.viol('update', key, '; '.join(problems), site_of(uf.body))
    elif unread_nested:
        rep.undecided('update', key, '; '.join(unread_nested), site_of(uf.body), proof=False)
    else:
        rep.ok('update', key, 'update() stores %s, every other field as new() would, under the guards of new(): {%s}' % (
            ', '.join('%s := %s' % (sm.fname(fi), show(eff.state[fi])[:30]) for fi in param_fields),
            '; '.join(sorted(show_guard(g) for g in got)) or 'none'))


def check_literals(prog, rep, rule, scope='distributions::'):
    """every struct literal of a distribution with derived fields, written anywhere outside its constructor (`Gamma { alpha: a + 1., ..*self }`
    in a sampler, say), is what new() would build from the literal's own parameters: a derived field is either the constructor's
    initialiser over those parameters, or copied from an object all of whose parameters it depends on are copied with it.  A derived
    field copied from `self` beside a changed parameter is stale.  Returns the number of literals examined."""
    pdb = prog.pdb
    models = {}
    for d in DISTS:
        path = 'distributions::' + d
        if path not in pdb.adts:
            continue
        sm = StructModel(prog, path)
        if sm.new is None or sm.inits is None:
            continue
        param_fields = dict(sm.param_of)
        derived = {}
        for i, t in sm.inits.items():
            if i in param_fields:
                continue
            deps = {fi for fi, al in param_fields.items() if mentions(t, sm.new_arg(al))}
            if deps:
                derived[i] = deps
        if derived:
            models[path] = (sm, ObjModel(prog, sm), param_fields, derived)
    n = 0
    for k, b in sorted(pdb.bodies.items()):
        if not (k.startswith(scope) or k.startswith('<' + scope)):
            continue
        f = prog.func(k)
        if f is None:
            continue
        pool = [st.value for st in f.stores()] + [a for c in f.calls() for a in c.args] + list(f.return_values())
        seen = set()
        for t in pool:
            for z in subterms(t):
                if not (tag(z) == 'agg' and z[1] == 'adt' and z[2] in models) or z in seen:
                    continue
                seen.add(z)
                sm, om, param_fields, derived = models[z[2]]
                if k == z[2] + '::new':
                    continue
                comps = z[3]
                if len(comps) != sm.nfields:
                    continue
                n += 1
                rep.touch(k)
                mapping = {sm.new_arg(al): comps[fi] for fi, al in param_fields.items()}
                for j, deps in sorted(derived.items()):
                    key = '%s:%s:%s.%s' % (rule, short(k), short(z[2]), sm.fname(j))
                    want = om.clean(om.norm(subst(sm.inits[j], mapping)))
                    got = om.clean(om.norm(comps[j]))
                    if got == want:
                        rep.ok(rule, key, '`%s` built as new() builds it' % sm.fname(j))
                        continue
                    cj = comps[j]
                    if tag(cj) == 'field' and cj[2] == j:
                        src = cj[1]
                        changed = [fi for fi in deps if not (tag(comps[fi]) == 'field' and comps[fi][1] == src and comps[fi][2] == fi)]
                        if not changed:
                            rep.ok(rule, key, '`%s` copied together with the parameters it is derived from' % sm.fname(j))
                        else:
                            rep.viol(rule, key, '%s builds a %s with %s = %s but copies the derived field `%s` from %s, where new() computes it as %s from that '
                                     'parameter: the object carries the constants of the old parameter' % (
                                         short(k), short(z[2]), sm.fname(changed[0]), show(comps[changed[0]])[:40], sm.fname(j), show(src)[:20], show(sm.inits[j])[:60]),
                                     site_of(f.body))
                    else:
                        rep.undecided(rule, key, 'derived field `%s` = %s is neither the constructor\'s initialiser nor a copy' % (sm.fname(j), show(cj)[:50]),
                                      site_of(f.body), proof=False)
    rep.ok(rule, '%s:scan' % rule, '%d struct literals of distributions with derived fields outside their constructors' % n)
    return n
