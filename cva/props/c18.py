"""C18 — distributions are a pure function of current parameters and the RNG seed.

Induction over histories: fresh-twin equivalence holds iff after every mutator each field equals what
new(final params) would store.  Decided per struct:
 D1 cache-coherent   every setter that writes a parameter field rewrites each field derived from it, with the
                     constructor's own initialiser (under parameter -> setter-argument substitution)
 D2 setter-agree     every setter validates exactly like the constructor (guards mentioning the parameter)
 D3 update           the bulk update writes every parameter field, through setters / the constructor, and never
                     validates a new value against a sibling field that is overwritten later in the same update
 D4 observers        the structs are Copy (no interior mutability), the crate has no statics, observers take &self
 D5 rng              the only non-std, non-crate callees reachable from any `sample` are alea's generators; no clock,
                     environment, thread or hash-seed source
"""
import re
from ..ir import tag, show, short, subterms, is_panic_path, is_f64_method
from ..structs import StructModel, strip_sites, unname, mentions, canon_guard, show_guard, subst
from ..framework import site_of

LEVEL = 'other'
EXPLANATION = (
    'Typestate/invariant argument over all mutators of the 13 univariate distribution structs, decided on MIR: '
    'constructor initialisers are extracted per field; a setter must re-establish every derived (cached) field with the '
    'constructor\'s initialiser, must validate with the constructor\'s guards, and update() must route every parameter '
    'through these writers without validating against a stale sibling. Together with Copy-ness (no interior '
    'mutability), absence of statics and an allow-list of nondeterminism sources reachable from sample(), this proves '
    'by induction over histories that an object equals a freshly constructed twin. alea\'s own reproducibility is trusted.')

DISTS = ['bernoulli::Bernoulli', 'beta::Beta', 'binomial::Binomial', 'chi_squared::ChiSquared',
         'discreteuniform::DiscreteUniform', 'exponential::Exponential', 'gamma::Gamma', 'gumbel::Gumbel',
         'normal::Normal', 'pareto::Pareto', 'poisson::Poisson', 't::T', 'uniform::Uniform']

NONDET_DENY = ('std::time::', 'std::env::', 'std::thread::', 'std::process::', 'std::fs::', 'std::net::',
               'std::collections::hash', 'std::hash::random', 'std::random', 'core::time', 'std::io::stdin',
               'std::sync::', 'core::sync::', 'std::ptr::', 'core::ptr::')
RNG_ALLOW = ('alea::f64', 'alea::u64', 'alea::i64_in_range', 'alea::f32', 'alea::u32', 'alea::i32_in_range',
             'alea::u64_less_than', 'alea::i64_less_than', 'alea::f64_in_range', 'alea::u64_in_range')


def run(prog, rep, tier, repo):
    pdb = prog.pdb
    n_setters = 0
    for d in DISTS:
        path = 'distributions::' + d
        name = d.split('::')[1]
        if path not in pdb.adts:
            rep.viol('struct-model', 'struct-model:%s' % path, 'distribution struct disappeared')
            continue
        sm = StructModel(prog, path)
        if sm.new is None or sm.inits is None:
            rep.undecided('struct-model', 'struct-model:%s' % path, 'constructor not understood: %s' % sm.undecided)
            continue
        rep.touch(sm.new.body.key)
        rep.ok('struct-model', 'struct-model:%s' % path, 'new(%s): %s' % (
            ', '.join(a or '?' for a in sm.new.body.arg_names()),
            ', '.join('%s := %s' % (sm.fname(i), show(t)) for i, t in sm.inits.items())))
        rep.sample('%s::new: %s | guards: %s' % (name, ', '.join('%s := %s' % (sm.fname(i), show(t)) for i, t in sm.inits.items()),
                                                 '; '.join(show_guard(g) for g in sm.new_guards) or 'none'))
        param_fields = dict(sm.param_of)           # field -> new arg
        derived = {}                               # field -> set of new args it depends on
        for i, t in sm.inits.items():
            if i in param_fields:
                continue
            deps = {al for fi, al in param_fields.items() if mentions(t, sm.new_arg(al))}
            extra = [x for x in subterms(t) if tag(x) == 'arg' and x[1] not in param_fields.values()]
            if extra:
                deps |= {x[1] for x in extra}
            if deps:
                derived[i] = deps
        # every constructor argument initialises a field by identity or only feeds derived fields
        # -------------------------------------------------------------- setters
        setter_of_field = {}
        for st in sm.setters:
            sk = st.body.key
            rep.touch(sk)
            n_setters += 1
            w = sm.writes(st)
            written_params = {}
            for fi, stores in w.items():
                if fi in param_fields:
                    for s in stores:
                        if tag(s.value) == 'arg':
                            written_params[fi] = s.value
            for fi in written_params:
                setter_of_field.setdefault(fi, []).append(st)
            # D1 cache coherence
            for ci, deps in derived.items():
                touched = [fi for fi in written_params if param_fields[fi] in deps]
                if not touched:
                    continue
                key = 'cache-coherent:%s:%s' % (sk, sm.fname(ci))
                want = unname(strip_sites(sm.translate_new_term(sm.inits[ci], st, written_params)))
                got = [unname(strip_sites(s.value)) for s in w.get(ci, [])]
                # the write must happen on every path that performs the parameter write
                if not got:
                    rep.viol('cache-coherent', key, '%s writes %s but leaves the derived field `%s` (initialised in new as %s) '
                             'unchanged: the object differs from a freshly constructed twin' % (
                                 short(sk), ', '.join(sm.fname(f) for f in touched), sm.fname(ci), show(sm.inits[ci])), site_of(st.body))
                elif all(g == want for g in got) and _dominates_exit(st, w[ci]):
                    rep.ok('cache-coherent', key, '`%s` rebuilt as %s' % (sm.fname(ci), show(got[0])))
                elif all(g == want for g in got):
                    rep.viol('cache-coherent', key, '`%s` is rebuilt only on some paths of %s' % (sm.fname(ci), short(sk)), site_of(st.body))
                else:
                    rep.viol('cache-coherent', key, '`%s` is rebuilt as %s but new() initialises it as %s' % (
                        sm.fname(ci), show(got[0]), show(want)), site_of(st.body))
            # D2 validation agreement
            for fi, argt in written_params.items():
                key = 'setter-agree:%s:%s' % (sk, sm.fname(fi))
                na = sm.new_arg(param_fields[fi])
                want = set()
                for g in sm.new_guards:
                    gt = g[2:4] if g[0] == 'cmp' else (g[1],)
                    if any(mentions(x, na) for x in gt):
                        want.add(_guard_map(g, lambda t: unname(strip_sites(sm.translate_new_term(t, st, written_params)))))
                got = set()
                store_bb = w[fi][0].bb
                for g in sm.guards_at(st, store_bb):
                    gt = g[2:4] if g[0] == 'cmp' else (g[1],)
                    if any(mentions(x, argt) for x in gt):
                        got.add(_guard_map(g, lambda t: unname(strip_sites(t))))
                if want == got:
                    rep.ok('setter-agree', key, 'validates like new: {%s}' % '; '.join(sorted(show_guard(g) for g in got)) if got else 'unconstrained in new and in the setter')
                else:
                    missing = want - got
                    extra = got - want
                    rep.viol('setter-agree', key, '%s validates {%s} but new() requires {%s}%s%s' % (
                        short(sk), '; '.join(sorted(show_guard(g) for g in got)), '; '.join(sorted(show_guard(g) for g in want)),
                        (' — missing: ' + '; '.join(show_guard(g) for g in missing)) if missing else '',
                        (' — stricter: ' + '; '.join(show_guard(g) for g in extra)) if extra else ''), site_of(st.body))
            # setters must not write anything that is not a parameter or a derived field rebuild
            for fi, stores in w.items():
                if fi not in param_fields and fi not in derived:
                    rep.viol('cache-coherent', 'cache-coherent:%s:%s' % (sk, sm.fname(fi)),
                             '%s overwrites `%s`, which new() initialises independently of the parameters' % (short(sk), sm.fname(fi)), site_of(st.body))
        # every parameter field has a setter? (not required by the property) -> info only
        # -------------------------------------------------------------- update
        uk = '<%s as distributions::Distribution1D>::update' % path
        uf = prog.func(uk)
        if uf is None:
            rep.viol('update', 'update:%s' % path, 'Distribution1D::update impl disappeared')
        else:
            rep.touch(uk)
            _check_update(prog, rep, sm, uf, param_fields, derived)
        # -------------------------------------------------------------- D4
        key = 'observers:%s' % path
        adt = sm.adt
        privs = [f['name'] for f in sm.fields if f['pub']]
        if not adt['copy']:
            rep.viol('observers', key, '%s is not Copy: interior mutability / owned caches cannot be excluded' % name)
        elif privs:
            rep.viol('observers', key, 'fields %s are public: they can be assigned without validation or cache rebuild' % privs)
        else:
            bad = []
            for k, b in pdb.bodies.items():
                if b.impl and b.impl['self_ty'] == path and b.impl['trait'] and b.impl['trait'].startswith('distributions::') \
                        and b.name in ('pdf', 'pmf', 'ln_pdf', 'mean', 'var', 'sample') and b.sig and b.sig['inputs'] \
                        and b.sig['inputs'][0].startswith('&mut'):
                    bad.append(k)
            if bad:
                rep.viol('observers', key, 'observers take &mut self: %s' % bad)
            else:
                rep.ok('observers', key, '%s is Copy (no interior mutability), all fields private, observers take &self' % name)
        # -------------------------------------------------------------- D5
        sk = '<%s as distributions::Distribution>::sample' % path
        if sk not in pdb.bodies:
            rep.viol('rng-discipline', 'rng-discipline:%s' % path, 'sample impl disappeared')
        else:
            clo = prog.closure(sk)
            for k in clo:
                rep.touch(k)
            ext = prog.std_callees(clo)
            key = 'rng-discipline:%s' % path
            deny = sorted(p for p in ext if p.startswith(NONDET_DENY))
            foreign = sorted(p for p in ext if not _is_std(p) and not p.startswith('alea::') and p != 'indirect')
            rng = sorted(p for p in ext if p.startswith('alea::'))
            badrng = [p for p in rng if p not in RNG_ALLOW]
            if deny:
                rep.viol('rng-discipline', key, 'sample() reaches a nondeterminism source other than the seeded RNG: %s' % deny, site_of(pdb.bodies[sk]))
            elif badrng:
                rep.viol('rng-discipline', key, 'sample() reaches %s (re-seeding or an unknown alea entry point)' % badrng, site_of(pdb.bodies[sk]))
            elif foreign:
                rep.undecided('rng-discipline', key, 'sample() reaches callees of an unknown crate: %s' % foreign, site_of(pdb.bodies[sk]))
            elif 'indirect' in ext:
                rep.undecided('rng-discipline', key, 'sample() makes an indirect call', site_of(pdb.bodies[sk]))
            elif not rng:
                rep.viol('rng-discipline', key, 'sample() never draws from the RNG', site_of(pdb.bodies[sk]))
            else:
                rep.ok('rng-discipline', key, '%d bodies reachable; RNG sources: %s' % (len(clo), rng))
    key = 'observers:no-statics'
    if pdb.statics:
        rep.viol('observers', key, 'the crate defines statics: %s' % sorted(pdb.statics))
    else:
        rep.ok('observers', key, 'the crate defines no static items')
    rep.floor('struct-model', 13, 'distribution structs')
    rep.floor('setter-agree', 21, 'parameter writes in setters')
    rep.floor('cache-coherent', 3, 'setters touching a parameter with a derived field (Beta x2, ChiSquared)')
    rep.floor('update', 13, 'update bodies')
    rep.floor('observers', 14, '13 structs + statics')
    rep.floor('rng-discipline', 13, 'sample bodies')
    rep.trusted.append('alea 0.2.2: f64()/u64()/i64_in_range() are deterministic functions of the thread-local seeded state')
    return {}


def _is_std(p):
    q = p.lstrip('<&')
    return q.startswith(('std::', 'core::', 'alloc::')) or ' as std::' in p or ' as core::' in p or p in ('subslice',) \
        or p.startswith('<') and ('std::' in p or 'core::' in p)


def _guard_map(g, f):
    if g[0] == 'cmp':
        a, b = f(g[2]), f(g[3])
        if g[1] in ('Eq', 'Ne') and repr(a) > repr(b):
            a, b = b, a
        return ('cmp', g[1], a, b, g[4], g[5])
    return ('cond', f(g[1]), g[2])


def _dominates_exit(f, stores):
    """some store in `stores` lies on every path to a return"""
    cfg = f.cfg
    for r in cfg.returns:
        if not any(cfg.dominates(s.bb, r) for s in stores):
            return False
    return True


def _check_update(prog, rep, sm, uf, param_fields, derived):
    path = sm.path
    uk = uf.body.key
    key = 'update:%s' % path
    calls = [c for c in uf.calls() if c.path in prog.pdb.bodies]
    order = sorted(calls, key=lambda c: uf.cfg.rpo().index(c.bb))
    written = []
    seq = []
    for c in order:
        if c.path == path + '::new':
            # *self = Self::new(..): trivially equal to a fresh twin
            st = [s for s in uf.stores() if tag(s.target) == 'arg' and s.target[1] == 1]
            whole = any(s.value == c.term and False for s in st)
            written = list(param_fields)
            seq.append(('new', c))
            continue
        g = prog.func(c.path)
        if g.body.impl and g.body.impl['self_ty'] == path and g.body.impl['trait'] is None:
            w = sm.writes(g)
            fields = [fi for fi in w if fi in param_fields]
            seq.append(('setter', c, g, fields))
            written += fields
    direct = sm.writes(uf)
    for fi in direct:
        if fi in param_fields or fi in derived:
            rep.viol('update', key + ':direct-write', 'update() assigns `%s` directly, bypassing validation/cache rebuild' % sm.fname(fi), site_of(uf.body))
    if any(k == 'new' for k, *_ in seq):
        # accept `*self = Self::new(a, b)` only if the result is stored to *self
        ok = any(tag(s.target) == 'arg' and s.target[1] == 1 and tag(s.value) == 'call' and s.value[1] == path + '::new' for s in uf.stores())
        if ok:
            rep.ok('update', key, 'update() replaces *self by Self::new(..): identical to a fresh twin by construction')
        else:
            rep.undecided('update', key, 'update() calls new() but does not assign the result to *self', site_of(uf.body))
        return
    missing = [sm.fname(fi) for fi in param_fields if fi not in written]
    if missing:
        rep.viol('update', key, 'update() never writes parameter field(s) %s' % missing, site_of(uf.body))
        return
    # stale-sibling validation: setter A reads field g in a guard, a later setter writes g
    problems = []
    for i, item in enumerate(seq):
        if item[0] != 'setter':
            continue
        _, c, g, fields = item
        reads = set()
        for s in g.stores():
            pass
        for bb, gl in g.guards().items():
            for cnd, v in gl:
                for x in subterms(cnd):
                    if tag(x) == 'field' and tag(x[1]) == 'arg' and x[1][1] == 1:
                        reads.add(x[2])
        for later in seq[i + 1:]:
            if later[0] == 'setter':
                both = [f for f in later[3] if f in reads and f not in fields]
                for f in both:
                    problems.append((short(c.path), sm.fname(f), short(later[1].path)))
    if problems:
        a, fld, b = problems[0]
        rep.viol('update', key, 'update() calls %s, which validates the new value against the *old* `%s`, before %s overwrites `%s`: '
                 'a valid parameter pair can be rejected depending on the previous parameters' % (a, fld, b, fld), site_of(uf.body))
    else:
        rep.ok('update', key, 'update() routes %s through %s' % ([sm.fname(f) for f in param_fields], [short(x[1].path) for x in seq]))
