"""C13 — autocorrelation, AR fitting and forecasting are consistent.

D1 evenness: in acovf/acf the lag is used only through abs(k) (so both are even in the lag).
D2 scale types: acovf X^2, acf 1 (E-SYM).
D3 Yule-Walker: coeffs = invert(toeplitz(r[0..p])) . r[1..=p] with autocorrelations r[t] = acf(centred data, t) for t in 0..=p,
   and the coefficient vector is reversed exactly once before it is dotted with the oldest->newest history.
D4 intercept = mean(data).
D5 acf = lag-k biased autocovariance / lag-0 autocovariance: both sums share the centred-product form, so acf(.,0) = 1.
D6 difference: out[i] = v[i+1] - v[i] for i in 0..len-1.
D7 forecasting recursion runs on the mean-centred history and the mean is added back (shift equivariance): every use of the
   raw data in predict / predict_one is of the form (value - intercept).
Not decided: |acf| <= 1, convergence of forecasts."""
from ..ir import tag, show, short, subterms
from ..elem import ElemEngine, show_expr, has_top, top_reasons
from ..sym import SymInfer, Ty, unit
from ..poly import poly, peq, psub, pconst
from ..framework import site_of

LEVEL = 'other'
EXPLANATION = (
    'Dependency and wiring rules on MIR terms and on closed forms from the element abstraction: the lag parameter reaches the computation only '
    'through abs(); the Yule-Walker pipeline is matched as matmul(invert_matrix(toeplitz(r[..n])), r[1..], n, n, false, false) over acf values of '
    'the centred series with exactly one reversal between fit and the dot product of the forecast step; forecast expressions may mention the raw '
    'data only as (value - intercept), which is necessary and sufficient for adding a constant to the series to add it to every forecast; '
    'differencing has the index relation out[i] = v[i+1] - v[i]. Magnitude bounds of the autocorrelation are numerical and not decided.')

TF = 'timeseries::functions::'
AR = 'timeseries::autoregressive::AR'
S = frozenset([('sym', 'SELF')])
D = frozenset([('sym', 'DATA')])


def run(prog, rep, tier, repo):
    pdb = prog.pdb
    eng = ElemEngine(prog)
    # ------------------------------------------------------------------ D1 evenness
    for name in ('acovf', 'acf'):
        k = TF + name
        f = prog.func(k)
        key = 'even-in-lag:%s' % name
        if f is None:
            rep.viol('even-in-lag', key, 'function disappeared')
            continue
        rep.touch(k)
        karg = ('arg', 2, f.names.get(2))
        bad = []
        uses = _lag_uses(prog, rep, f, karg, bad, 0)
        if bad:
            rep.viol('even-in-lag', key, '%s uses the lag outside abs(): %s — the function is then not even in the lag' % (name, show(bad[0])[:120]), site_of(f.body))
        elif uses == 0:
            rep.viol('even-in-lag', key, '%s does not use its lag argument at all' % name, site_of(f.body))
        else:
            rep.ok('even-in-lag', key, 'the lag is read only through abs(k) (%d uses)' % uses)
    rep.floor('even-in-lag', 2, 'acovf, acf')

    # ------------------------------------------------------------------ D1' the lagged sum starts at |k| itself
    # biased estimator: sum over i = |k| .. n-1 of (x_i - m)(x_{i-|k|} - m); for |k| >= n the sum is empty and the value 0.  The lower limit
    # of the summation range (or the number of skipped leading elements) must be |k| and nothing else: a clamped lag (min(|k|, n-1)) gives the
    # single-pair value where 0 is due
    for name in ('acovf', 'acf'):
        k = TF + name
        f = prog.func(k)
        key = 'lag-window:%s' % name
        if f is None:
            continue
        found = _lag_limits(prog, f, ('arg', 2, f.names.get(2)), 0)
        if not found:
            rep.undecided('lag-window', key, 'no summation range / skip count depending on the lag found', site_of(f.body), proof=False)
            continue
        bad = [(what, t) for what, t, exact in found if not exact]
        if bad:
            rep.viol('lag-window', key, '%s starts its lagged sum at %s, which is not |k| itself: for lags where the two differ (|k| >= n after a clamp) the '
                     'biased-estimator value (0 for |k| >= n) is not returned' % (name, show(bad[0][1])[:60]), site_of(f.body))
        else:
            rep.ok('lag-window', key, 'the lagged sum starts at |k| (%s)' % ', '.join(w for w, _, _ in found))
    rep.floor('lag-window', 2, 'acovf, acf')

    # the same clause on exact witnesses: whatever way the summation range of acovf is written (from |k| up, or from 0 up to n - lag), it holds
    # max(0, n - |k|) terms for every series length n and lag k -- none when |k| >= n
    from ..precond import tev as _tev, Frame as _Frame, Uneval as _Uneval, _nk as _nk_, NC as _NC
    f = prog.func(TF + 'acovf')
    key = 'lag-count:acovf'
    if f is not None:
        rngs = []
        for c in f.calls():
            for a in c.args:
                for z in subterms(a):
                    if tag(z) == 'range' and z not in rngs:
                        rngs.append(z)
        karg = ('arg', 2, f.names.get(2))
        rngs = [z for z in rngs if karg in list(subterms(z))]
        if len(rngs) != 1:
            rep.undecided('lag-count', key, '%d summation ranges depending on the lag' % len(rngs), site_of(f.body), proof=False)
        else:
            ncx_ = _NC(prog)
            bad, used = None, 0
            for n0 in (1, 2, 3, 5, 8):
                for k0 in (-9, -5, -3, -1, 0, 1, 2, 4, 7, 8):
                    env = {_nk_(('len', ('arg', 1, None))): n0, _nk_(('arg', 2, None)): k0}
                    ctx = _Frame(f, env=env, ncx=ncx_)
                    try:
                        lo, hi = _tev(rngs[0][1], ctx), _tev(rngs[0][2], ctx)
                    except _Uneval:
                        continue
                    used += 1
                    cnt = max(0, hi - lo)
                    want = max(0, n0 - abs(k0))
                    if cnt != want:
                        bad = (n0, k0, cnt, want, lo, hi)
                        break
                if bad:
                    break
            if bad:
                rep.viol('lag-count', key, 'acovf of a series of length %d at lag %d sums over %s..%s = %d term(s); the biased estimator has %d (an empty sum, value 0, once '
                         '|k| >= n)' % (bad[0], bad[1], bad[4], bad[5], bad[2], bad[3]), site_of(f.body))
            elif used:
                rep.ok('lag-count', key, 'the summation range holds max(0, n - |k|) terms on %d (n, k) witnesses' % used)
            else:
                rep.undecided('lag-count', key, 'range bounds not evaluated', site_of(f.body), proof=False)
    rep.floor('lag-count', 1, 'acovf')

    # ------------------------------------------------------------------ D2 scale types + D5
    seeds = {('sym', 'DATA'): Ty(unit('X', 1))}
    forms = {}
    for name, want in (('acovf', unit('X', 2)), ('acf', {})):
        k = TF + name
        if k not in pdb.bodies:
            continue
        ret, _ = eng.result_of(k, {1: D, 2: frozenset([('int',)])})
        forms[name] = ret
        key = 'homogeneity:%s' % name
        if has_top(ret):
            rep.undecided('homogeneity', key, 'closed form not extracted', proof=False)
            continue
        inf = SymInfer(seeds)
        t = inf.infer_set(ret)
        if inf.problems:
            rep.viol('homogeneity', key, '%s is not homogeneous: %s' % (name, '; '.join(inf.problems)[:300]), site_of(pdb.bodies[k]))
        elif t is not None and t.dim != want:
            rep.viol('homogeneity', key, '%s has scale type [%s], expected [%s]' % (name, t, Ty(want)), site_of(pdb.bodies[k]))
        elif t is None:
            rep.undecided('homogeneity', key, 'not inferred', proof=False)
        else:
            rep.ok('homogeneity', key, '%s : [%s]' % (name, t))
    rep.floor('homogeneity', 2, 'acovf, acf')
    key = 'acf-normalised'
    a, c = forms.get('acf'), forms.get('acovf')
    if a is not None and c is not None and len(a) == 1 and len(c) == 1 and not has_top(a) and not has_top(c):
        ea, ec = next(iter(a)), next(iter(c))

        def flat(e):
            """multiplicative normal form: (numerator factors, denominator factors), literal 1.0 dropped"""
            if isinstance(e, tuple) and e[0] == 'b' and e[1] == 'Mul':
                n1, d1 = flat(e[2]); n2, d2 = flat(e[3])
                return n1 + n2, d1 + d2
            if isinstance(e, tuple) and e[0] == 'b' and e[1] == 'Div':
                n1, d1 = flat(e[2]); n2, d2 = flat(e[3])
                return n1 + d2, d1 + n2
            if e == ('c', 1.0):
                return [], []
            return [e], []

        def cancel(n, d):
            n, d = list(n), list(d)
            for x in list(n):
                if x in d:
                    n.remove(x); d.remove(x)
            return n, d
        na, da = cancel(*flat(ea))
        nc, dc = cancel(*flat(ec))
        # acf = S_k / S_0 after cancelling the common 1/n; acovf = S_k / n with the same S_k
        ok = len(na) == 1 and len(da) == 1 and na[0][0] == 'red' and da[0][0] == 'red' and len(nc) == 1 and nc[0] == na[0]
        okd = False
        if ok:
            sk = [x for x in na[0][2]]
            s0 = [x for x in da[0][2]]
            if len(sk) == 1 and len(s0) == 1 and sk[0][0] == 'b' and sk[0][1] == 'Mul' and sk[0][2] == sk[0][3] and sk[0][2][0] == 'b' and sk[0][2][1] == 'Sub':
                cen = sk[0][2]
                okd = (s0[0][0] == 'm' and s0[0][1] == 'powi' and s0[0][2] == cen) or (s0[0] == sk[0])
        if ok and okd:
            rep.ok('acf-normalised', key, 'acf = acovf form / (sum (x - mean)^2 / n): numerator at lag 0 equals the denominator, so acf(., 0) = 1')
        else:
            rep.viol('acf-normalised', key, 'acf is not the lag-k autocovariance divided by the lag-0 autocovariance of the same centred products: %s' % show_expr(ea)[:300],
                     site_of(pdb.bodies[TF + 'acf']))
    else:
        rep.undecided('acf-normalised', key, 'closed forms not available')
    rep.floor('acf-normalised', 1, 'acf')

    # ------------------------------------------------------------------ D6 difference
    k = TF + 'difference'
    f = prog.func(k)
    key = 'difference'
    if f is None:
        rep.viol('difference', key, 'function disappeared')
    else:
        rep.touch(k)
        v = ('arg', 1, f.names.get(1))
        cls = pdb.closures_of(k)
        ok = False
        why = ''
        read = False          # the written form is the read one: a map over an index range whose closure combines two indexed reads of one base
        if len(cls) == 1:
            g = prog.func(cls[0].key)
            rv = g.return_values()
            i = ('arg', 2, g.names.get(2))
            rng = [z for c in f.calls() for a_ in c.args for z in subterms(a_) if tag(z) == 'range']
            if len(rv) == 1 and tag(rv[0]) == 'bin' and rv[0][4] in ('f64', 'f32') and tag(rv[0][2]) == 'index' and tag(rv[0][3]) == 'index' \
                    and rv[0][2][1] == rv[0][3][1] and len(set(rng)) == 1 and not any(c.path and c.path in pdb.bodies and '{closure#' not in c.path for c in f.calls()):
                read = True
            if len(rv) == 1 and tag(rv[0]) == 'bin' and rv[0][1] == 'Sub':
                a, b = rv[0][2], rv[0][3]
                oka = tag(a) == 'index' and peq(psub(poly(a[2]), poly(i)), {(): 1})
                okb = tag(b) == 'index' and peq(poly(b[2]), poly(i)) and a[1] == b[1]
                ok = oka and okb
                why = show(rv[0])
            okr = any(tag(z[1]) == 'const' and z[1][2] == 0 and peq(poly(z[2]), {(('len', v),): 1, (): -1}) for z in rng)
            ok = ok and okr
        if ok:
            rep.ok('difference', key, 'out[i] = v[i+1] - v[i] for i in 0..len-1')
        elif read:
            rep.viol('difference', key, 'difference is not v[i+1] - v[i] over 0..len-1 (%s)' % why, site_of(f.body))
        else:
            rep.undecided('difference', key, 'difference is not written as a map over an index range combining v[i+1] and v[i] (%s): not read' % (why or 'no single closure'),
                          site_of(f.body), proof=False)
    rep.floor('difference', 1, 'difference')

    # ------------------------------------------------------------------ D3 / D4 fit
    f = prog.func(AR + '::fit')
    if f is None:
        rep.viol('yule-walker', 'yule-walker:fit', 'AR::fit disappeared')
    else:
        rep.touch(f.body.key)
        me = ('arg', 1, f.names.get(1))
        data = ('arg', 2, f.names.get(2))
        fields = {fl['name']: i for i, fl in enumerate(pdb.adts[AR]['variants'][0]['fields'])}
        w = {}
        for s in f.stores():
            if tag(s.target) == 'field' and s.target[1] == me:
                w.setdefault(s.target[2], []).append(s)
        key = 'intercept-is-mean'
        iv = w.get(fields['intercept'], [])
        ok = len(iv) == 1 and iv[0].value == ('call', 'statistics::moments::mean', (data,), None)
        # refuted in the read forms only: the one stored value is a literal, an element of the data, a parameter, or a direct call of a
        # statistics:: function other than mean(data); a mean computed inline (sum / len, a fold) is not read
        def _definite(v):
            if tag(v) in ('const', 'index', 'arg'):
                return True
            return tag(v) == 'call' and v[1].startswith('statistics::') and v != ('call', 'statistics::moments::mean', (data,), None)
        if ok:
            rep.ok('intercept-is-mean', key, 'intercept := mean(data)')
        elif len(iv) == 1 and _definite(iv[0].value):
            rep.viol('intercept-is-mean', key, 'intercept is %s' % [show(s.value)[:80] for s in iv], site_of(f.body))
        else:
            rep.undecided('intercept-is-mean', key, 'intercept is %s: not a direct call of mean(data), not read' % [show(s.value)[:80] for s in iv], site_of(f.body), proof=False)
        key = 'yule-walker:fit'
        cv = w.get(fields['coeffs'], [])
        verdict, msg = _yule_walker(prog, eng, f, me, data, fields, cv)
        {'ok': rep.ok, 'viol': rep.viol}.get(verdict, lambda r, k, m, site=None: rep.undecided(r, k, m, site, proof=False))(
            'yule-walker', key, msg, site_of(f.body))
    rep.floor('yule-walker', 1, 'AR::fit')
    rep.floor('intercept-is-mean', 1, 'AR::fit')

    # ------------------------------------------------------------------ D7 forecasting on centred history
    fields = {fl['name']: i for i, fl in enumerate(pdb.adts[AR]['variants'][0]['fields'])} if AR in pdb.adts else {}
    icpt = ('fld', ('sym', 'SELF'), fields.get('intercept', 2))
    for name in ('predict', 'predict_one'):
        k = AR + '::' + name
        key = 'centred-forecast:%s' % name
        if k not in pdb.bodies:
            rep.viol('centred-forecast', key, 'method disappeared')
            continue
        rep.touch(k)
        ret, _ = eng.result_of(k, {1: S, 2: D, 3: frozenset([('int',)])})
        if has_top(ret):
            rep.undecided('centred-forecast', key, 'closed form not extracted: %s' % sorted(top_reasons(ret))[:2], proof=False)
            continue
        raw = []
        for e in ret:
            _raw_uses(e, icpt, raw)
        adds = all(_adds_intercept(e, icpt) for e in ret)
        if raw:
            rep.viol('centred-forecast', key, 'AR::%s feeds raw data into the AR recursion (%s): forecasts are mean + sum(phi*y) instead of mean + sum(phi*(y - mean)), so adding a '
                     'constant c to the series changes every forecast by (1 + sum phi)*c instead of c' % (name, show_expr(raw[0])[:100]), site_of(pdb.bodies[k]))
        elif not adds:
            rep.viol('centred-forecast', key, 'AR::%s does not add the intercept back: %s' % (name, show_expr(ret)[:200]), site_of(pdb.bodies[k]))
        else:
            rep.ok('centred-forecast', key, 'recursion on (y - intercept), intercept added back: %s' % show_expr(ret)[:160])
            rep.sample('AR::%s => %s' % (name, show_expr(ret)[:200]))
    rep.floor('centred-forecast', 2, 'predict, predict_one')
    # the forecast step dots the history with coeffs without a further reversal
    for kk in eng.visited:
        rep.touch(kk)
    # ---- the fit and the autocovariances use every observation: a value filter on the way must keep every finite value
    from ..precond import check_data_filters
    check_data_filters(prog, rep, 'data-filter', sorted(k for k, b in prog.pdb.bodies.items() if k.startswith('timeseries::') and b.kind != 'closure'),
                       what='so the series that is fitted is not the series that was given')
    rep.floor('data-filter', 1, 'scan of timeseries::')
    return {}


def _subexprs(e):
    if isinstance(e, frozenset):
        for x in e:
            yield from _subexprs(x)
        return
    if not isinstance(e, tuple):
        return
    yield e
    for x in e[1:]:
        if isinstance(x, (tuple, frozenset)):
            yield from _subexprs(x)


def _raw_uses(e, icpt, out):
    """occurrences of DATA that are not the left operand of Sub(DATA, intercept)"""
    if isinstance(e, frozenset):
        for x in e:
            _raw_uses(x, icpt, out)
        return
    if not isinstance(e, tuple):
        return
    if e == ('sym', 'DATA'):
        out.append(e)
        return
    if e[0] == 'b' and e[1] == 'Sub' and e[2] == ('sym', 'DATA') and e[3] == icpt:
        return
    if e[0] == 'b' and ('sym', 'DATA') in (e[2], e[3]) and not (e[1] == 'Sub' and e[3] == icpt):
        out.append(e)
    for x in e[1:]:
        if isinstance(x, (tuple, frozenset)):
            _raw_uses(x, icpt, out)


def _adds_intercept(e, icpt):
    return e[0] == 'b' and e[1] == 'Add' and icpt in (e[2], e[3])


def _lag_limits(prog, f, karg, depth):
    """[(what, term, is_exactly_abs_k)] for every summation lower limit / skip count in f (its closures and the helpers the lag is handed
    to) that depends on the lag parameter"""
    pdb = prog.pdb
    out = []

    def strip(t):
        while tag(t) == 'cast':
            t = t[2]
        return t

    def is_abs_k(t, leafs):
        t = strip(t)
        # abs(k) directly, or a single-definition local holding it (inlined), possibly cast
        return tag(t) == 'call' and t[1].endswith('::abs') and len(t[2]) == 1 and strip(t[2][0]) in leafs
    bodies = [(f, {karg})]
    for b in pdb.closures_of(f.body.key):
        g = prog.func(b.key)
        leafs = set()
        for t in [a for c in f.calls() for a in c.args]:
            for z in subterms(t):
                if tag(z) == 'agg' and z[1] == 'closure' and z[2] == b.key:
                    for i, u in enumerate(z[3]):
                        if karg in list(subterms(u)):
                            leafs.add(('upvar', i))
        bodies.append((g, leafs))
    for g, leafs in bodies:
        def mentions(t, leafs=leafs):
            return any(z in leafs or (tag(z) == 'upvar' and ('upvar', z[1]) in leafs) for z in subterms(t))

        def leafset(leafs=leafs):
            return leafs | {z for z in leafs}
        for c in g.calls():
            for a in c.args:
                for z in subterms(a):
                    if tag(z) == 'range' and mentions(z[1]):
                        lf = {q for q in subterms(z[1]) if q in leafs or (tag(q) == 'upvar' and ('upvar', q[1]) in leafs)}
                        out.append(('range from %s' % show(z[1])[:30], z[1], is_abs_k(z[1], lf)))
            if c.path and short(c.path) == 'skip' and len(c.args) == 2 and mentions(c.args[1]):
                lf = {q for q in subterms(c.args[1]) if q in leafs or (tag(q) == 'upvar' and ('upvar', q[1]) in leafs)}
                out.append(('skip(%s)' % show(c.args[1])[:30], c.args[1], is_abs_k(c.args[1], lf)))
            if c.path in pdb.bodies and depth < 3 and g is f:
                for i, a in enumerate(c.args):
                    if a == karg:
                        h = prog.func(c.path)
                        out += _lag_limits(prog, h, ('arg', i + 1, h.names.get(i + 1)), depth + 1)
    # de-duplicate
    seen = []
    for o in out:
        if o not in seen:
            seen.append(o)
    return seen


def _lag_uses(prog, rep, f, karg, bad, depth):
    """number of uses of parameter `karg` in f, its closures and the in-crate helpers it is handed to unchanged; uses that are not
    directly under abs() are appended to bad.  Handing the raw lag to an in-crate helper is a use judged inside the helper."""
    pdb = prog.pdb
    k = f.body.key
    bodies = [f] + [prog.func(b.key) for b in pdb.closures_of(k)]
    uses = 0
    for g in bodies:
        rep.touch(g.body.key)
        # in closures the lag is an upvar: find which upvar carries it
        leaf = karg
        if g is not f:
            leaf = None
            for t in [a for c in f.calls() for a in c.args]:
                for z in subterms(t):
                    if tag(z) == 'agg' and z[1] == 'closure' and z[2] == g.body.key:
                        for i, u in enumerate(z[3]):
                            if u == karg:
                                leaf = ('upvar', i)
            if leaf is None:
                continue

        def is_leaf(z, leaf=leaf):
            return z == leaf or (tag(leaf) == 'upvar' and tag(z) == 'upvar' and z[1] == leaf[1])
        terms = [s.value for s in g.stores()] + g.return_values() + [cn for gl in g.guards().values() for cn, v in gl]
        for c in g.calls():
            if c.path and c.path.endswith('::abs'):
                continue
            if c.path in pdb.bodies and depth < 3 and any(is_leaf(a) for a in c.args):
                # the raw lag handed to an in-crate helper: judged by what the helper does with that parameter
                h = prog.func(c.path)
                for i, a in enumerate(c.args):
                    if is_leaf(a):
                        uses += _lag_uses(prog, rep, h, ('arg', i + 1, h.names.get(i + 1)), bad, depth + 1)
                    else:
                        terms.append(a)
                continue
            terms += list(c.args)
        # a value that merely contains such a helper call (1/n * helper(ts, m, k)) repeats the call's arguments: drop them there
        def strip_helper_calls(t, is_leaf=is_leaf):
            from ..ir import map_term

            def f_(n):
                if tag(n) == 'call' and n[1] in pdb.bodies and not n[1].endswith('::abs') and any(is_leaf(a) for a in n[2]):
                    return ('call', n[1], tuple(('const', 'usize', 0) if is_leaf(a) else a for a in n[2]), n[3])
                return n
            return map_term(t, f_)
        for t in terms:
            uses += _count_outside_abs(strip_helper_calls(t), leaf, bad)
    return uses


def _count_outside_abs(t, leaf, bad):
    """number of uses of leaf; uses not directly under abs() are appended to bad"""
    n = 0

    def is_leaf(z):
        if z == leaf:
            return True
        return tag(leaf) == 'upvar' and tag(z) == 'upvar' and z[1] == leaf[1]

    def walk(z, under_abs):
        nonlocal n
        if is_leaf(z):
            n += 1
            if not under_abs:
                bad.append(t)
            return
        if not isinstance(z, tuple):
            return
        k = tag(z)
        if k == 'call' and z[1].endswith('::abs') and len(z[2]) == 1:
            walk(z[2][0], True)
            return
        if k == 'agg' and z[1] == 'closure':
            return          # captures are followed into the closure body separately
        if k == 'cast':
            walk(z[2], under_abs)
            return
        for x in z[1:]:
            if isinstance(x, tuple):
                if x and isinstance(x[0], tuple):
                    for y in x:
                        walk(y, False)
                else:
                    walk(x, False)
    walk(t, False)
    return n


def _slice_nf(t):
    """(base, lo, hi) of a contiguous sub-slice term (lo/hi are terms, None = start/end); a term that is no slicing form is the
    whole object (t, None, None)"""
    k = tag(t)
    if k == 'index' and tag(t[2]) == 'agg' and t[2][2]:
        nm = t[2][2]
        a = t[2][3]
        b0, lo0, hi0 = _slice_nf(t[1])
        if lo0 is None and hi0 is None:
            if 'RangeFrom' in nm and len(a) == 1:
                return (b0, a[0], None)
            if 'RangeToInclusive' in nm or 'RangeInclusive' in nm:
                return None
            if 'RangeTo' in nm and len(a) == 1:
                return (b0, None, a[0])
            if 'RangeFull' in nm:
                return (b0, None, None)
            if nm.endswith('Range') and len(a) == 2:
                return (b0, a[0], a[1])
        return None
    if k == 'index' and tag(t[2]) == 'range':
        b0, lo0, hi0 = _slice_nf(t[1])
        if lo0 is None and hi0 is None:
            return (b0, t[2][1], t[2][2])
        return None
    if k == 'field' and tag(t[1]) == 'call' and short(t[1][1]) == 'split_at' and len(t[1][2]) == 2 and t[2] in (0, 1):
        r = _slice_nf(t[1][2][0])
        if r is None or r[1] is not None or r[2] is not None:
            return None
        return (r[0], None, t[1][2][1]) if t[2] == 0 else (r[0], t[1][2][1], None)
    if k == 'call' and short(t[1]) in ('deref', 'as_slice', 'borrow', 'as_ref') and len(t[2]) == 1:
        return _slice_nf(t[2][0])
    if k == 'call' and short(t[1]) in ('split_at', 'split_first', 'split_last', 'get', 'chunks', 'windows'):
        return None
    return (t, None, None)


def _yule_walker(prog, eng, f, me, data, fields, cv):
    """coeffs = (odd number of reversals of) matmul(invert_matrix(toeplitz(r[0..p])), r[1..=p], p, p, false, false) with
    r[t] = acf(series, t) for t = 0..=p, series = data or data - constant (acf centres its argument itself, so it is invariant under
    shifts).  Returns ('ok'|'viol'|'undecided', message): 'viol' only where a recognised part is positively different."""
    from ..elem import Env
    P = ('field', me, fields['p'], 'usize')
    if len(cv) != 1:
        return ('undecided', 'coeffs written %d times in fit' % len(cv))
    t = cv[0].value
    # ---- reversal parity along the value chain, plus in-place reverse() calls on the stored field or on the chain
    nrev = 0
    chain = [t]
    while tag(t) == 'call' and t[1] != 'linalg::utils::matmul':
        nm = short(t[1])
        if nm == 'rev':
            nrev += 1
        elif nm == 'map' and len(t[2]) == 2 and tag(t[2][1]) == 'agg' and t[2][1][1] == 'closure':
            # an element-wise transformation between the solution of the system and the stored coefficients: anything but a copy changes them
            g_ = prog.func(t[2][1][2])
            rv_ = g_.return_values() if g_ is not None else []
            x_ = ('arg', 2, g_.names.get(2)) if g_ is not None else None
            ident = len(rv_) == 1 and (rv_[0] == x_ or (tag(rv_[0]) == 'deref' and rv_[0][1] == x_))
            if not ident:
                nonlin = [short(z[1]) for r_ in rv_ for z in subterms(r_) if tag(z) == 'call' and short(z[1]) in ('clamp', 'min', 'max', 'abs', 'signum', 'round', 'floor', 'ceil')]
                if nonlin:
                    return ('viol', 'the solution of the Yule-Walker system is passed through %s before it is stored: the stored coefficients no longer solve the '
                                    'equations whenever that changes a value (a true coefficient of magnitude >= the bound)' % nonlin[0])
                return ('undecided', 'coefficients are transformed element-wise before they are stored (%s)' % show(rv_[0])[:40] if rv_ else 'map closure not read')
        elif nm not in ('collect', 'into_iter', 'iter', 'cloned', 'copied', 'to_vec', 'clone', 'to_owned', 'from', 'into', 'deref', 'as_slice'):
            return ('undecided', 'coefficient pipeline step %s not read' % nm)
        if not t[2]:
            return ('undecided', 'coefficient pipeline step %s not read' % nm)
        t = t[2][0]
        chain.append(t)
    if not (tag(t) == 'call' and t[1] == 'linalg::utils::matmul'):
        return ('undecided', 'coeffs are not recognised as a matmul(..) result: %s' % show(t)[:60])
    cf = ('field', me, fields['coeffs'], 'std::vec::Vec<f64>')
    for c in f.calls():
        if c.path and short(c.path) == 'reverse' and c.args and (c.args[0] == cf or c.args[0] in chain):
            nrev += 1
    Rinv, r, n1, n2, fa, fb = t[2]
    for fl in (fa, fb):
        if tag(fl) != 'const':
            return ('undecided', 'matmul transpose flags are not literals')
    if fa[2] is not False or fb[2] is not False:
        return ('viol', 'matmul flags are not (false, false)')
    if tag(Rinv) == 'call' and Rinv[1] == 'linalg::utils::toeplitz':
        return ('viol', 'left factor is toeplitz(..) itself, not its inverse')
    if not (tag(Rinv) == 'call' and Rinv[1] == 'linalg::utils::invert_matrix'):
        return ('undecided', 'left factor %s not read' % show(Rinv)[:50])
    tz = Rinv[2][0]
    if not (tag(tz) == 'call' and tz[1] == 'linalg::utils::toeplitz'):
        return ('undecided', 'inverted matrix %s not read' % show(tz)[:50])
    A = _slice_nf(tz[2][0])
    B = _slice_nf(r)
    if A is None or B is None:
        return ('undecided', 'autocorrelation slices not read')
    ac = B[0]
    if A[0] != ac:
        return ('undecided', 'Toeplitz entries and right-hand side come from different sequences')
    # ---- ac = acf(series, t) for t in 0..=p
    if not (tag(ac) == 'call' and short(ac[1]) == 'collect' and tag(ac[2][0]) == 'call' and short(ac[2][0][1]) == 'map'):
        return ('undecided', 'autocorrelation sequence %s not read' % show(ac)[:50])
    it, cl = ac[2][0][2]
    while tag(it) == 'call' and short(it[1]) == 'into_iter':
        it = it[2][0]

    def lin(x, depth=0):
        """x as a*p + b over the model order p; None if not of that form"""
        k = tag(x)
        if k == 'const' and isinstance(x[2], int) and not isinstance(x[2], bool):
            return (0, x[2])
        if x == P:
            return (1, 0)
        if k == 'cast':
            return lin(x[2], depth)
        if k == 'bin' and x[1] in ('Add', 'Sub'):
            u, v = lin(x[2], depth), lin(x[3], depth)
            if u is None or v is None:
                return None
            sg = 1 if x[1] == 'Add' else -1
            return (u[0] + sg * v[0], u[1] + sg * v[1])
        if k == 'len' and depth < 3:
            nf = _slice_nf(x[1])
            if nf is None or nf[0] != ac:
                return None
            lo = (0, 0) if nf[1] is None else lin(nf[1], depth + 1)
            hi = cnt if nf[2] is None else lin(nf[2], depth + 1)
            if lo is None or hi is None:
                return None
            return (hi[0] - lo[0], hi[1] - lo[1])
        return None

    cnt = None
    if tag(it) == 'rangeincl':
        lo_, hi_ = lin(it[1]), lin(it[2])
        if lo_ is not None and hi_ is not None:
            start, cnt = lo_, (hi_[0] - lo_[0], hi_[1] - lo_[1] + 1)
    elif tag(it) == 'range':
        lo_, hi_ = lin(it[1]), lin(it[2])
        if lo_ is not None and hi_ is not None:
            start, cnt = lo_, (hi_[0] - lo_[0], hi_[1] - lo_[1])
    if cnt is None:
        return ('undecided', 'lag range %s not read' % show(it)[:50])
    if start != (0, 0) or cnt != (1, 1):
        return ('viol', 'autocorrelations are computed for lags %s, not 0..=p' % show(it)[:50])
    g = prog.func(cl[2]) if tag(cl) == 'agg' and cl[1] == 'closure' else None
    rv = g.return_values() if g is not None else []
    if not (len(rv) == 1 and tag(rv[0]) == 'call' and len(rv[0][2]) == 2):
        return ('undecided', 'lag closure not read')
    if rv[0][1] != TF + 'acf':
        if rv[0][1] == TF + 'acovf':
            return ('viol', 'Yule-Walker system built from autocovariances of mixed normalisation (acovf), not acf')
        return ('undecided', 'lag closure calls %s' % short(rv[0][1]))
    ser, lag = rv[0][2]
    while tag(lag) == 'cast':
        lag = lag[2]
    if lag != ('arg', 2, g.names.get(2)):
        return ('undecided', 'lag argument %s not read' % show(lag)[:40])
    while tag(ser) in ('deref',) or (tag(ser) == 'call' and short(ser[1]) in ('deref', 'as_slice')):
        ser = ser[1] if tag(ser) == 'deref' else ser[2][0]
    if tag(ser) == 'upvar' and ser[1] < len(cl[3]):
        ser = cl[3][ser[1]]
    elif tag(ser) == 'upvar':
        return ('undecided', 'series captured by the lag closure not found')
    nf = _slice_nf(ser)
    if nf is None:
        return ('undecided', 'series %s not read' % show(ser)[:50])
    if nf[1] is not None or nf[2] is not None:
        return ('viol', 'autocorrelations are taken over a sub-range of the series: %s' % show(ser)[:60])
    Dm = frozenset([('sym', 'DATA')])
    env = Env(f, {1: frozenset([('sym', 'SELF')]), 2: Dm}, {})
    content = Dm if nf[0] == data else eng.content(env, nf[0])
    if content is None or isinstance(content, tuple) or has_top(content):
        return ('undecided', 'content of the series passed to acf not read')
    for e in content:
        if e == ('sym', 'DATA'):
            continue
        if isinstance(e, tuple) and e[0] == 'b' and e[1] == 'Sub' and e[2] == ('sym', 'DATA') and e[3] != ('sym', 'DATA'):
            continue
        if isinstance(e, tuple) and e[0] == 'b' and e[1] == 'Add' and ('sym', 'DATA') in (e[2], e[3]) and e[2] != e[3]:
            continue
        return ('viol', 'autocorrelations are taken over %s, not over the (shifted) series' % show_expr(frozenset([e]))[:80])
    # ---- slices and sizes
    problems = []
    undec = []

    def expect(what, x, want, default):
        v = default if x is None else lin(x)
        if v is None:
            undec.append('%s %s not read' % (what, show(x)[:40]))
        elif v != want:
            problems.append('%s is %s, expected %s' % (what, show(x)[:40] if x is not None else 'the default', _lin_show(want)))
    expect('start of the right-hand side slice', B[1], (0, 1), (0, 0))
    expect('end of the right-hand side slice', B[2], (1, 1), (1, 1))
    expect('start of the Toeplitz slice', A[1], (0, 0), (0, 0))
    expect('end of the Toeplitz slice', A[2], (1, 0), (1, 1))
    expect('matmul row count', n1, (1, 0), None)
    expect('matmul inner dimension', n2, (1, 0), None)
    if nrev % 2 != 1:
        problems.append('coefficients are reversed %d times in fit (history is oldest->newest, so an odd number of reversals is needed)' % nrev)
    if problems:
        return ('viol', '; '.join(problems))
    if undec:
        return ('undecided', '; '.join(undec))
    return ('ok', 'coeffs = invert_matrix(toeplitz(r[..p])) . r[1..=p], r[t] = acf(series, t) for t in 0..=p, reversed %d time(s)' % nrev)


def _lin_show(v):
    a, b = v
    if a == 0:
        return str(b)
    s = 'p' if a == 1 else '%d*p' % a
    return s if b == 0 else '%s%+d' % (s, b)


def _is_range_from(t, lo):
    return tag(t) == 'agg' and t[2] and 'RangeFrom' in t[2] and len(t[3]) == 1 and tag(t[3][0]) == 'const' and t[3][0][2] == lo


def _is_range_to(t, hi):
    return tag(t) == 'agg' and t[2] and 'RangeTo' in t[2] and len(t[3]) == 1 and t[3][0] == hi


def _iter_of(it, x):
    while tag(it) == 'call' and short(it[1]) in ('iter', 'into_iter'):
        it = it[2][0]
    return it == x
