"""C02 — densities and mass functions are proper and match the stated mean and variance.

D1 homogeneity (E-SYM): pdf/ln_pdf/cdf/mean/var of the scale/location/rate families have the scale type of the law
   (pdf X^-1, mean X, var X^2, cdf 1, ln_pdf ln X^-1) under the units of their parameters.
D3 support: every bounded-support pdf/pmf returns the literal 0 on a branch that compares its argument with the bound,
   and no narrowing arithmetic on the argument (casts to unsigned, n - k) is evaluated before that test.
D4 non-negativity of every pdf/pmf under the constructor invariants (interval evaluation).
D5 no integer division feeding an int->float cast inside Mean/Variance impls.
D6 an overriding ln_pdf equals ln(pdf) after log-normalisation; the default is pdf().ln().
D8 named mathematical constants have the value their name states (E-TAB).
D9 the factorial normaliser of the Poisson law is formed the same way in pmf and in the sampler's acceptance test.
Not decided: dimensionless factors/exponents (e.g. Student-t exponent), total mass 1, textbook equality beyond these."""
import math
import re
from fractions import Fraction
from ..ir import tag, show, short, subterms, is_f64_method, f64_method_name
from ..elem import ElemEngine, show_expr, has_top, top_reasons
from ..sym import SymInfer, Ty, unit, d_show, ep_const
from ..structs import StructModel, canon_guard, show_guard
from ..absint import AbsEval, Iv, Val, TOPIV, INF
from ..framework import site_of

LEVEL = 'other'
EXPLANATION = (
    'Type-like inference over the closed forms extracted from MIR by the element abstraction: every value gets a scale type '
    '{unit: exponent}, exponents being polynomials in named dimensionless parameters; +,-,comparison unify, * and / add/subtract, powf scales by '
    'the exponent, exp/gamma/erf need dimensionless arguments and ln carries a log-offset. A conflict refutes homogeneity of the declared '
    'degree (pdf X^-1, mean X, var X^2). Support guards, integer-division-before-cast, non-negativity under constructor invariants '
    '(interval domain), ln_pdf vs pdf, named constants and the Poisson normaliser cross-check are separate structural rules. Dimensionless '
    'errors are invisible to this analysis and are not claimed.')

DS = 'distributions::'
S = frozenset([('sym', 'SELF')])
X = frozenset([('sym', 'X')])

# struct -> {field: (unit power of X, is dimensionless parameter name or None)}
SEEDS = {
    'normal::Normal': {'mu': 1, 'sigma': 1},
    'gamma::Gamma': {'alpha': 0, 'beta': -1},
    'exponential::Exponential': {'lambda': -1},
    'uniform::Uniform': {'lower': 1, 'upper': 1},
    'pareto::Pareto': {'alpha': 0, 'minval': 1},
    'gumbel::Gumbel': {'mu': 1, 'beta': 1},
    'beta::Beta': {'alpha': 0, 'beta': 0},
    'chi_squared::ChiSquared': {},
    't::T': {'dof': 0},
    'poisson::Poisson': {'lambda': 0},
    'binomial::Binomial': {'p': 0},
    'bernoulli::Bernoulli': {'p': 0},
}
X_POWER = {'normal::Normal': 1, 'gamma::Gamma': 1, 'exponential::Exponential': 1, 'uniform::Uniform': 1, 'pareto::Pareto': 1, 'gumbel::Gumbel': 1}

SUPPORT = {   # struct -> (trait, method)
    'gamma::Gamma': ('Continuous', 'pdf'), 'beta::Beta': ('Continuous', 'pdf'), 'chi_squared::ChiSquared': ('Continuous', 'pdf'),
    'exponential::Exponential': ('Continuous', 'pdf'), 'pareto::Pareto': ('Continuous', 'pdf'), 'uniform::Uniform': ('Continuous', 'pdf'),
    'poisson::Poisson': ('Discrete', 'pmf'), 'binomial::Binomial': ('Discrete', 'pmf'), 'bernoulli::Bernoulli': ('Discrete', 'pmf'),
    'discreteuniform::DiscreteUniform': ('Discrete', 'pmf'),
}

ALL = ['bernoulli::Bernoulli', 'beta::Beta', 'binomial::Binomial', 'chi_squared::ChiSquared', 'discreteuniform::DiscreteUniform',
       'exponential::Exponential', 'gamma::Gamma', 'gumbel::Gumbel', 'normal::Normal', 'pareto::Pareto', 'poisson::Poisson', 't::T', 'uniform::Uniform']


def run(prog, rep, tier, repo):
    pdb = prog.pdb
    eng = ElemEngine(prog)
    # ------------------------------------------------------------------ D1 homogeneity
    for d, fields in SEEDS.items():
        path = DS + d
        if path not in pdb.adts:
            rep.viol('homogeneity', 'homogeneity:%s' % d, 'struct disappeared')
            continue
        fl = pdb.adts[path]['variants'][0]['fields']
        seeds = {}
        params = {}
        for i, f in enumerate(fl):
            e = ('fld', ('sym', 'SELF'), i)
            if f['name'] in fields:
                p = fields[f['name']]
                seeds[e] = Ty(unit('X', p) if p else {})
                if p == 0:
                    params[e] = f['name']
            elif f['ty'] in ('usize', 'u64', 'i64'):
                seeds[e] = Ty()
        xp = X_POWER.get(d, 0)
        seeds[('sym', 'X')] = Ty(unit('X', xp) if xp else {})
        if xp == 0:
            params[('sym', 'X')] = 'x'
        name = d.split('::')[1]
        observables = [('Continuous', 'pdf', Ty(unit('X', -xp) if xp else {})), ('Continuous', 'ln_pdf', Ty({}, unit('X', -xp) if xp else {})),
                       ('Discrete', 'pmf', Ty()), ('Mean', 'mean', Ty(unit('X', xp) if xp else {})), ('Variance', 'var', Ty(unit('X', 2 * xp) if xp else {}))]
        for tr, m, want in observables:
            k = '<%s as %s%s>::%s' % (path, DS, tr, m)
            if k not in pdb.bodies:
                continue
            rep.touch(k)
            key = 'homogeneity:%s::%s' % (name, m)
            ret, _ = eng.result_of(k, {1: S, 2: X})
            if has_top(ret):
                rep.undecided('homogeneity', key, 'closed form not extracted: %s' % sorted(top_reasons(ret)), proof=False)
                continue
            inf = SymInfer(seeds, params)
            t = inf.infer_set(ret, '%s::%s: ' % (name, m))
            if inf.problems:
                rep.viol('homogeneity', key, '%s::%s = %s is not homogeneous: %s' % (name, m, show_expr(ret)[:200], '; '.join(inf.problems)), site_of(pdb.bodies[k]))
            elif t is None:
                rep.undecided('homogeneity', key, 'type not inferred (%s)' % inf.unknown[:2], proof=False)
            elif not t.poly and (t.dim != want.dim or t.log != want.log):
                rep.viol('homogeneity', key, '%s::%s = %s has scale type [%s] but a %s of this law has [%s] (parameters: %s; argument x: %s): the formula cannot be the '
                         'textbook one' % (name, m, show_expr(ret)[:200], t, m, want, ', '.join('%s:X^%d' % (a, b) for a, b in fields.items()) or 'dimensionless', 'X^%d' % xp),
                         site_of(pdb.bodies[k]))
            else:
                rep.ok('homogeneity', key, '%s::%s : [%s]' % (name, m, t))
                if len(rep.samples) < 14:
                    rep.sample('%s::%s = %s : [%s]' % (name, m, show_expr(ret)[:140], t))
        if d == 'normal::Normal':
            k = path + '::cdf'
            if k in pdb.bodies:
                ret, _ = eng.result_of(k, {1: S, 2: X})
                inf = SymInfer(seeds, params)
                t = inf.infer_set(ret)
                key = 'homogeneity:Normal::cdf'
                if inf.problems or (t is not None and (t.dim or t.log)):
                    rep.viol('homogeneity', key, 'Normal::cdf = %s: %s' % (show_expr(ret)[:200], '; '.join(inf.problems) or 'scale type [%s], expected dimensionless' % t), site_of(pdb.bodies[k]))
                elif t is None:
                    rep.undecided('homogeneity', key, 'not inferred', proof=False)
                else:
                    rep.ok('homogeneity', key, 'Normal::cdf = %s : dimensionless' % show_expr(ret)[:120])
    rep.floor('homogeneity', 30, 'observables of the 12 seeded families')

    # ------------------------------------------------------------------ D3 support guards
    for d, (tr, m) in SUPPORT.items():
        path = DS + d
        k = '<%s as %s%s>::%s' % (path, DS, tr, m)
        name = d.split('::')[1]
        key = 'support-guard:%s::%s' % (name, m)
        f = prog.func(k)
        if f is None:
            rep.viol('support-guard', key, 'method disappeared')
            continue
        rep.touch(k)
        x = ('arg', 2, f.names.get(2))
        zero_sites = []
        for dd in f._defs.get(0, []):
            if dd[0] == 'assign':
                v = f.rvalue_term(dd[3], dd[1])
                if tag(v) == 'const' and v[2] == 0.0:
                    zero_sites.append(dd[1])
        def cond_on_arg(cn, depth=0):
            # the condition mentions the argument, directly or through a flag / Option local whose definitions are themselves
            # control dependent on the argument
            if any(z == x for z in subterms(cn)):
                return True
            if depth >= 3:
                return False
            for z in subterms(cn):
                if tag(z) == 'local':
                    for st_ in f.stores():
                        if st_.target == z and (any(q == x for q in subterms(st_.value)) or
                                                any(cond_on_arg(c2, depth + 1) for c2 in f.control_conds(st_.bb))):
                            return True
            return False
        guarded = []
        for bb in zero_sites:
            if any(cond_on_arg(cn) for cn in f.control_conds(bb)):
                guarded.append(bb)
        if not zero_sites:
            rep.viol('support-guard', key, '%s::%s has no branch that returns 0: outside the support it evaluates the formula '
                     '(or fails) instead of returning 0' % (name, m), site_of(f.body))
            continue
        if not guarded:
            rep.undecided('support-guard', key, 'a literal 0 is returned but its dependence on the argument was not traced', site_of(f.body), proof=False)
            continue
        # no narrowing arithmetic on x outside the guarded region: casts to unsigned / subtraction from unsigned before the test
        bad = []
        entry_guards = set()
        for bi in f.cfg.nodes:
            blk = f.body.blocks[bi]
            xg = any(cond_on_arg(cn) for cn in f.control_conds(bi)) or any(cond_on_arg(cn) for cn, _ in f.guards().get(bi, []))
            if xg:
                continue
            for st in blk.stmts:
                if st.kind == 'assign' and st.rv.kind == 'cast' and st.rv.op == 'IntToInt' and st.rv.ty.startswith('u') and st.rv.from_ty.startswith('i'):
                    t = f.rvalue_term(st.rv, bi)
                    if any(z == x for z in subterms(t)):
                        bad.append('`%s` before any test of the argument' % show(t))
        if bad:
            rep.viol('support-guard', key, '%s::%s narrows its argument (%s): a negative count wraps around instead of giving probability 0' % (name, m, bad[0]), site_of(f.body))
        else:
            rep.ok('support-guard', key, 'returns 0.0 under a test of the argument; no narrowing cast precedes it')
    rep.floor('support-guard', 10, 'bounded-support laws')

    # ------------------------------------------------------------------ D5 integer division before a float cast
    n5 = 0
    for k, b in sorted(pdb.bodies.items()):
        if not (b.impl and b.impl['trait'] in (DS + 'Mean', DS + 'Variance') and b.impl['self_ty'].startswith(DS)):
            continue
        f = prog.func(k)
        n5 += 1
        rep.touch(k)
        key = 'int-division:%s' % k
        bad = []
        for r in f.return_values():
            for z in subterms(r):
                if tag(z) == 'cast' and z[1] == 'IntToFloat':
                    for y in subterms(z[2]):
                        if tag(y) == 'bin' and y[1] == 'Div' and y[4] != 'f64':
                            bad.append(y)
        if bad:
            rep.viol('int-division', key, 'the moment is computed with integer division `%s` and only then converted to f64: the fractional part is lost '
                     '(DiscreteUniform(0,1) reports mean 0 instead of 0.5)' % show(bad[0]), site_of(b))
        else:
            rep.ok('int-division', key, 'no integer division under an int->float cast')
    rep.floor('int-division', 26, 'Mean/Variance impls')

    # ------------------------------------------------------------------ D4 non-negativity
    for d in ALL:
        path = DS + d
        name = d.split('::')[1]
        for tr, m in (('Continuous', 'pdf'), ('Discrete', 'pmf')):
            k = '<%s as %s%s>::%s' % (path, DS, tr, m)
            f = prog.func(k)
            if f is None:
                continue
            key = 'non-negative:%s::%s' % (name, m)
            _check_nonneg(prog, rep, f, path, key, name, m)
    rep.floor('non-negative', 13, 'pdf/pmf of the 13 laws')

    # ------------------------------------------------------------------ D4' total: "returns 0 (rather than failing) outside the support"
    # no evaluation point may make a density / mass function unable to return: the necessary conditions of normal return (own asserts and
    # the preconditions of every callee on the way, e.g. a domain assert in ln_gamma) are refuted on exact witnesses over the argument
    # and the parameters the constructor admits
    from ..precond import check_returns
    keys = []
    for d in ALL:
        for tr, ms in (('Continuous', ('pdf', 'ln_pdf')), ('Discrete', ('pmf', 'ln_pmf'))):
            for m in ms:
                k = '<%s as %s%s>::%s' % (DS + d, DS, tr, m)
                if k in pdb.bodies:
                    keys.append(k)
    check_returns(prog, rep, 'total', keys, what='where the property requires a value (0 outside the support)')
    rep.floor('total', 13, 'pdf/pmf of the 13 laws')

    # ------------------------------------------------------------------ D6 ln_pdf
    k = DS + 'Continuous::ln_pdf'
    f = prog.func(k)
    key = 'ln-pdf:default'
    if f is None:
        rep.viol('ln-pdf', key, 'default ln_pdf disappeared')
    else:
        rep.touch(k)
        rets = f.return_values()
        ok = len(rets) == 1 and tag(rets[0]) == 'call' and rets[0][1].endswith('::ln') and tag(rets[0][2][0]) == 'call' and rets[0][2][0][1] == DS + 'Continuous::pdf' \
            and rets[0][2][0][2] == (('arg', 1, f.names.get(1)), ('arg', 2, f.names.get(2)))
        # refuted in the read form only: one returned value built from calls of f64 methods and of Continuous::pdf on (self, x), nothing else
        cz = [z for r in rets for z in subterms(r) if tag(z) == 'call']
        fm = [f64_method_name(z[1]) for z in cz if is_f64_method(z[1])]
        read = len(rets) == 1 and any(z[1] == DS + 'Continuous::pdf' for z in cz) and all(z[1] == DS + 'Continuous::pdf' or is_f64_method(z[1]) for z in cz) and \
            (not any(m in ('ln', 'log', 'ln_1p') for m in fm) or (len(cz) == 2 and fm == ['ln']))
        if ok:
            rep.ok('ln-pdf', key, 'default ln_pdf(x) = pdf(x).ln()')
        elif read:
            rep.viol('ln-pdf', key, 'default ln_pdf is %s' % [show(r) for r in rets], site_of(f.body))
        else:
            rep.undecided('ln-pdf', key, 'default ln_pdf is not an expression in pdf(x) alone (%s): not read' % [show(r)[:80] for r in rets], site_of(f.body), proof=False)
    path = DS + 'normal::Normal'
    kp, kl = '<%s as %sContinuous>::pdf' % (path, DS), '<%s as %sContinuous>::ln_pdf' % (path, DS)
    key = 'ln-pdf:Normal'
    if kp in pdb.bodies and kl in pdb.bodies:
        a, _ = eng.result_of(kp, {1: S, 2: X})
        b, _ = eng.result_of(kl, {1: S, 2: X})
        if len(a) == 1 and len(b) == 1 and not has_top(a) and not has_top(b):
            la = lnorm(('m', 'ln', next(iter(a))))
            lb = lnorm(next(iter(b)))
            if la == lb:
                rep.ok('ln-pdf', key, 'Normal::ln_pdf == ln(Normal::pdf) after log-normalisation (%d terms)' % len(la))
            else:
                rep.viol('ln-pdf', key, 'Normal::ln_pdf differs from ln(pdf): ln(pdf) ~ %s, ln_pdf ~ %s' % (_show_l(la), _show_l(lb)), site_of(pdb.bodies[kl]))
        else:
            rep.undecided('ln-pdf', key, 'closed forms not extracted', proof=False)
    rep.floor('ln-pdf', 2, 'default + Normal override')

    # ------------------------------------------------------------------ D8 named constants
    NAMED = {
        DS + 'gumbel::PISQ6': (math.pi ** 2 / 6, 'pi^2/6'),
        DS + 'gumbel::EULER_MASCHERONI': (0.5772156649015329, 'the Euler-Mascheroni constant'),
    }
    for path, (val, what) in NAMED.items():
        key = 'named-constant:%s' % path
        if path not in pdb.consts:
            rep.info('named-constant', key, 'constant no longer exists')
            continue
        v = pdb.const_value(path)
        if v is not None and abs(v - val) <= 4e-16 * abs(val):
            rep.ok('named-constant', key, '%s = %r = %s' % (short(path), v, what))
        else:
            rep.viol('named-constant', key, 'the constant %s is %r but its name says %s = %r (the Gumbel variance pi^2/6 * beta^2 is computed with it)' % (
                short(path), v, what, val), site_of(pdb.consts[path]['span']))
    rep.floor('named-constant', 2, 'PISQ6, EULER_MASCHERONI')

    # ------------------------------------------------------------------ D9 Poisson normaliser cross-check
    key = 'normaliser-agree:Poisson'
    kp = '<%spoisson::Poisson as %sDiscrete>::pmf' % (DS, DS)
    forms = {}
    for k, b in pdb.bodies.items():
        if not (k.startswith(DS + 'poisson::') or 'poisson::Poisson' in k):
            continue
        f = prog.func(k)
        for c in f.calls():
            if c.path in ('functions::gamma::gamma', 'functions::gamma::ln_gamma') and c.args:
                a = c.args[0]
                # argument built from an integer count: (k as f64) [+ 1]
                base = a
                off = 0.0
                if tag(a) == 'bin' and a[1] == 'Add' and tag(a[3]) == 'const':
                    base, off = a[2], a[3][2]
                kind = 'count' if (tag(base) == 'cast' and base[1] == 'IntToFloat') or _is_floor(base) else None
                if kind:
                    forms.setdefault(off, []).append(k)
    if kp not in pdb.bodies:
        rep.viol('normaliser-agree', key, 'Poisson::pmf disappeared')
    elif len(forms) == 1 and 1.0 in forms:
        rep.ok('normaliser-agree', key, 'k! is formed as Gamma(k + 1) (gamma / ln_gamma) at every site: %s' % sorted(set(short(x) for x in forms[1.0])))
    elif not forms:
        rep.undecided('normaliser-agree', key, 'no gamma(count) site found', proof=False)
    else:
        rep.viol('normaliser-agree', key, 'the factorial k! is formed inconsistently: %s. k! = Gamma(k + 1); Gamma(k) is (k-1)!, which makes the mass function wrong by a factor k' % (
            {('gamma(k + %g)' % o if o else 'gamma(k)'): sorted(set(short(x) for x in v)) for o, v in forms.items()}), site_of(pdb.bodies[kp]))
    rep.floor('normaliser-agree', 1, 'Poisson')

    # ------------------------------------------------------------------ D10 agreement with the textbook table (identity testing of closed forms)
    from ..formula import TABLE, compare
    eng2 = ElemEngine(prog, ints=True, guarded=True)
    for d, spec in sorted(TABLE.items()):
        path = DS + d
        adt = pdb.adts.get(path)
        if adt is None:
            rep.viol('textbook', 'textbook:%s' % d, 'distribution disappeared')
            continue
        fnames = [fl['name'] for fl in adt['variants'][0]['fields']]
        disc = spec.get('discrete', False)
        for meth, trait in ((('pmf', 'Discrete') if disc else ('pdf', 'Continuous')), ('mean', 'Mean'), ('var', 'Variance')):
            k = '<%s as %s%s>::%s' % (path, DS, trait, meth)
            key = 'textbook:%s::%s' % (d.split('::')[1], meth)
            if k not in pdb.bodies:
                rep.undecided('textbook', key, 'method not found', proof=False)
                continue
            args = {1: S} if meth in ('mean', 'var') else {1: S, 2: X}
            ret, _ = eng2.result_of(k, args)
            if isinstance(ret, tuple) or has_top(ret):
                rep.undecided('textbook', key, 'closed form not extracted: %s' % (sorted(top_reasons(ret))[:2] if not isinstance(ret, tuple) else 'tuple'), proof=False)
                continue
            alts = sorted(ret, key=repr)
            points = []
            for pn in spec['grid']:
                pidx = {i: pn[nm] for i, nm in enumerate(fnames) if nm in pn}
                if meth in ('mean', 'var'):
                    points.append((pidx, pn, None))
                else:
                    for xv in spec['xs'](pn):
                        points.append((pidx, pn, xv))
            ref = spec['pdf'] if meth in ('pdf', 'pmf') else spec[meth]
            st, info = compare(alts, ref, points)
            if st == 'ok' and meth in ('pdf', 'pmf'):
                # the set of alternatives is path-insensitive where a branch condition is a disjunction (`(dof == 1 && x <= 0.) || x < 0.`):
                # at every grid point the return sites that are *reachable for that point* are evaluated as well (witness evaluation, §9.8)
                ps = _path_sensitive(prog, k, fnames, ref, points)
                if ps is not None:
                    st, info = 'viol', ps
            if st == 'ok':
                rep.ok('textbook', key, '%s agrees with the textbook formula at %d parameter/argument points: %s' % (meth, info, show_expr(ret)[:100]))
            elif st == 'viol':
                rep.viol('textbook', key, '%s::%s(%s) is %s where the textbook formula gives %.12g (parameters %s); extracted closed form %s' % (
                    d.split('::')[1], meth, '' if info['x'] is None else info['x'], '%.12g' % info['code'] if isinstance(info['code'], float) else info['code'],
                    info['textbook'], info['params'], show_expr(ret)[:160]), site_of(pdb.bodies[k]))
            else:
                rep.undecided('textbook', key, info, proof=False)
    rep.floor('textbook', 36, '13 distributions x (pdf|pmf, mean, var)')
    # ------------------------------------------------------------------ D11 multivariate normal: log-linear normal form of pdf and ln_pdf
    _mvn_density(prog, rep)
    for kk in eng.visited:
        rep.touch(kk)
    rep.assumptions.append('no cancellation invisible to the scale algebra (e.g. exp(ln x)) in the analysed closed forms')
    return {}


def _is_floor(t):
    return tag(t) == 'call' and is_f64_method(t[1]) and f64_method_name(t[1]) in ('floor', 'round')


# ----------------------------------------------------------------------------- log normalisation
def lnorm(e):
    """multiset (sorted list) of (sign coefficient, atom) such that e == sum coef*atom, expanding ln over * / exp"""
    out = []

    def add(c, x):
        k = x[0]
        if k == 'b' and x[1] == 'Add':
            add(c, x[2]); add(c, x[3]); return
        if k == 'b' and x[1] == 'Sub':
            add(c, x[2]); add(-c, x[3]); return
        if k == 'neg':
            add(-c, x[1]); return
        if k == 'm' and x[1] == 'ln':
            y = x[2]
            if y[0] == 'b' and y[1] == 'Mul':
                add(c, ('m', 'ln', y[2])); add(c, ('m', 'ln', y[3])); return
            if y[0] == 'b' and y[1] == 'Div':
                add(c, ('m', 'ln', y[2])); add(-c, ('m', 'ln', y[3])); return
            if y[0] == 'm' and y[1] == 'exp':
                add(c, y[2]); return
            if y[0] == 'c' and y[1] == 1.0:
                return
        out.append((c, x))
    add(1, e)
    # cancel
    from collections import Counter
    cnt = Counter()
    for c, x in out:
        cnt[x] += c
    return sorted(((c, x) for x, c in cnt.items() if c != 0), key=repr)


def _show_l(l):
    return ' '.join('%+d*%s' % (c, show_expr(x)[:60]) for c, x in l)


# ----------------------------------------------------------------------------- non-negativity
def _check_nonneg(prog, rep, f, path, key, name, m):
    from ..structs import subst
    rep.touch(f.body.key)
    sm = StructModel(prog, path)
    me = ('arg', 1, f.names.get(1))
    x = ('arg', 2, f.names.get(2))
    inv = {}
    # field intervals from constructor guards
    if sm.new is not None:
        for g in sm.new_guards:
            if g[0] != 'cmp':
                if g[0] == 'cond' and tag(g[1]) == 'call' and g[1][1].endswith('RangeInclusive::<Idx>::contains') and g[2] is True:
                    rng, a = g[1][2]
                    if tag(a) == 'arg' and tag(rng) == 'constx' and str(rng[2]).startswith('bytes:'):
                        import struct
                        lo, hi = struct.unpack('<dd', bytes.fromhex(rng[2][6:])[:16])
                        for fi, al in sm.param_of.items():
                            if al == a[1]:
                                inv[fi] = Iv(lo, hi, False, False)
                continue
            op, a, b, truth = g[1], g[2], g[3], g[4]
            for fi, al in sm.param_of.items():
                na = sm.new_arg(al)
                cur = inv.get(fi, Iv())
                if a == na and tag(b) == 'const' and isinstance(b[2], (int, float)):
                    c = float(b[2])
                    if op == 'Lt' and truth:
                        cur = Iv(cur.lo, min(cur.hi, c), cur.lo_open, True)
                    elif op == 'Le' and truth:
                        cur = Iv(cur.lo, min(cur.hi, c), cur.lo_open, False)
                    elif op == 'Lt' and not truth:
                        cur = Iv(max(cur.lo, c), cur.hi, False, cur.hi_open)
                    elif op == 'Le' and not truth:
                        cur = Iv(max(cur.lo, c), cur.hi, True, cur.hi_open)
                    inv[fi] = cur
                elif b == na and tag(a) == 'const' and isinstance(a[2], (int, float)):
                    c = float(a[2])
                    if op == 'Lt' and truth:
                        cur = Iv(max(cur.lo, c), cur.hi, True, cur.hi_open)
                    elif op == 'Le' and truth:
                        cur = Iv(max(cur.lo, c), cur.hi, False, cur.hi_open)
                    elif op == 'Lt' and not truth:
                        cur = Iv(cur.lo, min(cur.hi, c), cur.lo_open, False)
                    elif op == 'Le' and not truth:
                        cur = Iv(cur.lo, min(cur.hi, c), cur.lo_open, True)
                    inv[fi] = cur
    # unsigned integer fields
    for i, fl in enumerate(sm.fields):
        if fl['ty'] in ('usize', 'u64', 'u32'):
            inv.setdefault(i, Iv(0.0, INF, False, True))
    problems = []
    details = []
    for dd in f._defs.get(0, []):
        bb = dd[1]
        v = f.rvalue_term(dd[3], bb) if dd[0] == 'assign' else f.call_term(dd[2], bb)
        # argument interval from guards at this block
        xiv = Iv()
        for cn, val in f.guards().get(bb, []):
            g = canon_guard(cn, val)
            if g[0] == 'cmp':
                op, a, b, truth = g[1], g[2], g[3], g[4]
                if a == x and tag(b) == 'const' and isinstance(b[2], (int, float)):
                    c = float(b[2])
                    if op in ('Lt', 'Le') and not truth:
                        xiv = Iv(max(xiv.lo, c), xiv.hi, op == 'Le', xiv.hi_open)
                    elif op in ('Lt', 'Le') and truth:
                        xiv = Iv(xiv.lo, min(xiv.hi, c), xiv.lo_open, op == 'Lt')
                elif b == x and tag(a) == 'const' and isinstance(a[2], (int, float)):
                    c = float(a[2])
                    if op in ('Lt', 'Le') and truth:
                        xiv = Iv(max(xiv.lo, c), xiv.hi, op == 'Lt', xiv.hi_open)
                    elif op in ('Lt', 'Le') and not truth:
                        xiv = Iv(xiv.lo, min(xiv.hi, c), xiv.lo_open, op == 'Le')
            elif g[0] == 'cond' and tag(g[1]) == 'call' and g[1][1].endswith('RangeInclusive::<Idx>::contains') and g[1][2][1] == x:
                rng = g[1][2][0]
                if tag(rng) == 'constx' and str(rng[2]).startswith('bytes:') and g[2] is True:
                    import struct
                    lo, hi = struct.unpack('<dd', bytes.fromhex(rng[2][6:])[:16])
                    xiv = Iv(lo, hi, False, False)

        def leaf(t, xiv=xiv):
            if t == x:
                return xiv
            if tag(t) == 'field' and t[1] == me and t[2] in inv:
                return inv[t[2]]
            return None

        def hook(ev, t):
            p = t[1]
            if p in ('functions::gamma::gamma', 'functions::gamma::beta'):
                args = [ev.ev(a) for a in t[2]]
                if all(a.iv.is_pos() for a in args):
                    return Val(Iv(0.0, INF, True, True), '?')
                return Val(TOPIV, '?')
            if p == 'functions::combinatorial::binom_coeff':
                return Val(Iv(0.0, INF, False, True), '?')
            return None
        ev = AbsEval(leaf, wrt=None, const_value=lambda t: prog.pdb.const_value(t[3]) if t[3] else None, call_hook=hook)
        val = ev.ev(v)
        details.append('%s in %r' % (show(v)[:60], val.iv))
        if not val.iv.is_nonneg():
            problems.append('%s evaluates to %r under invariants %s and x in %r%s' % (show(v)[:100], val.iv, {sm.fname(i): repr(iv) for i, iv in inv.items()}, xiv,
                                                                                 (' [' + '; '.join(ev.unknown[:2]) + ']') if ev.unknown else ''))
    if not details:
        rep.undecided('non-negative', key, 'no return value found', proof=False)
    elif problems:
        # interval evaluation is incomplete: report as undecided (refutation rule), never as a violation
        rep.undecided('non-negative', key, 'not proved non-negative: ' + problems[0], site_of(f.body), proof=False)
    else:
        rep.ok('non-negative', key, '%s::%s >= 0 on every path (%s)' % (name, m, '; '.join(details)[:200]))


def _path_sensitive(prog, k, fnames, ref, points):
    """witness dict of the first grid point at which every return site of body k that is reachable for that point evaluates to
    something other than the reference value(s); None when there is none (or nothing could be evaluated)"""
    import math
    from ..precond import NC, Frame, tev, Uneval, _nk
    from ..formula import close
    f = prog.func(k)
    if f is None:
        return None

    def tg(x):
        try:
            return math.gamma(x)
        except (ValueError, OverflowError):
            raise Uneval('gamma range')

    def lg(x):
        try:
            return math.lgamma(x)
        except (ValueError, OverflowError):
            raise Uneval('lgamma range')

    def bc(n, kk):
        c_ = math.comb(int(n), int(kk))
        if c_ >= 2 ** 64:
            raise Uneval('u64 range')
        return c_
    fns = {'functions::gamma::gamma': tg, 'functions::gamma::ln_gamma': lg, 'functions::gamma::beta': lambda a, b: math.exp(lg(a) + lg(b) - lg(a + b)),
           'functions::combinatorial::binom_coeff': bc, 'functions::statistical::erf': math.erf}
    ncx = NC(prog)
    me = ('arg', 1, None)
    for pidx, pname, xv in points:
        try:
            want = ref(pname, xv)
        except Exception:
            continue
        if want is None:
            continue
        wants = want if isinstance(want, tuple) else (want,)
        env = {'__fn__': fns, _nk(('arg', 2, None)): xv}
        for i, v in pidx.items():
            env[_nk(('field', me, i, None))] = v
        ctx = Frame(f, env=env, ncx=ncx)
        try:
            live = ncx.reachable(f, ctx)
            vals = []
            for d in f._defs.get(0, []):
                if d[1] not in live:
                    continue
                t = f.rvalue_term(d[3], d[1]) if d[0] == 'assign' else f.call_term(d[2], d[1])
                vals.append(tev(t, ctx))
        except (Uneval, RecursionError, TypeError, ValueError, OverflowError, ZeroDivisionError):
            continue
        if not vals or not all(isinstance(v, (int, float)) and not isinstance(v, bool) for v in vals):
            continue
        if any(close(float(v), float(w)) for v in vals for w in wants):
            continue
        return {'params': pname, 'x': xv, 'textbook': wants[-1], 'code': float(vals[0]), 'all': [float(v) for v in vals]}
    return None


def _mvn_density(prog, rep):
    """ln pdf(x) = -1/2 [ d ln 2pi + ln det(Sigma) + (x-mu)^T Sigma^-1 (x-mu) ] for both MVN::pdf (through its logarithm) and MVN::ln_pdf,
    decided on the log-linear normal form of the returned closed form; the quadratic form is an atom whose shape is checked separately"""
    from fractions import Fraction
    from ..loglin import LogLin, Unread, Inexact, show_form
    pdb = prog.pdb
    MV = DS + 'multivariatenormal::MVN'
    adt = pdb.adts.get(MV)
    if adt is None:
        rep.viol('mvn-density', 'mvn-density:MVN', 'MVN disappeared')
        rep.floor('mvn-density', 2, 'MVN pdf, ln_pdf')
        return
    fidx = {fl['name']: i for i, fl in enumerate(adt['variants'][0]['fields'])}
    want = {('Q',): Fraction(-1, 2), ('d', 'ln2'): Fraction(-1, 2), ('d', 'lnpi'): Fraction(-1, 2), ('lndet',): Fraction(-1, 2)}
    for meth in ('pdf', 'ln_pdf'):
        key = 'mvn-density:%s' % meth
        ks = [k for k, b in pdb.bodies.items() if b.impl and b.impl['self_ty'].endswith('multivariatenormal::MVN') and b.impl['trait'] == DS + 'Continuous'
              and b.name == meth and b.kind != 'closure']
        if not ks:
            rep.undecided('mvn-density', key, 'method not found', proof=False)
            continue
        f = prog.func(ks[0])
        rep.touch(ks[0])
        me = ('arg', 1, f.names.get(1))
        x = ('arg', 2, f.names.get(2))
        quad_problems = []

        def atom(t, me=me, x=x, f=f, quad_problems=quad_problems):
            if t == ('len', x):
                return 'd'
            if tag(t) == 'len' and tag(t[1]) == 'field' and t[1][1] == me and t[1][2] == fidx.get('mean'):
                return 'd'
            if tag(t) == 'call' and short(t[1]) == 'len' and t[2] and tag(t[2][0]) == 'field' and t[2][0][1] == me and t[2][0][2] == fidx.get('mean'):
                return 'd'
            if tag(t) == 'field' and t[1] == me and t[2] == fidx.get('covariance_determinant'):
                return 'det'
            if tag(t) == 'call' and short(t[1]) == 't_dot' and len(t[2]) == 2:
                a_, b_ = t[2]
                if tag(b_) == 'call' and short(b_[1]) == 'dot' and len(b_[2]) == 2:
                    m_, a2 = b_[2]
                    if not (tag(m_) == 'field' and m_[1] == me and m_[2] == fidx.get('inverse_covariance_matrix')):
                        quad_problems.append('the quadratic form uses %s, not the inverse covariance' % show(m_)[:40])
                    if a_ != a2:
                        quad_problems.append('the quadratic form multiplies two different vectors')
                    # a_ = x - mean elementwise
                    okc = False
                    z = a_
                    while tag(z) == 'call' and short(z[1]) in ('collect', 'from', 'into') and z[2]:
                        z = z[2][0]
                    if tag(z) == 'call' and short(z[1]) == 'map' and tag(z[2][1]) == 'agg' and z[2][1][1] == 'closure':
                        g = prog.func(z[2][1][2])
                        rv = g.return_values() if g is not None else []
                        if len(rv) == 1 and tag(rv[0]) == 'bin' and rv[0][1] == 'Sub':
                            rhs = [q for q in subterms(rv[0][3]) if tag(q) == 'field' and q[2] == fidx.get('mean')]
                            lhs_mean = [q for q in subterms(rv[0][2]) if tag(q) == 'field' and q[2] == fidx.get('mean')]
                            okc = bool(rhs) and not lhs_mean
                    if not okc:
                        quad_problems.append('unread:the centred vector is not read as x[i] - mean[i]')
                    return 'Q'
            return None
        ll = LogLin(atom)
        rets = f.return_values()
        if len(rets) != 1:
            rep.undecided('mvn-density', key, 'several return sites', site_of(f.body), proof=False)
            continue
        try:
            form = ll.log(rets[0]) if meth == 'pdf' else ll.lin(rets[0])
        except Inexact as e:
            rep.viol('mvn-density', key, '%s: %s; the exponent of 2*pi must be exactly d/2 (odd dimensions lose a factor sqrt(2*pi))' % (meth, e), site_of(f.body))
            continue
        except Unread as e:
            rep.undecided('mvn-density', key, 'closed form not read: %s' % e, site_of(f.body), proof=False)
            continue
        hard = [q for q in quad_problems if not q.startswith('unread:')]
        if hard:
            rep.viol('mvn-density', key, '%s: %s' % (meth, '; '.join(sorted(set(hard)))), site_of(f.body))
        elif form != want:
            rep.viol('mvn-density', key, 'ln %s = %s, the multivariate normal log-density is %s' % (
                'pdf' if meth == 'pdf' else 'ln_pdf = exp', show_form(form), show_form(want)) if meth == 'pdf' else
                'ln_pdf = %s, the multivariate normal log-density is %s' % (show_form(form), show_form(want)), site_of(f.body))
        elif quad_problems:
            rep.undecided('mvn-density', key, '; '.join(q.split(':', 1)[1] for q in quad_problems), site_of(f.body), proof=False)
        else:
            rep.ok('mvn-density', key, 'ln %s = %s' % (meth if meth == 'pdf' else 'exp(ln_pdf)', show_form(form)))
    rep.floor('mvn-density', 2, 'MVN pdf, ln_pdf')
