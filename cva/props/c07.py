"""C07 — quadrature rules are exact on their polynomial class.

D1 Gauss-Legendre: the node/weight literals satisfy sum_i w_i x_i^(2k) = 1/(2k+1), k = 0..9 (nodes in (0,1) increasing, weights
   positive), and quad5 has the symmetric-pair shape  xr * sum_i W[i] * (f(xm + xr*N[i]) + f(xm - xr*N[i]))  with xm, xr the
   midpoint and half-length: together a proof of exactness for every polynomial of degree <= 19 on every finite interval
   (up to rounding).
D2 composite trapezoid as a linear functional: dx = (b-a)/n, interior nodes a + k*dx for k in 1..n with weight dx, end points a, b
   with weight dx/2: total weight n*dx = b - a (exact for constants) and the rule is the trapezoid rule by definition.
D3 sampled rule: lengths asserted equal when abscissae are given; term i is (y[i] + y[i-1])/2 * diff_x[i-1] with diff_x[j] = x[j+1]-x[j].
D4 Romberg tableau shape: R[0,0] = (b-a)/2 (f(a)+f(b)); R[n,0] = R[n-1,0]/2 + h_n * sum_{k=1}^{2^(n-1)} f(a + (2k-1) h_n), h_n = (b-a)/2^n;
   R[n,m] = R[n,m-1] + (R[n,m-1] - R[n-1,m-1])/(4^m - 1).
D5 homogeneity: every rule has scale type X*F.
Not decided: error bounds for smooth integrands, Romberg's stopping rule."""
from fractions import Fraction
from ..ir import tag, show, short, subterms
from ..poly import poly, peq, psub, padd, pconst
from ..framework import site_of

LEVEL = 'other'
EXPLANATION = (
    'Each rule is read from MIR as a linear functional of the integrand: the calls f(node) with their coefficients and summation ranges are '
    'extracted from the (closure) terms and compared with the defining nodes/weights of the rule; the Gauss-Legendre literals are validated '
    'against the even-moment conditions in exact rational arithmetic on the evaluated consts (tolerance 5e-15, the literals carry 16 digits), '
    'which with the symmetric-pair shape proves exactness up to degree 19 on any interval. Error bounds for smooth integrands are numerical and '
    'not decided.')

IF = 'integrate::functions::'


def run(prog, rep, tier, repo):
    pdb = prog.pdb
    # ------------------------------------------------------------------ D1 tables
    N = pdb.const_value(IF + 'GAUSS_QUAD_NODES')
    W = pdb.const_value(IF + 'GAUSS_QUAD_WEIGHTS')
    if not N or not W or len(N) != len(W):
        rep.undecided('gauss-table', 'gauss-table:tables', 'node/weight consts not found')
    else:
        key = 'gauss-table:order'
        ok = all(0 < N[i] < 1 for i in range(len(N))) and all(N[i] < N[i + 1] for i in range(len(N) - 1)) and all(w > 0 for w in W)
        (rep.ok if ok else rep.viol)('gauss-table', key, 'nodes in (0,1) strictly increasing, weights positive' if ok else 'nodes %s / weights %s out of order or range' % (N, W))
        fn = [Fraction(x) for x in N]
        fw = [Fraction(x) for x in W]
        for k in range(2 * len(N)):
            key = 'gauss-table:moment-%d' % (2 * k)
            s = sum(w * x ** (2 * k) for w, x in zip(fw, fn))
            want = Fraction(1, 2 * k + 1)
            err = abs(float(s - want))
            if err < 5e-15:
                rep.ok('gauss-table', key, 'sum w x^%d = 1/%d (error %.1e)' % (2 * k, 2 * k + 1, err))
            else:
                rep.viol('gauss-table', key, 'sum_i w_i x_i^%d = %.17g but the exactness condition requires 1/%d = %.17g: the rule is not exact for degree %d' % (
                    2 * k, float(s), 2 * k + 1, float(want), 2 * k), site_of(pdb.consts[IF + 'GAUSS_QUAD_WEIGHTS']['span']))
        rep.sample('Gauss-Legendre: %d symmetric pairs, moments 0..%d verified in rational arithmetic' % (len(N), 4 * len(N) - 2))
    rep.floor('gauss-table', 11, 'order + 10 moment conditions')
    f = prog.func(IF + 'quad5')
    key = 'gauss-shape:quad5'
    if f is None:
        rep.viol('gauss-shape', key, 'quad5 disappeared')
    else:
        rep.touch(f.body.key)
        fa, a, b = [('arg', i, f.names.get(i)) for i in (1, 2, 3)]
        rets = f.return_values()
        problems = []
        undec = []
        half = ('const', 'f64', 0.5)
        xm = ('bin', 'Mul', half, ('bin', 'Add', b, a, 'f64'), 'f64')
        xm2 = ('bin', 'Mul', half, ('bin', 'Add', a, b, 'f64'), 'f64')
        xr = ('bin', 'Mul', half, ('bin', 'Sub', b, a, 'f64'), 'f64')
        if len(rets) != 1 or not (tag(rets[0]) == 'bin' and rets[0][1] == 'Mul'):
            undec.append('result is not of the form sum * xr')
        else:
            s, scale = rets[0][2], rets[0][3]
            if scale != xr:
                s, scale = scale, s
            if scale != xr:
                # a scale factor that is a component of a helper's result (`centre_and_half_width(a, b).1`) or a local is not read; a factor
                # written out over a and b that is not 0.5*(b-a) is wrong
                if any(tag(z) == 'call' and z[1] in pdb.bodies for fac in (rets[0][2], rets[0][3]) for z in subterms(fac) if tag(fac) != 'call' or short(fac[1]) != 'sum'):
                    undec.append('the scale factor %s is not written over a and b in this body' % show(scale)[:40])
                else:
                    problems.append('the sum is not scaled by the half-length 0.5*(b-a)')
            if not (tag(s) == 'call' and short(s[1]) == 'sum' and tag(s[2][0]) == 'call' and short(s[2][0][1]) == 'map'):
                undec.append('not a sum over a mapped range')
            else:
                it, cl = s[2][0][2]
                npairs = len(N) if N else 5
                if tag(it) == 'range' and it != ('range', ('const', 'usize', 0), ('const', 'usize', npairs)):
                    problems.append('range is %s, expected 0..%d (the table length)' % (show(it), npairs))
                elif tag(it) != 'range':
                    undec.append('the sum does not run over an index range (%s)' % show(it)[:40])
                if tag(cl) != 'agg':
                    undec.append('closure not found')
                else:
                    g = prog.func(cl[2])
                    rep.touch(cl[2])
                    ups = {i: u for i, u in enumerate(cl[3])}
                    rv = g.return_values()
                    i = ('arg', 2, g.names.get(2))

                    def up(t):
                        return ups.get(t[1]) if tag(t) == 'upvar' else None
                    ok = False
                    skeleton = False
                    if len(rv) == 1 and tag(rv[0]) == 'bin' and rv[0][1] == 'Mul':
                        w, pair = rv[0][2], rv[0][3]
                        if not (tag(w) == 'index' and _const_item(w[1]) == IF + 'GAUSS_QUAD_WEIGHTS'):
                            w, pair = pair, w
                        # skeleton W[.] * (f(.) +/- f(.)): inside it, indices and signs are decided; outside it the idiom is not read
                        skeleton = tag(w) == 'index' and tag(pair) == 'bin' and pair[1] in ('Add', 'Sub') and \
                            all(tag(c) == 'call' and short(c[1]) == 'call' for c in (pair[2], pair[3]))
                        if tag(w) == 'index' and _const_item(w[1]) == IF + 'GAUSS_QUAD_WEIGHTS' and w[2] == i and tag(pair) == 'bin' and pair[1] == 'Add':
                            nodes = []
                            for c in (pair[2], pair[3]):
                                if tag(c) == 'call' and short(c[1]) == 'call' and up(c[2][0]) == fa:
                                    arg = c[2][1][3][0] if tag(c[2][1]) == 'agg' else None
                                    nodes.append(arg)
                            if len(nodes) == 2 and all(n is not None for n in nodes):
                                signs = set()
                                for nd in nodes:
                                    if tag(nd) == 'bin' and nd[1] in ('Add', 'Sub') and up(nd[2]) in (xm, xm2):
                                        d = nd[3]
                                        if tag(d) == 'bin' and d[1] == 'Mul':
                                            fs = [d[2], d[3]]
                                            okd = any(up(x) == xr for x in fs) and any(tag(x) == 'index' and _const_item(x[1]) == IF + 'GAUSS_QUAD_NODES' and x[2] == i for x in fs)
                                            if okd:
                                                signs.add(nd[1])
                                ok = signs == {'Add', 'Sub'}
                    if not ok and skeleton:
                        problems.append('summand is not W[i] * (f(xm + xr*N[i]) + f(xm - xr*N[i])) with one common i: %s' % [show(r)[:160] for r in rv])
                    elif not ok:
                        undec.append('summand not of the form W[i] * (f(..) + f(..))')
        if problems:
            rep.viol('gauss-shape', key, '; '.join(problems), site_of(f.body))
        elif undec:
            rep.undecided('gauss-shape', key, 'idiom not read by this rule: ' + '; '.join(undec), site_of(f.body), proof=False)
        else:
            rep.ok('gauss-shape', key, 'quad5 = xr * sum_{i<5} W[i] (f(xm + xr N[i]) + f(xm - xr N[i])), xm = (a+b)/2, xr = (b-a)/2')
    rep.floor('gauss-shape', 1, 'quad5')

    # ------------------------------------------------------------------ D2 trapz
    f = prog.func(IF + 'trapz')
    key = 'trapezoid-weights:trapz'
    if f is None:
        rep.viol('trapezoid-weights', key, 'trapz disappeared')
    else:
        rep.touch(f.body.key)
        fa, a, b, n = [('arg', i, f.names.get(i)) for i in (1, 2, 3, 4)]
        dx = ('bin', 'Div', ('bin', 'Sub', b, a, 'f64'), ('cast', 'IntToFloat', n, 'f64', 'usize'), 'f64')
        rets = f.return_values()
        problems = []
        undec = []
        if len(rets) != 1 or not (tag(rets[0]) == 'bin' and rets[0][1] == 'Mul' and dx in (rets[0][2], rets[0][3])):
            undec.append('result is not of the form dx * (...) with dx = (b - a)/n')
        else:
            inner = rets[0][3] if rets[0][2] == dx else rets[0][2]
            parts = _flatten_add(inner)
            total = {}          # total weight in units of dx, as a polynomial in n
            nodes_ok = True
            ends = set()
            for p in parts:
                if tag(p) == 'call' and short(p[1]) == 'sum' and tag(p[2][0]) == 'call' and short(p[2][0][1]) == 'map':
                    it, cl = p[2][0][2]
                    if tag(it) != 'range':
                        undec.append('interior sum is not over a range')
                        continue
                    total = padd(total, psub(poly(it[2]), poly(it[1])))
                    lo = pconst(poly(it[1]))
                    if lo != 1 or not peq(poly(it[2]), poly(n)):
                        problems.append('interior nodes run over k in %s: the composite rule has interior nodes k = 1..n-1 (k = 0 is the left end point, which already '
                                        'enters with weight 1/2)' % show(it))
                    g = prog.func(cl[2]) if tag(cl) == 'agg' else None
                    if g is None:
                        undec.append('closure not found')
                        continue
                    rep.touch(cl[2])
                    ups = {i: u for i, u in enumerate(cl[3])}
                    rv = g.return_values()
                    k = ('arg', 2, g.names.get(2))
                    okn = False
                    recognised = False
                    if len(rv) == 1 and tag(rv[0]) == 'call' and short(rv[0][1]) == 'call':
                        nd = rv[0][2][1][3][0] if tag(rv[0][2][1]) == 'agg' else None
                        ups2 = ups
                        # node computed by a captured helper closure `node(k)`: inline it (its captures come from the outer frame)
                        if tag(nd) == 'call' and short(nd[1]) == 'call' and tag(nd[2][0]) == 'upvar' and tag(ups.get(nd[2][0][1])) == 'agg' and ups.get(nd[2][0][1])[1] == 'closure':
                            hc = ups.get(nd[2][0][1])
                            h = prog.func(hc[2])
                            hargs = nd[2][1][3] if tag(nd[2][1]) == 'agg' else ()
                            if h is not None and len(h.return_values()) == 1 and len(hargs) == 1 and hargs[0] == k:
                                rep.touch(hc[2])
                                nd = h.return_values()[0]
                                ups2 = {i_: u for i_, u in enumerate(hc[3])}
                                k = ('arg', 2, h.names.get(2))
                        if tag(nd) == 'bin' and nd[1] == 'Add' and tag(nd[3]) == 'bin' and nd[3][1] == 'Mul':
                            recognised = True
                            fs = [nd[3][2], nd[3][3]]
                            okn = tag(nd[2]) == 'upvar' and ups2.get(nd[2][1]) == a and any(tag(x) == 'cast' and x[2] == k for x in fs) and \
                                any(tag(x) == 'upvar' and ups2.get(x[1]) == dx for x in fs)
                    if not okn and recognised:
                        problems.append('interior node is not a + k*dx')
                    elif not okn:
                        undec.append('interior node expression not read')
                elif tag(p) == 'bin' and p[1] == 'Div' and tag(p[3]) == 'const' and p[3][2] == 2.0:
                    for e in _flatten_add(p[2]):
                        if tag(e) == 'call' and short(e[1]) == 'call' and e[2][0] == fa and tag(e[2][1]) == 'agg':
                            ends.add(e[2][1][3][0])
                            total = padd(total, {(): Fraction(1, 2)})
                        else:
                            problems.append('unexpected end-point term %s' % show(e)[:60])
                elif tag(p) == 'call' and short(p[1]) == 'call' and p[2][0] == fa and tag(p[2][1]) == 'agg':
                    # an end-point value entering with full weight
                    ends.add(p[2][1][3][0])
                    total = padd(total, {(): Fraction(1)})
                else:
                    undec.append('term %s not read' % show(p)[:80])
            if ends != {a, b} and not undec:
                problems.append('end-point terms are %s, expected f(a) and f(b) each with weight 1/2' % sorted(show(e) for e in ends))
            if not peq(total, poly(n)) and not problems and not undec:
                problems.append('total weight is (%s)*dx, not n*dx = b - a: the rule is not exact for constants' % total)
        if problems:
            rep.viol('trapezoid-weights', key, '; '.join(problems), site_of(f.body))
        elif undec:
            rep.undecided('trapezoid-weights', key, 'idiom not read by this rule: ' + '; '.join(undec), site_of(f.body), proof=False)
        else:
            rep.ok('trapezoid-weights', key, 'dx*(sum_{k=1}^{n-1} f(a+k dx) + (f(a)+f(b))/2): total weight n*dx = b - a')
    rep.floor('trapezoid-weights', 1, 'trapz')

    # ------------------------------------------------------------------ D3 sampled trapezoid
    f = prog.func('integrate::samples::trapezoid')
    key = 'sampled-trapezoid'
    if f is None:
        rep.viol('sampled-trapezoid', key, 'trapezoid disappeared')
    else:
        rep.touch(f.body.key)
        y = ('arg', 1, f.names.get(1))
        problems = []
        cls = {b_.key: prog.func(b_.key) for b_ in pdb.closures_of(f.body.key)}
        # term closure: (y[i] + y[i-1]) / 2 * diff_x[i-1]
        okterm = False
        okdiff = False
        for ck, g in cls.items():
            rep.touch(ck)
            rv = g.return_values()
            i = ('arg', 2, g.names.get(2))
            if len(rv) != 1:
                continue
            t = rv[0]
            if tag(t) == 'bin' and t[1] == 'Mul':
                for u, v in ((t[2], t[3]), (t[3], t[2])):
                    if tag(u) == 'bin' and u[1] == 'Div' and tag(u[3]) == 'const' and u[3][2] == 2.0 and tag(u[2]) == 'bin' and u[2][1] == 'Add':
                        ys = [u[2][2], u[2][3]]
                        offs = sorted(pconst(psub(poly(z[2]), poly(i))) for z in ys if tag(z) == 'index' and pconst(psub(poly(z[2]), poly(i))) is not None)
                        dv = pconst(psub(poly(v[2]), poly(i))) if tag(v) == 'index' else None
                        if offs == [-1, 0] and dv == -1:
                            okterm = True
            if tag(t) == 'bin' and t[1] == 'Sub' and tag(t[2]) == 'index' and tag(t[3]) == 'index' and t[2][1] == t[3][1]:
                if pconst(psub(poly(t[2][2]), poly(i))) == 0 and pconst(psub(poly(t[3][2]), poly(i))) == -1:
                    okdiff = True
        # recognition vs decision: a summand / difference closure of the expected *shape* but with other offsets is a violation;
        # no closure of that shape at all is an idiom this rule does not read (NOT-DECIDED, no alarm)
        seen_term = seen_diff = False
        for ck, g in cls.items():
            rv = g.return_values()
            if len(rv) != 1:
                continue
            t = rv[0]
            i_ = ('arg', 2, g.names.get(2))

            def off(z, i_=i_):
                return pconst(psub(poly(z[2]), poly(i_))) if tag(z) == 'index' else None
            if tag(t) == 'bin' and t[1] == 'Mul':
                for u, v in ((t[2], t[3]), (t[3], t[2])):
                    if tag(u) == 'bin' and u[1] == 'Div' and tag(u[2]) == 'bin' and u[2][1] == 'Add' and \
                            all(off(z) is not None for z in (u[2][2], u[2][3])) and tag(v) == 'index' and tag(v[1]) != 'item':
                        seen_term = True       # index-by-counter form: offsets are decidable
            if tag(t) == 'bin' and t[1] == 'Sub' and tag(t[2]) == 'index' and tag(t[3]) == 'index' and t[2][1] == t[3][1]:
                if off(t[2]) is not None and off(t[3]) is not None:
                    seen_diff = True          # x[i + a] - x[i + b] with the closure's counter i
                elif tag(t[2][2]) == 'const' and tag(t[3][2]) == 'const' and tag(t[2][1]) in ('arg', 'deref'):
                    # windows(2) form: |w| w[1] - w[0]
                    seen_diff = True
                    if (t[2][2][2], t[3][2][2]) == (1, 0):
                        okdiff = True
        # a summand with one scalar weight for all intervals on a path where abscissae were passed: the trapezoid rule on given abscissae
        # weights interval i by x[i] - x[i-1]; no O(1) test can establish that all of these are equal
        xarg = ('arg', 2, f.names.get(2))
        for c_ in f.calls():
            for a_ in c_.args:
                if tag(a_) == 'agg' and a_[1] == 'closure' and a_[2] in cls:
                    g = cls[a_[2]]
                    rv = g.return_values()
                    if len(rv) != 1 or tag(rv[0]) != 'bin' or rv[0][1] != 'Mul':
                        continue
                    for u, v in ((rv[0][2], rv[0][3]), (rv[0][3], rv[0][2])):
                        halfsum = tag(u) == 'bin' and u[1] == 'Div' and tag(u[2]) == 'bin' and u[2][1] == 'Add' and \
                            all(tag(z) == 'index' for z in (u[2][2], u[2][3]))
                        scalar_w = tag(v) in ('upvar', 'deref', 'field', 'local', 'const') and not any(tag(z) == 'index' for z in subterms(v))
                        some_x = any(tag(cn) == 'discr' and cn[1] == xarg and v_ == ('eq', 1) for cn, v_ in f.guards().get(c_.bb, []))
                        if halfsum and scalar_w and some_x:
                            problems.append('on a path where abscissae are given the intervals are all weighted by one scalar step (%s) instead of x[i] - x[i-1]: '
                                            'a non-uniform grid that passes the shortcut test is integrated as if it were uniform' % show(v)[:30])
        undec = []
        if seen_term and not okterm:
            problems.append('summand is not (y[i] + y[i-1])/2 * diff_x[i-1]')
        elif not seen_term:
            undec.append('no summand closure of the form (y[.] + y[.])/2 * w[.]')
        if seen_diff and not okdiff:
            problems.append('diff_x is not x[i] - x[i-1] for i in 1..len')
        elif not seen_diff:
            undec.append('no difference closure x[.] - x[.]')
        # ranges 1..len(y) and 1..len(x)
        rngs = [z for c in f.calls() for a_ in c.args for z in subterms(a_) if tag(z) == 'range']
        yr = [z for z in rngs if z[2] == ('len', y)]
        if yr and not any(tag(z[1]) == 'const' and z[1][2] == 1 for z in yr):
            problems.append('the sum does not run over i in 1..y.len()')
        elif not yr:
            undec.append('no index range over y')
        # length assert when x is given (here or in a helper this function calls)
        bodies_ = [f] + [prog.func(c.path) for c in f.calls() if c.path and c.path in pdb.bodies and c.path.startswith('integrate::')]
        conds = [cn for g_ in bodies_ if g_ is not None for gl in g_.guards().values() for cn, v in gl if v is True]
        if not any(tag(cn) == 'bin' and cn[1] == 'Eq' and any(tag(z) == 'len' for z in (cn[2], cn[3])) for cn in conds):
            problems.append('no assert_eq!(y.len(), x.len()) on the path that uses the abscissae')
        if problems:
            rep.viol('sampled-trapezoid', key, '; '.join(problems), site_of(f.body))
        elif undec:
            rep.undecided('sampled-trapezoid', key, 'idiom not read by this rule: ' + '; '.join(undec), site_of(f.body), proof=False)
        else:
            rep.ok('sampled-trapezoid', key, 'sum_{i=1}^{len-1} (y[i]+y[i-1])/2 * (x[i]-x[i-1]) with equal lengths asserted')
    rep.floor('sampled-trapezoid', 1, 'trapezoid')

    # ------------------------------------------------------------------ D4 Romberg
    f = prog.func(IF + 'romberg')
    # a thin wrapper (`romberg(f, a, b, eps, nmax) = romberg_min_levels(f, a, b, eps, 2, nmax)`): the rules read the body that does the work
    hops_ = 0
    while f is not None and hops_ < 2 and not f.loop_info():
        rv_ = f.return_values()
        if len(rv_) == 1 and tag(rv_[0]) == 'call' and rv_[0][1] in pdb.bodies and rv_[0][1].startswith(IF):
            rep.touch(f.body.key)
            f = prog.func(rv_[0][1])
            hops_ += 1
        else:
            break
    key = 'romberg-shape'
    if f is None:
        rep.viol('romberg-shape', key, 'romberg disappeared')
    else:
        rep.touch(f.body.key)
        fa, a, b = [('arg', i, f.names.get(i)) for i in (1, 2, 3)]
        problems = []
        sts = [s for s in f.stores() if tag(s.target) == 'call' and short(s.target[1]) == 'index_mut']
        rich = False
        col0 = False
        first = False
        seen = {'first': False, 'col0': False, 'rich': False}       # was the store of that kind found at all (recognition)
        for s in sts:
            idx = s.target[2][1]
            v = prog.inline_closure_calls(s.value)          # a step kept in a local closure (`extrapolate(fine, coarse, m)`) is read through
            if tag(idx) == 'agg' and len(idx[3]) == 2:
                i0, i1 = idx[3]
                kind_ = 'first' if (tag(i0) == 'const' and tag(i1) == 'const' and (i0[2], i1[2]) == (0, 0)) else \
                    ('col0' if (tag(i1) == 'const' and i1[2] == 0) else 'rich')
                seen[kind_] = True
                if tag(i0) == 'const' and tag(i1) == 'const' and (i0[2], i1[2]) == (0, 0):
                    # (b-a)/2 * (f(a) + f(b))
                    half = ('bin', 'Div', ('bin', 'Sub', b, a, 'f64'), ('const', 'f64', 2.0), 'f64')
                    if tag(v) == 'bin' and v[1] == 'Mul' and half in (v[2], v[3]):
                        other = v[3] if v[2] == half else v[2]
                        ends = {e[2][1][3][0] for e in _flatten_add(other) if tag(e) == 'call' and short(e[1]) == 'call' and tag(e[2][1]) == 'agg'}
                        first = ends == {a, b}
                elif tag(i1) == 'const' and i1[2] == 0:
                    # 0.5*R[n-1][0] + hn*s
                    parts = _flatten_add(v)
                    okh = any(tag(p) == 'bin' and p[1] == 'Mul' and any(tag(q) == 'const' and q[2] == 0.5 for q in (p[2], p[3])) for p in parts)
                    col0 = okh and len(parts) == 2
                else:
                    # R[n,m-1] + (R[n,m-1] - R[n-1,m-1]) / (4^m - 1)
                    if tag(v) == 'bin' and v[1] == 'Add' and tag(v[3]) == 'bin' and v[3][1] == 'Div':
                        den = v[3][3]
                        num = v[3][2]
                        okden = tag(den) == 'bin' and den[1] == 'Sub' and tag(den[3]) == 'const' and den[3][2] == 1.0 and tag(den[2]) == 'call' and den[2][1].endswith('::powi') and \
                            tag(den[2][2][0]) == 'const' and den[2][2][0][2] == 4.0
                        oknum = tag(num) == 'bin' and num[1] == 'Sub' and num[2] == v[2]
                        if okden and oknum:
                            a0 = _rc(v[2])
                            a1 = _rc(num[3])
                            if a0 and a1:
                                rich = pconst(psub(poly(a0[0]), poly(i0))) == 0 and pconst(psub(poly(a0[1]), poly(i1))) == -1 and \
                                    pconst(psub(poly(a1[0]), poly(i0))) == -1 and pconst(psub(poly(a1[1]), poly(i1))) == -1 and \
                                    pconst(psub(poly(den[2][2][1][2] if tag(den[2][2][1]) == 'cast' else den[2][2][1]), poly(i1))) == 0
        unread_r = []
        if not first:
            (problems if seen['first'] else unread_r).append('R[0,0] is not (b-a)/2 * (f(a) + f(b))')
        if not col0:
            (problems if seen['col0'] else unread_r).append('R[n,0] is not R[n-1,0]/2 + h_n * sum f(odd nodes)')
        if not rich:
            (problems if seen['rich'] else unread_r).append('Richardson step is not R[n,m-1] + (R[n,m-1] - R[n-1,m-1])/(4^m - 1)')
        # odd-node sum: a + (2k-1)*hn for k in 1..=2^(n-1), hn = (b-a)/2^n
        okodd = False
        seen_node = None          # a node expression a + (cast of something linear in k) * h was read but is not the odd-node one
        owners = [f.body.key] + sorted(kk for kk in prog.closure(f.body.key) if kk in pdb.bodies and kk != f.body.key)
        for ok_ in owners:
            for b_ in pdb.closures_of(ok_):
                g = prog.func(b_.key)
                rv = g.return_values()
                k = ('arg', 2, g.names.get(2))
                if len(rv) == 1 and tag(rv[0]) == 'call' and short(rv[0][1]) == 'call' and tag(rv[0][2][1]) == 'agg':
                    nd = rv[0][2][1][3][0]
                    if tag(nd) == 'bin' and nd[1] == 'Add' and tag(nd[3]) == 'bin' and nd[3][1] == 'Mul':
                        for c in (nd[3][2], nd[3][3]):
                            if tag(c) == 'cast' and any(z == k for z in subterms(c)):
                                if peq(poly(c[2]), padd({(k,): 2}, {(): -1})):
                                    okodd = True
                                else:
                                    seen_node = show(nd)[:60]
        if not okodd and seen_node:
            problems.append('refinement nodes are %s, not a + (2k-1) h_n' % seen_node)
        elif not okodd:
            unread_r.append('refinement node expression a + (2k-1) h_n not found in a closure of romberg or of its helpers')
        if unread_r and not problems:
            rep.undecided('romberg-shape', key, 'not read: ' + '; '.join(unread_r), site_of(f.body), proof=False)
        else:
            (rep.viol if problems else rep.ok)('romberg-shape', key, '; '.join(problems) if problems else
                                               'trapezoid refinement on odd nodes + Richardson factors 4^m - 1', site_of(f.body))
    rep.floor('romberg-shape', 1, 'romberg')

    # ---- D4b early stop: compares two extrapolated diagonal entries, the returned one being the deeper; never at depth 1, where the
    # reference R[0,0] is the raw one-panel trapezoid (an integrand whose midpoint value lies on the chord, e.g. x^2(x^2-1) on [-1,1],
    # makes Simpson and the one-panel trapezoid agree while both are wrong)
    if f is not None:
        key = 'romberg-stop'
        problems = []
        nret = 0
        unread_stop = False
        for d in f._defs.get(0, []):
            bb = d[1]
            val = f.rvalue_term(d[3], bb) if d[0] == 'assign' else f.call_term(d[2], bb)
            # a return that leaves from inside a loop: its block is not part of the natural loop, but it is control dependent on the
            # loop's continuation test (or mentions the loop counter)
            loops = [li for li in f.loop_info() if li['item'] is not None and
                     (li['item'] in subterms(val) or any(tag(c) == 'discr' and li['item'][2] in subterms(c) for c in f.control_conds(bb)))]
            loops = [li for li in loops if any(tag(cn) == 'discr' and li['item'][2] in subterms(cn) and v == ('eq', 1) for cn, v in f.guards().get(bb, []))]
            if not loops:
                continue
            nret += 1
            idx = val[2][1] if tag(val) == 'call' and len(val[2]) == 2 and tag(val[2][1]) == 'agg' else None
            n_ = None
            for li in loops:
                prev_ = ('bin', 'Sub', li['item'], ('const', 'usize', 1), 'usize')
                if idx is not None and idx[3] in ((li['item'], li['item']), (prev_, prev_)):      # either of the two compared entries
                    n_ = li
            if n_ is None:
                problems.append('early return is %s, not one of the compared diagonal entries R[n,n] / R[n-1,n-1] of the level loop' % show(val)[:60])
                continue
            item = n_['item']
            rng = item[2]
            lo = rng[1][2] if tag(rng) == 'range' and tag(rng[1]) == 'const' else None
            low = lo if isinstance(lo, int) else 0
            for cn, v in f.guards().get(bb, []):
                if tag(cn) == 'bin' and cn[2] == item and tag(cn[3]) == 'const' and isinstance(cn[3][2], int):
                    c = cn[3][2]
                    if cn[1] == 'Gt' and v is True:
                        low = max(low, c + 1)
                    elif cn[1] == 'Ge' and v is True:
                        low = max(low, c)
                    elif cn[1] == 'Le' and v is False:
                        low = max(low, c + 1)
                    elif cn[1] == 'Lt' and v is False:
                        low = max(low, c)
                    elif cn[1] == 'Ne' and v is True and c == low:
                        low = c + 1
            if low < 2:
                problems.append('the early return can fire at level n = %d: the convergence test then compares R[1,1] (Simpson) with the raw one-panel '
                                'trapezoid R[0,0]; x^2(x^2-1) on [-1,1] returns 0 instead of -4/15 for every eps > 0' % low)
            prev = ('agg', idx[1], idx[2], (('bin', 'Sub', item, ('const', 'usize', 1), 'usize'),) * 2) if idx is not None else None
            conds = f.control_conds(bb)
            cmpc = [c for c in conds if tag(c) == 'bin' and c[1] in ('Lt', 'Le') and c[4] == 'f64']
            if not cmpc:
                # the test may sit in a local closure (`converged(r[n,n], r[n-1,n-1])`): read its comparisons with the arguments substituted
                from ..tol import _bool_leaves
                for c in conds:
                    if tag(c) == 'call':
                        cmpc += [l for l, _ in _bool_leaves(prog, c, True, 0, f) if tag(l) == 'bin' and l[1] in ('Lt', 'Le') and l[4] == 'f64']
                if not cmpc:
                    unread_stop = True
            okc = bool(cmpc)
            for c in cmpc:
                reads = [z for z in subterms(c[2]) if tag(z) == 'call' and len(z[2]) == 2 and tag(z[2][1]) == 'agg']
                idxs = set(z[2][1][3] for z in reads)
                if idxs != {(item, item), prev[3]}:
                    okc = False
            if not okc and cmpc:
                problems.append('the stopping test does not compare R[n,n] with R[n-1,n-1] against the tolerance (difference < eps)')
        if unread_stop and not problems:
            rep.undecided('romberg-stop', key, 'no floating-point comparison found among the conditions of the early return (test written in a form not read)',
                          site_of(f.body), proof=False)
        elif nret == 0 and len(f._defs.get(0, [])) > 1:
            rep.undecided('romberg-stop', key, 'several return sites but none recognised as leaving the level loop')
        elif nret == 0:
            rep.ok('romberg-stop', key, 'no early return: all nmax levels are always computed')
        else:
            (rep.viol if problems else rep.ok)('romberg-stop', key, '; '.join(problems) if problems else
                                               'early return of R[n,n] only for n >= 2, on |R[n,n] - R[n-1,n-1]| (relative or absolute) < eps', site_of(f.body))
    rep.floor('romberg-stop', 1, 'romberg')

    # ---- D6 no scale-dependent threshold on the data inside any integration routine (helpers and closures included): e.g. an
    # "evenly spaced" fast path that compares step differences with an absolute constant treats fine or nearly-even grids as uniform
    from ..tol import check_scale_guards
    keys = sorted(k for k in pdb.bodies if k.startswith('integrate::'))
    check_scale_guards(prog, rep, 'data-threshold', keys, values=True, missing_ok=True,
                       why='the rule then treats inputs differently according to their scale (abscissae 1e-9 apart, or nearly even grids, take the other path)')
    rep.ok('data-threshold', 'data-threshold:scan', '%d integrate:: bodies scanned for data comparisons against absolute constants' % len(keys))

    # ---- D6' the composite rule has exactly n - 1 interior nodes for every panel count: the iterator that trapz sums over is counted on exact
    # witnesses, rounding-sensitive ones included -- a node grid taken from arange(a, b, dx) has ceil((b-a)/dx) points, which is n + 1 for
    # about one panel count in twenty (n = 49 on [0, 1]), and the extra node at b is then counted with full weight
    from ..precond import NC as _NC, Frame as _Frame, Uneval as _Uneval, count_of as _count_of, _nk as _nk_
    ft = prog.func('integrate::functions::trapz')
    key = 'trapezoid-nodes'
    if ft is not None:
        sums = [z for r in ft.return_values() for z in subterms(r) if tag(z) == 'call' and short(z[1]) == 'sum' and z[2]]
        sums += [z for st in ft.stores() for z in subterms(st.value) if tag(z) == 'call' and short(z[1]) == 'sum' and z[2] and z not in sums]
        if len(sums) != 1:
            rep.undecided('trapezoid-nodes', key, '%d summations in trapz' % len(sums), site_of(ft.body), proof=False)
        else:
            ncx_ = _NC(prog)
            bad, used, why_ = None, 0, None
            for a0, b0, n0 in ((0.0, 1.0, 1), (0.0, 1.0, 2), (0.0, 1.0, 7), (0.0, 1.0, 49), (0.0, 1.0, 98), (2.0, 5.0, 47), (0.1, 0.7, 111), (-1.0, 1.0, 103),
                               (4.0, 0.0, 49), (0.0, 1.0, 1000), (1.5, 1.5, 3)):
                env = {_nk_(('arg', 2, None)): a0, _nk_(('arg', 3, None)): b0, _nk_(('arg', 4, None)): n0}
                ctx = _Frame(ft, env=env, ncx=ncx_)
                try:
                    cnt = _count_of(sums[0][2][0], ctx)
                except _Uneval as ex:
                    why_ = str(ex)
                    continue
                except (TypeError, ValueError, OverflowError, ZeroDivisionError):
                    continue
                used += 1
                if cnt != n0 - 1:
                    bad = (a0, b0, n0, cnt)
                    break
            for kk in ncx_.visited:
                rep.touch(kk)
            if bad:
                rep.viol('trapezoid-nodes', key, 'trapz(f, %r, %r, %d) sums f over %d interior nodes; the composite trapezoid rule with %d panels has %d (an extra node is '
                         'weighted like an interior one, so even affine integrands are no longer exact)' % (bad[0], bad[1], bad[2], bad[3], bad[2], bad[2] - 1), site_of(ft.body))
            elif used:
                rep.ok('trapezoid-nodes', key, 'n - 1 interior nodes on %d (a, b, n) witnesses, rounding-sensitive panel counts included' % used)
            else:
                rep.undecided('trapezoid-nodes', key, 'node count not evaluated (%s)' % (why_ or 'no witness'), site_of(ft.body), proof=False)
    rep.floor('trapezoid-nodes', 1, 'trapz')

    # ---- D7 every rule accepts every interval: no witness (a < b, a > b, a == b; at least one panel) on which a quadrature routine cannot
    # return -- e.g. a positivity assert on the step reached with a == b through a helper
    from ..precond import check_returns, positive_sizes
    entry = sorted(k for k, b in pdb.bodies.items() if k.startswith('integrate::functions::') and b.kind != 'closure' and '{' not in k)
    check_returns(prog, rep, 'total', entry, domain=positive_sizes, what='for an interval the property quantifies over (reversed and empty intervals included)')
    rep.floor('total', 3, 'trapz, quad5, romberg')
    return {}


def _rc(t):
    """R[[i, j]] access -> (i, j)"""
    if tag(t) == 'call' and short(t[1]) in ('index', 'index_mut') and len(t[2]) == 2 and tag(t[2][1]) == 'agg' and len(t[2][1][3]) == 2:
        return t[2][1][3]
    return None


def _const_item(t):
    return t[3] if tag(t) == 'constx' else None


def _flatten_add(v):
    if tag(v) == 'bin' and v[1] == 'Add' and v[4] == 'f64':
        return _flatten_add(v[2]) + _flatten_add(v[3])
    return [v]
