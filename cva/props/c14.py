"""C14 — polynomial regression returns the least-squares polynomial.

D1 normal equations: fit stores coef = inv(V^T V) . (V^T y) with V = vandermonde(x, deg+1), consistent row-count arguments and shapes
   (orientation algebra); the length assert x.len() == y.len() dominates.
D2 Vandermonde pattern: row r holds x[r]^c for c = 0..deg (shared with C15).
D3 predict evaluates c0 + c1 x + ... by Horner over the coefficients in *reverse* order: fold(rev(coef), 0, |acc, c| acc*x + c), once per x.
Not decided: optimality under ill-conditioning of the normal equations (numerical)."""
from ..ir import tag, show, short, subterms
from ..matexpr import MatEngine, MatProblem, T, show_mat
from ..idx import IdxFunc, strip_casts
from ..poly import poly, peq, padd
from ..framework import site_of

LEVEL = 'other'
EXPLANATION = (
    'The fitting pipeline is evaluated in the orientation algebra (matmul by constant flags, xtx, invert_matrix, vandermonde as transfer '
    'functions): the stored coefficient vector must be the expression inv(V^T V).(V^T y) with the shapes implied by the row-count arguments; '
    'the residual-orthogonality characterisation of least squares is exactly this identity. Prediction is matched as a Horner fold over the '
    'reversed coefficient vector, which is the unique order consistent with the Vandermonde column order c = 0..deg. Numerical conditioning is '
    'not decided.')

P = 'predict::polynomial::PolynomialRegressor'


def run(prog, rep, tier, repo):
    pdb = prog.pdb
    me_ = MatEngine(prog)
    f = prog.func(P + '::fit')
    key = 'normal-equations:fit'
    if f is None:
        rep.viol('normal-equations', key, 'fit disappeared')
    else:
        rep.touch(f.body.key)
        me = ('arg', 1, f.names.get(1))
        x = ('arg', 2, f.names.get(2))
        y = ('arg', 3, f.names.get(3))
        rets = f.return_values()
        problems = []
        undec = []
        val = None
        if len(rets) == 1 and tag(rets[0]) == 'call' and rets[0][1] == P + '::update' and rets[0][2][0] == me:
            val = rets[0][2][1]
            g = prog.func(P + '::update')
            ok_upd = any(tag(s.target) == 'field' and s.target[2] == 0 and tag(s.value) == 'call' and short(s.value[1]) in ('to_owned', 'to_vec') and s.value[2][0] == ('arg', 2, g.names.get(2))
                         for s in g.stores())
            if not ok_upd:
                problems.append('update() does not store its argument into coef')
        else:
            st = [s for s in f.stores() if tag(s.target) == 'field' and s.target[1] == me and s.target[2] == 0]
            if len(st) == 1:
                val = st[0].value
            else:
                problems.append('coefficients are not stored through update(&coeffs)')
        if val is not None:
            ix = IdxFunc(prog, f)
            try:
                # equalities asserted on the way to the return (x.len() == y.len()) may be used to identify row-count arguments
                me_._cur_bb = f.cfg.returns[0] if f.cfg.returns else None
                me_.vander_seen = []
                e, r, c = me_.mat(f, val, ix, {x: 'x', y: 'y'})
                V = ('M', 'V')
                want = ('Mul', ('Inv', ('Mul', T(V), V)), ('Mul', T(V), ('M', 'y')))
                if e != want:
                    problems.append('fit computes %s, the least-squares solution is %s' % (show_mat(e), show_mat(want)))
                ncoef = ('len', ('field', me, 0, 'std::vec::Vec<f64>'))
                if not (strip_casts(r) == ncoef or peq(poly(r), poly(ncoef))):
                    problems.append('result has %s rows, expected coef.len()' % show(r))
                # vandermonde called with (x, coef.len()), wherever the call sits (fit itself or a helper read through by the evaluation)
                vd = list(getattr(me_, 'vander_seen', []))
                if not vd:
                    undec.append('no vandermonde call met while evaluating the fit')
                elif any(not (strip_casts(a0) == x and (strip_casts(a1) == ncoef or peq(poly(a1), poly(ncoef)))) for a0, a1 in vd):
                    bad_ = [(a0, a1) for a0, a1 in vd if not (strip_casts(a0) == x and (strip_casts(a1) == ncoef or peq(poly(a1), poly(ncoef))))][0]
                    problems.append('the design matrix is vandermonde(%s, %s), not vandermonde(x, coef.len())' % (show(bad_[0])[:30], show(bad_[1])[:30]))
            except MatProblem as ex:
                (problems if ex.definite else undec).append(str(ex))
        # length assert
        conds = [('bin', 'Eq', ('len', x), ('len', y), 'usize'), ('bin', 'Eq', ('len', y), ('len', x), 'usize')]
        mm = [c for c in f.calls() if c.path and (c.path.endswith('utils::matmul') or (
            c.path in pdb.bodies and c.path.startswith(P) and any(k_.endswith('utils::matmul') for k_ in prog.closure(c.path))))]
        if not mm:
            undec.append('no product call found in fit (directly or in a helper of the regressor)')
        elif not all(any(cn in conds and v is True for cn, v in f.guards().get(c.bb, [])) for c in mm):
            problems.append('assert_eq!(x.len(), y.len()) does not dominate the products')
        if undec and not problems:
            rep.undecided('normal-equations', key, '; '.join(undec), site_of(f.body), proof=False)
        else:
            (rep.viol if problems else rep.ok)('normal-equations', key, '; '.join(problems) if problems else 'coef = inv(V^T V).(V^T y), V = vandermonde(x, coef.len()); lengths asserted equal', site_of(f.body))
        if not problems:
            rep.sample('fit: coef = (inv((V\'.V)).(V\'.y))')
    rep.floor('normal-equations', 1, 'fit')

    # ---- D2 vandermonde (column c holds x^c, c from 0)
    f = prog.func('linalg::utils::vandermonde')
    key = 'vandermonde-order'
    if f is None:
        rep.viol('vandermonde-order', key, 'vandermonde disappeared')
    else:
        rep.touch(f.body.key)
        x = ('arg', 1, f.names.get(1))
        n = ('arg', 2, f.names.get(2))
        pushes = [c for c in f.calls() if c.path and short(c.path) == 'push']
        ok = False
        recognised = False
        if len(pushes) == 1:
            v = pushes[0].args[1]
            loops = sorted([li for li in f.loop_info() if pushes[0].bb in li['blocks'] and li['item'] is not None], key=lambda li: -len(li['blocks']))
            if len(loops) == 2 and tag(v) == 'call' and v[1].endswith('::powi'):
                recognised = True       # push of a power inside a two-level counting nest: base / exponent / range are decided
                outer, inner = loops
                ok = v[2][0] == outer['item'] and strip_casts(v[2][1]) == inner['item'] and inner['iter'] == ('range', ('const', 'usize', 0), n)
        # shortcut return sites: a value that does not depend on n cannot be the len(x) x n matrix for two different n
        extra_bad = None
        extra_unread = None
        sites = [(f.rvalue_term(d[3], d[1]) if d[0] == 'assign' else f.call_term(d[2], d[1]), d[1]) for d in f._defs.get(0, [])]
        built = pushes[0].args[0] if len(pushes) == 1 else None
        for val, bb in sites:
            if val == built or tag(val) == 'local':
                continue
            if n in list(subterms(val)):
                extra_unread = 'shortcut %s' % show(val)[:50]
                continue
            single = False
            for cn, vv in f.guards().get(bb, []):
                if tag(cn) == 'bin' and cn[1] == 'Eq' and n in (cn[2], cn[3]) and vv is True:
                    single = True
            if single:
                extra_unread = 'shortcut %s for one value of n' % show(val)[:50]
            else:
                gs = [show(cn) + (' is %s' % vv) for cn, vv in f.guards().get(bb, []) if n in list(subterms(cn))]
                extra_bad = (show(val)[:50], '; '.join(gs) or 'no test of n')
        if extra_bad:
            rep.viol('vandermonde-order', key, 'vandermonde returns %s under {%s}: a value that does not depend on n cannot be the len(x) x n matrix for every n that '
                     'reaches this return (n = 1 needs one column, n = 2 two)' % extra_bad, site_of(f.body))
        elif extra_unread and ok:
            rep.undecided('vandermonde-order', key, 'main construction read, %s not decided' % extra_unread, site_of(f.body), proof=False)
        elif ok:
            rep.ok('vandermonde-order', key, 'row per abscissa, column c = x^c for c in 0..n (ascending powers)')
        elif recognised:
            rep.viol('vandermonde-order', key, 'vandermonde is not x[r]^c with c ascending from 0', site_of(f.body))
        else:
            rep.undecided('vandermonde-order', key, 'construction idiom not read (no single push of a power in a two-level counting nest)', site_of(f.body), proof=False)
    rep.floor('vandermonde-order', 1, 'vandermonde')
    # ---- every row of the design matrix has exactly n entries, for every n >= 1 (degree 0 included): the pushes of one iteration of the row
    # loop are counted -- those outside inner loops once, those inside an inner counting loop max(0, hi - lo) times -- and compared with n
    # on exact witnesses (a construction that pushes x^0 and x^1 by hand and loops from 2 gives two entries for n = 1)
    f = prog.func('linalg::utils::vandermonde')
    key = 'row-length:vandermonde'
    if f is not None:
        from ..precond import tev as _tev, Frame as _Frame, Uneval as _Uneval, _nk as _nk_
        n_arg = ('arg', 2, f.names.get(2))
        pushes_ = [c for c in f.calls() if c.path and short(c.path) == 'push']
        loops_ = sorted([li for li in f.loop_info() if li['item'] is not None], key=lambda li: -len(li['blocks']))
        outer = loops_[0] if loops_ else None
        unread = None
        if outer is None or not pushes_ or any(c.bb not in outer['blocks'] for c in pushes_) or len({c.args[0] for c in pushes_}) != 1:
            unread = 'pushes are not all inside one row loop on one buffer'
        else:
            latches = [p_ for p_ in f.cfg.pred[outer['header']] if p_ in outer['blocks']]
            inner = [li for li in loops_[1:] if li['blocks'] < outer['blocks']]
            parts = []          # (multiplicity range or None, count)
            for c in pushes_:
                encl = [li for li in inner if c.bb in li['blocks']]
                if len(encl) > 1:
                    unread = 'push inside nested inner loops'
                    break
                if encl:
                    li = encl[0]
                    ilatches = [p_ for p_ in f.cfg.pred[li['header']] if p_ in li['blocks']]
                    if tag(li['iter']) not in ('range', 'rangeincl') or not all(f.cfg.dominates(c.bb, lt) for lt in ilatches):
                        unread = 'inner loop is not a counting range executed unconditionally'
                        break
                    parts.append((li['iter'], 1))
                else:
                    if not all(f.cfg.dominates(c.bb, lt) for lt in latches):
                        unread = 'a push of the row loop is conditional'
                        break
                    parts.append((None, 1))
        if unread:
            rep.undecided('row-length', key, unread, site_of(f.body), proof=False)
        else:
            bad = None
            try:
                for n0 in (1, 2, 3, 4, 7):
                    ctx = _Frame(f, env={_nk_(n_arg): n0})
                    tot = 0
                    for rng, cnt in parts:
                        if rng is None:
                            tot += cnt
                        else:
                            lo, hi = _tev(rng[1], ctx), _tev(rng[2], ctx)
                            tot += cnt * max(0, hi - lo + (1 if tag(rng) == 'rangeincl' else 0))
                    if tot != n0:
                        bad = (n0, tot)
                        break
            except _Uneval as ex:
                rep.undecided('row-length', key, 'loop bounds not evaluated (%s)' % str(ex)[:40], site_of(f.body), proof=False)
                bad = 'unread'
            if bad == 'unread':
                pass
            elif bad:
                rep.viol('row-length', key, 'vandermonde(x, %d) pushes %d entries per row: the design matrix of a degree-%d fit must have %d column(s), so the shapes '
                         'of the normal equations no longer match (fit panics or mis-reads the matrix)' % (bad[0], bad[1], bad[0] - 1, bad[0]), site_of(f.body))
            else:
                rep.ok('row-length', key, 'each row receives exactly n entries for n = 1, 2, 3, 4, 7')
    rep.floor('row-length', 1, 'vandermonde')
    # which entries of the design matrix are written must not depend on the abscissae (e.g. skipping rows with x == 0 leaves the x^0 column 0)
    from . import c15
    c15.d8_oblivious(prog, rep, only=['linalg::utils::vandermonde'], rule='design-oblivious')
    rep.floor('design-oblivious', 1, 'vandermonde')

    # ---- D3 Horner
    f = prog.func(P + '::predict')
    key = 'horner:predict'
    if f is None:
        rep.viol('horner', key, 'predict disappeared')
    else:
        rep.touch(f.body.key)
        me = ('arg', 1, f.names.get(1))
        x = ('arg', 2, f.names.get(2))
        problems = []
        undec = []
        rets = f.return_values()
        ok = False
        if len(rets) == 1 and tag(rets[0]) == 'call' and short(rets[0][1]) == 'collect' and tag(rets[0][2][0]) == 'call' and short(rets[0][2][0][1]) == 'map':
            it, cl = rets[0][2][0][2]
            if not (tag(it) == 'call' and short(it[1]) == 'iter' and it[2][0] == x):
                problems.append('not one prediction per element of x')
            g = prog.func(cl[2]) if tag(cl) == 'agg' else None
            if g is None:
                undec.append('outer closure not found')
            else:
                rep.touch(cl[2])
                val = ('arg', 2, g.names.get(2))
                rv = g.return_values()
                if len(rv) == 1 and tag(rv[0]) == 'call' and short(rv[0][1]) == 'fold':
                    src, init, cl2 = rv[0][2]
                    # count reversals between coef and the fold
                    nrev = 0
                    s_ = src
                    while tag(s_) == 'call' and short(s_[1]) in ('rev', 'iter', 'into_iter'):
                        if short(s_[1]) == 'rev':
                            nrev += 1
                        s_ = s_[2][0]
                    is_coef = tag(s_) == 'field' and s_[2] == 0 and tag(s_[1]) == 'upvar'
                    if not is_coef:
                        problems.append('the fold does not run over self.coef')
                    if nrev % 2 != 1:
                        problems.append('coefficients are folded in ascending order (reversed %d times): Horner\'s scheme acc*x + c must start from the highest power' % nrev)
                    if not (tag(init) == 'const' and init[2] == 0.0):
                        problems.append('fold does not start from 0')
                    h = prog.func(cl2[2]) if tag(cl2) == 'agg' else None
                    if h is None:
                        undec.append('fold closure not found')
                    else:
                        rep.touch(cl2[2])
                        acc = ('arg', 2, h.names.get(2))
                        co = ('arg', 3, h.names.get(3))
                        hv = h.return_values()
                        okh = False
                        if len(hv) == 1 and tag(hv[0]) == 'bin' and hv[0][1] == 'Add':
                            for a_, b_ in ((hv[0][2], hv[0][3]), (hv[0][3], hv[0][2])):
                                if b_ == co and tag(a_) == 'bin' and a_[1] == 'Mul' and acc in (a_[2], a_[3]):
                                    other = a_[3] if a_[2] == acc else a_[2]
                                    okh = tag(other) == 'upvar' and tag(cl2[3][other[1]]) == 'arg' and cl2[3][other[1]] == val
                        if not okh:
                            problems.append('fold step is not acc * x + c: %s' % [show(v)[:80] for v in hv])
                else:
                    undec.append('prediction is not a fold over the coefficients')
        else:
            undec.append('predict is not x.iter().map(..).collect()')
        if problems:
            rep.viol('horner', key, '; '.join(problems), site_of(f.body))
        elif undec:
            rep.undecided('horner', key, 'evaluation idiom not read by this rule (%s)' % '; '.join(undec), site_of(f.body), proof=False)
        else:
            rep.ok('horner', key, 'fold(rev(coef), 0, |acc, c| acc*x + c) per x: c0 + c1 x + ... + cd x^d')
    rep.floor('horner', 1, 'predict')
    # ---- D4 the fit sees every observation: a value filter on the way (skipping "missing" data, say) must keep every finite value --
    # f64::is_normal is false for 0.0, so a filter written with it drops the observations whose abscissa or response is exactly zero
    from ..precond import check_data_filters
    check_data_filters(prog, rep, 'data-filter', [P + '::fit', P + '::predict'], what='and the fit is the least-squares polynomial of a subset of the data')
    rep.floor('data-filter', 1, 'scan of fit / predict')
    return {}
