"""C06 — GLM fitting returns the (penalised) MLE with correct inference.

Decided structural necessary conditions:
D1 penalty: the gradient penalty is alpha * coef[i] for i >= 1 (intercept unpenalised) and the information penalty adds alpha on the
   diagonal (i*p + i): the score equations solved are the ridge ones with the configured strength.
D2 score form: gradient = -X^T [w (y - mu) dmu/var] and information = X^T diag(w dmu^2/var) X (closed forms; both depend on the
   weights); eta includes the offsets in fit and in predict; the step is coef - solve(information, gradient).
D3 error-not-wrong-answer: Err is returned exactly when n_iter >= max_iter and the convergence flag is false; Ok otherwise.
D4 deviance scale type per family (E-SYM, specialised per enum variant): Gaussian deviance : Y^2 (a residual sum of squares).
D5 inference chain: dispersion = deviance/(n - p) (families with dispersion) else 1; covariance = dispersion * invert_matrix(information);
   standard errors = vsqrt(diag(covariance)); stored results come from the same fit (coef, deviance(y, mu), unpenalised information).
D6 stride of the design-matrix accesses.
Not decided: convergence to the MLE, link/variance tables of the non-Gaussian families beyond scale types, AIC/BIC constants."""
from ..ir import tag, show, short, subterms, is_f64_method
from ..elem import ElemEngine, show_expr, has_top, top_reasons, canon_comm, Env
from ..sym import SymInfer, Ty, unit
from ..idx import check_stride, IdxFunc, strip_casts
from ..poly import poly, peq, padd, pmul, pconst
from ..framework import site_of

LEVEL = 'other'
EXPLANATION = (
    'Dependency signatures and closed forms on MIR: the penalty helpers\' effects on their &mut arguments are evaluated under the element '
    'abstraction (gradient += alpha*coef for i >= 1, information diagonal += alpha); gradient and information closed forms are compared with the '
    'Fisher-scoring definitions; the fit loop is matched for the Newton step, the offset handling and the Err/Ok exit discipline; the family '
    'deviance is typed per enum variant (Gaussian: Y^2); the inference chain is matched term by term. That the iteration converges to the MLE '
    'is not decided.')

G = 'predict::glms::glm::GLM'
FAM = 'predict::glms::families::ExponentialFamily'
S = frozenset([('sym', 'SELF')])


def sy(n):
    return frozenset([('sym', n)])


def run(prog, rep, tier, repo):
    pdb = prog.pdb
    eng = ElemEngine(prog)
    fields = {fl['name']: i for i, fl in enumerate(pdb.adts[G]['variants'][0]['fields'])} if G in pdb.adts else {}
    alpha = ('fld', ('sym', 'SELF'), fields.get('alpha', 1))

    # ------------------------------------------------------------------ D1 penalty
    k = G + '::apply_dbeta_penalty'
    key = 'penalty:gradient'
    f = prog.func(k)
    if f is None:
        rep.viol('penalty', key, 'apply_dbeta_penalty disappeared')
    else:
        rep.touch(k)
        ret, eff = eng.result_of(k, {1: S, 2: sy('DBETA'), 3: sy('COEF')})
        got = canon_comm(eff.get(2, frozenset()))
        want = canon_comm(frozenset([('b', 'Add', ('sym', 'DBETA'), ('b', 'Mul', alpha, ('sym', 'COEF')))]))
        ix = IdxFunc(prog, f)
        st = [s for s in f.stores() if tag(s.target) == 'index']
        rng_ok = False
        idx_ok = False
        unread = None
        if len(st) == 1:
            i = st[0].target[2]
            r = ix.item_range(i) if tag(i) == 'item' else None
            if r is not None:
                rng_ok = pconst(r[0]) == 1
                reads = [z for z in subterms(st[0].value) if tag(z) == 'index']
                idx_ok = all(z[2] == i for z in reads) and len(reads) == 2
            elif tag(i) == 'field' and i[2] == 0 and tag(i[1]) == 'item':
                # for (i, c) in coef.iter().enumerate().skip(s): index i runs from s and c is coef[i]
                it = i[1][2]
                skip = 0
                chain = []
                while tag(it) == 'call' and short(it[1]) in ('skip', 'enumerate', 'iter', 'into_iter', 'copied', 'cloned') and it[2]:
                    chain.append(short(it[1]))
                    if short(it[1]) == 'skip':
                        skip = it[2][1][2] if tag(it[2][1]) == 'const' else None
                    it = it[2][0]
                coef_t = ('arg', 3, f.names.get(3))
                if it == coef_t and 'enumerate' in chain and skip is not None:
                    aligned = 'skip' not in chain or chain.index('skip') < chain.index('enumerate')     # outermost first: skip(enumerate(..))
                    rng_ok = skip == 1
                    elem_reads = [z for z in subterms(st[0].value) if tag(z) == 'field' and z[1] == i[1] and z[2] == 1]
                    dreads = [z for z in subterms(st[0].value) if tag(z) == 'index']
                    idx_ok = aligned and len(elem_reads) >= 1 and all(z[2] == i for z in dreads)
                else:
                    unread = 'index source %s' % show(i[1][2])[:60]
            else:
                unread = 'index %s' % show(i)[:40]
        elif len(st) != 1:
            unread = '%d element stores' % len(st)
        if unread and got == want:
            rep.undecided('penalty', key, 'which coefficients are penalised is not read (%s)' % unread, site_of(f.body), proof=False)
        elif got == want and rng_ok and idx_ok:
            rep.ok('penalty', key, 'dbeta[i] += alpha * coef[i] for i in 1.. (intercept unpenalised)')
            rep.sample('apply_dbeta_penalty: dbeta := %s' % show_expr(got))
        elif got != want:
            rep.viol('penalty', key, 'the ridge term added to the gradient is %s; the score equations of the penalised likelihood need dbeta[i] + alpha*coef[i]: '
                     'with this code every alpha > 0 gives the same fit' % show_expr(got), site_of(f.body))
        elif not rng_ok:
            rep.viol('penalty', key, 'the gradient penalty does not start at index 1: the intercept is penalised', site_of(f.body))
        else:
            rep.viol('penalty', key, 'gradient penalty pairs dbeta and coef at different indices', site_of(f.body))
    k = G + '::apply_ddbeta_penalty'
    key = 'penalty:information'
    f = prog.func(k)
    if f is None:
        rep.viol('penalty', key, 'apply_ddbeta_penalty disappeared')
    else:
        rep.touch(k)
        ret, eff = eng.result_of(k, {1: S, 2: sy('DD')})
        got = canon_comm(eff.get(2, frozenset()))
        want = canon_comm(frozenset([('b', 'Add', ('sym', 'DD'), alpha)]))
        st = [s for s in f.stores() if tag(s.target) == 'index']
        p = ('arg', 3, f.names.get(3))
        diag_ok = len(st) == 1 and tag(st[0].target[2]) != 'const' and any(True for _ in [0]) and \
            peq(poly(st[0].target[2]), padd(pmul(poly(_item_of(st[0].target[2])), poly(p)), poly(_item_of(st[0].target[2])))) if st and _item_of(st[0].target[2]) else False
        if got == want and diag_ok:
            rep.ok('penalty', key, 'ddbeta[i*p + i] += alpha')
        else:
            if len(st) == 1 and got != want:
                rep.viol('penalty', key, 'information penalty is %s at %s, expected +alpha on the diagonal i*p+i' % (show_expr(got), show(st[0].target[2]) if st else '?'), site_of(f.body))
            elif len(st) == 1 and _item_of(st[0].target[2]) and not diag_ok:
                rep.viol('penalty', key, 'information penalty is %s at %s, expected +alpha on the diagonal i*p+i' % (show_expr(got), show(st[0].target[2])), site_of(f.body))
            else:
                rep.undecided('penalty', key, 'the diagonal update is not a single indexed store ddbeta[i*p + i] += alpha (%d stores): not read' % len(st), site_of(f.body), proof=False)
    rep.floor('penalty', 2, 'gradient and information penalties')

    # ------------------------------------------------------------------ D2 score form
    k = G + '::compute_dbeta'
    key = 'score-form:gradient'
    if k in pdb.bodies:
        rep.touch(k)
        ret, _ = eng.result_of(k, {1: S, 2: sy('X'), 3: sy('Y'), 4: sy('MU'), 5: sy('DMU'), 6: sy('VAR'), 7: sy('W')})
        want = canon_comm(frozenset([('b', 'Sub', ('c', 0.0), ('b', 'Mul', ('sym', 'X'), ('b', 'Mul', ('b', 'Mul', ('sym', 'W'), ('b', 'Sub', ('sym', 'Y'), ('sym', 'MU'))),
                                                                                          ('b', 'Div', ('sym', 'DMU'), ('sym', 'VAR')))))]))
        got = canon_comm(ret) if not has_top(ret) else ret
        if has_top(ret):
            rep.undecided('score-form', key, 'closed form not extracted: %s' % sorted(top_reasons(ret))[:2], proof=False)
        elif got == want or _same_factors(got, {'X', 'W', 'Y', 'MU', 'DMU', 'VAR'}, want):
            rep.ok('score-form', key, 'gradient = -X^T [w (y - mu) dmu/var]: %s' % show_expr(ret)[:140])
            rep.sample('compute_dbeta = %s' % show_expr(ret)[:160])
        elif isinstance(got, frozenset) and want <= got and got - want <= frozenset([('c', 0.0)]):
            # the accumulated form is right, but the initial 0.0 is still a possible element value: full coverage of the
            # coefficient range by the update (a fold over rows with an inner zip) is not derived
            rep.undecided('score-form', key, 'gradient elements are %s: the update has the Fisher form, its coverage of every coefficient is not derived' % show_expr(ret)[:160],
                          site_of(pdb.bodies[k]), proof=False)
        else:
            rep.viol('score-form', key, 'gradient is %s, Fisher scoring needs -X^T [w (y - mu) dmu/var]' % show_expr(ret)[:220], site_of(pdb.bodies[k]))
    k = G + '::compute_ddbeta'
    key = 'score-form:information'
    if k in pdb.bodies:
        rep.touch(k)
        ret, _ = eng.result_of(k, {1: S, 2: sy('X'), 3: sy('DMU'), 4: sy('VAR'), 5: sy('W')})
        wwt = canon_comm(('b', 'Div', ('b', 'Mul', ('sym', 'W'), ('b', 'Mul', ('sym', 'DMU'), ('sym', 'DMU'))), ('sym', 'VAR')))
        goods = [e for e in ret if e[0] != 'top' and not _has_top_e(e)]
        ok = bool(goods) and all(_is_xwx(canon_comm(e), wwt) for e in goods)
        f = prog.func(k)
        mm = [r for r in f.return_values() if tag(r) == 'call' and r[1].endswith('utils::matmul')]
        okmm = len(mm) == 1 and mm[0][2][4] == ('const', 'bool', True) and mm[0][2][5] == ('const', 'bool', False) and mm[0][2][0] == ('arg', 2, f.names.get(2))
        if not goods or not mm:
            rep.undecided('score-form', key, 'closed form of the information matrix not extracted (elements %s, matmul call %s)' % (show_expr(ret)[:80], bool(mm)), site_of(pdb.bodies[k]), proof=False)
        elif ok and okmm:
            rep.ok('score-form', key, 'information = X^T diag(w dmu^2/var) X')
        else:
            rep.viol('score-form', key, 'information is %s (matmul flags ok: %s), expected X^T diag(w dmu^2/var) X' % (show_expr(frozenset(goods))[:200], okmm), site_of(pdb.bodies[k]))
    rep.floor('score-form', 2, 'gradient, information')

    # ------------------------------------------------------------------ D2' the score helpers receive the quantities their parameters stand for
    # compute_dbeta / compute_ddbeta are checked above as functions of (x, y, mu, dmu, var, w); at every call site the value bound to `dmu`
    # must be the derivative of the inverse link, the one bound to `var` the variance function, the one bound to `mu` the inverse link
    # (for canonical links dmu == var numerically, so a swap is invisible there and wrong for Gamma / Exponential)
    producers = {'dmu': 'd_inv_link', 'var': 'variance', 'mu': 'inv_link'}
    nsites = 0
    for hk in (G + '::compute_dbeta', G + '::compute_ddbeta'):
        h = prog.func(hk)
        if h is None:
            continue
        pnames = h.body.arg_names()
        for ck in sorted(pdb.bodies):
            if not ck.startswith(G):
                continue
            cf = prog.func(ck)
            if cf is None:
                continue
            for c in cf.calls():
                if c.path != hk:
                    continue
                nsites += 1
                key = 'score-args:%s@%s:%d' % (short(hk), short(ck), nsites)
                bad, unread = [], []
                for i, a in enumerate(c.args):
                    want_p = producers.get(pnames[i] if i < len(pnames) else None)
                    if want_p is None:
                        continue
                    vals = [st.value for st in cf.stores() if st.target == a] if tag(a) == 'local' else [a]
                    vals = [v for v in vals if not (tag(v) == 'call' and short(v[1]) in ('new', 'with_capacity', 'zeros'))] or vals
                    prods = set()
                    for v in vals:
                        while tag(v) == 'call' and short(v[1]) in ('deref', 'clone', 'to_vec', 'to_owned', 'as_slice') and v[2]:
                            v = v[2][0]
                        prods.add(short(v[1]) if tag(v) == 'call' else None)
                    if prods == {want_p}:
                        continue
                    if None in prods or not prods:
                        unread.append('%s <- %s' % (pnames[i], show(a)[:30]))
                    elif prods & set(producers.values()):
                        bad.append('parameter `%s` receives the result of %s (expected %s)' % (pnames[i], '/'.join(sorted(p_ for p_ in prods if p_)), want_p))
                    else:
                        unread.append('%s <- %s' % (pnames[i], '/'.join(sorted(p_ for p_ in prods if p_))))
                if bad:
                    rep.viol('score-args', key, '%s is called with swapped quantities: %s' % (short(hk), '; '.join(bad)), site_of(c.span))
                elif unread:
                    rep.undecided('score-args', key, 'origin of the arguments not read: %s' % '; '.join(unread), site_of(c.span), proof=False)
                else:
                    rep.ok('score-args', key, 'mu, dmu, var come from inv_link, d_inv_link, variance')
    rep.floor('score-args', 2, 'the gradient and the information helper are each called somewhere in the GLM')

    # ------------------------------------------------------------------ fit loop
    f = prog.func(G + '::fit')
    if f is None:
        rep.viol('fit-loop', 'fit-loop', 'GLM::fit disappeared')
        return {}
    rep.touch(f.body.key)
    me = ('arg', 1, f.names.get(1))
    x = ('arg', 2, f.names.get(2))
    y = ('arg', 3, f.names.get(3))
    maxit = ('arg', 4, f.names.get(4))
    loc = {}
    for s in f.stores():
        if tag(s.target) == 'local' and s.target[2]:
            loc.setdefault(s.target[2], []).append(s)
    # Newton step (by shape, not by variable names): a store  L := vsub(L, solve(H, g))
    key = 'fit-loop:newton-step'

    def deref_local(t, depth=0):
        """value of a single-purpose multi-definition local when all its definitions are one and the same call shape"""
        if tag(t) == 'local' and depth < 3:
            defs = [st.value for st in f.stores() if st.target == t]
            calls_ = [d for d in defs if tag(d) == 'call']
            if calls_ and len({d[1] for d in calls_}) == 1 and len(calls_) == len(defs):
                return calls_[0]
        return t
    steps = []
    for st in f.stores():
        v = st.value
        if tag(st.target) == 'local' and tag(v) == 'call' and short(v[1]) in ('vsub', 'vadd') and len(v[2]) == 2 and v[2][0] == st.target:
            b = deref_local(v[2][1])
            if tag(b) == 'call' and b[1].endswith('utils::solve'):
                steps.append((st, b))
    coef_local = None
    if len(steps) != 1:
        rep.undecided('fit-loop', key, 'no unique update of the form L := vsub(L, solve(H, g)) found', site_of(f.body), proof=False)
    else:
        st, b = steps[0]
        coef_local = st.target
        H, g_ = deref_local(b[2][0]), deref_local(b[2][1])
        okh = tag(H) == 'call' and short(H[1]) == 'compute_ddbeta'
        okg = tag(g_) == 'call' and short(g_[1]) == 'compute_dbeta'
        pen = [c for c in f.calls() if c.path in (G + '::apply_dbeta_penalty', G + '::apply_ddbeta_penalty')]
        okp = len(pen) == 2 and all(f.cfg.can_reach(c.bb, st.bb) for c in pen) and \
            all(any(tag(cn) == 'bin' and cn[1] == 'Gt' and cn[2] == ('field', me, 1, 'f64') and v is True for cn, v in f.guards().get(c.bb, [])) for c in pen)
        # the penalties act on the very buffers that enter the solve
        okb = all(any(deref_local(a) in (H, g_) or a in (b[2][0], b[2][1]) for a in c.args) for c in pen)
        if short(st.value[1]) == 'vadd':
            rep.viol('fit-loop', key, 'the update adds the Newton step (L := L + solve(H, g)); with g the gradient of the deviance the step must be subtracted', site_of(f.body))
        elif okh and okg and okp and okb:
            rep.ok('fit-loop', key, 'coef := coef - solve(information, gradient), penalties applied to both when alpha > 0')
        else:
            rep.viol('fit-loop', key, 'the update is L - solve(%s, %s): expected solve(compute_ddbeta(..), compute_dbeta(..)) with both penalties applied to these buffers under alpha > 0 '
                     '(penalty calls: %d, guarded/placed: %s, on the solve operands: %s)' % (show(H)[:40], show(g_)[:40], len(pen), okp, okb), site_of(f.body))
    # offsets: the argument of inv_link is X.coef, plus the offsets when they are set
    key = 'fit-loop:offsets'
    inv = [c for c in f.calls() if c.path and short(c.path) == 'inv_link']
    if not inv:
        rep.undecided('fit-loop', key, 'no inv_link call found', site_of(f.body), proof=False)
    else:
        eta = inv[0].args[1]

        def alternatives(t, fn, depth=0):
            """value alternatives of the linear predictor: definitions of a multi-definition local, return sites of an in-crate helper"""
            if tag(t) == 'local' and depth < 3:
                out = []
                for st in fn.stores():
                    if st.target == t:
                        out += alternatives(st.value, fn, depth + 1) if st.value != t else []
                return out or [(t, fn)]
            if tag(t) == 'call' and t[1] in pdb.bodies and t[1].startswith(G) and depth < 3:
                h = prog.func(t[1])
                rep.touch(t[1])
                out = []
                for r in h.return_values():
                    out += alternatives(r, h, depth + 1)
                return out or [(t, fn)]
            return [(t, fn)]
        alts = alternatives(eta, f)

        def has_matmul(t, fn, depth=0):
            for z in subterms(t):
                if tag(z) == 'call' and z[1].endswith('utils::matmul'):
                    return True
                if tag(z) == 'local' and depth < 3 and any(has_matmul(st.value, fn, depth + 1) for st in fn.stores() if st.target == z and st.value != z):
                    return True
            return False
        plain = [a for a, fn in alts if has_matmul(a, fn)]
        with_off = [a for a, fn in alts if tag(a) == 'call' and short(a[1]) == 'vadd' and any(
            tag(z) == 'field' and tag(z[1]) == 'arg' and z[1][1] == 1 and z[2] == fields.get('offsets') for z in subterms(a))]
        if with_off and plain:
            rep.ok('fit-loop', key, 'eta = X.coef (+ offsets when set)')
        elif plain and not with_off:
            rep.viol('fit-loop', key, 'the linear predictor passed to inv_link is X.coef in every alternative (%s): the offsets are never added' % [show(a)[:40] for a in plain][:2], site_of(f.body))
        else:
            rep.undecided('fit-loop', key, 'linear predictor %s not read' % show(eta)[:60], site_of(f.body), proof=False)
    # ------------------------------------------------------------------ D3 Err/Ok discipline
    key = 'fit-loop:error-exit'
    err_bbs, ok_bbs = [], []
    for d in f._defs.get(0, []):
        if d[0] == 'assign' and d[3].kind == 'agg':
            p = d[3].agg.get('path', '')
            if p.startswith('std::result::Result'):
                (err_bbs if d[3].agg.get('variant') == 1 else ok_bbs).append(d[1])

    def is_conv(cn, depth=0):
        if tag(cn) == 'call' and cn[1] == G + '::has_converged':
            return True
        if tag(cn) == 'local' and f.body.local_ty(cn[1]) == 'bool' and depth < 3:
            defs = [st.value for st in f.stores() if st.target == cn]
            return bool(defs) and all(is_conv(d, depth + 1) or (tag(d) == 'const' and d[2] is False) for d in defs) and any(is_conv(d, depth + 1) for d in defs)
        if tag(cn) == 'field' and tag(cn[1]) == 'local' and depth < 3:
            # component of a tuple handed out of `loop { .. break (.., done) }`
            defs = [st.value for st in f.stores() if st.target == cn[1] and tag(st.value) == 'agg' and cn[2] < len(st.value[3])]
            return bool(defs) and all(is_conv(d[3][cn[2]], depth + 1) for d in defs)
        return False

    def limit_op(cn, v):
        """'Ge' / 'Gt' when (cn is v) means step counter >= / > max_iter, else None"""
        if tag(cn) == 'bin' and cn[1] in ('Ge', 'Gt', 'Lt', 'Le') and maxit in (cn[2], cn[3]) and isinstance(v, bool):
            other = cn[3] if cn[2] == maxit else cn[2]
            op = cn[1] if cn[2] == other else {'Lt': 'Gt', 'Le': 'Ge', 'Gt': 'Lt', 'Ge': 'Le'}[cn[1]]
            if not v:
                op = {'Lt': 'Ge', 'Le': 'Gt', 'Gt': 'Le', 'Ge': 'Lt'}[op]
            return op if op in ('Ge', 'Gt') else None
        return None

    def is_limit(cn, v):
        return limit_op(cn, v) is not None
    if len(err_bbs) != 1 or not ok_bbs:
        rep.undecided('fit-loop', key, 'Err/Ok return sites not recognised (%d / %d)' % (len(err_bbs), len(ok_bbs)), site_of(f.body), proof=False)
    else:
        gs = f.guards().get(err_bbs[0], [])
        notconv = any((is_conv(cn) and v is False) or (tag(cn) == 'un' and cn[1] == 'Not' and is_conv(cn[2]) and v is True) for cn, v in gs)
        okconv = all(any((is_conv(cn) and v is True) or (tag(cn) == 'un' and cn[1] == 'Not' and is_conv(cn[2]) and v is False) for cn, v in f.guards().get(bb, [])) or
                     any(is_limit(cn, (not v) if isinstance(v, bool) else v) for cn, v in f.guards().get(bb, [])) for bb in ok_bbs)
        any_conv_guard = any(is_conv(cn) or (tag(cn) == 'un' and is_conv(cn[2])) for bb in err_bbs + ok_bbs for cn, v in f.guards().get(bb, []))
        if not okconv:
            # Ok is the fall-through of `if limit && !converged { return Err }` after a loop that is left only on (limit || converged):
            # then Ok implies converged
            err_limit = any(is_limit(cn, v) for cn, v in gs)
            loops_ = f.cfg.loops()
            main_ = max(loops_.items(), key=lambda kv: len(kv[1])) if loops_ else None
            if main_ is not None and err_limit and notconv:
                exits_ = [(cn, v) for s_, d_, cn, v in f.edge_conditions() if s_ in main_[1] and d_ not in main_[1] and not f.cfg.only_panics_from(d_) and tag(cn) != 'discr']
                okconv = bool(exits_) and all(is_limit(cn, v) or (is_conv(cn) and v is True) or (tag(cn) == 'un' and cn[1] == 'Not' and is_conv(cn[2]) and v is False)
                                             for cn, v in exits_)
                # the Err test must hold whenever the loop was left at the limit: its comparison may not be stricter than the loop's
                ex_ops = {limit_op(cn, v) for cn, v in exits_ if is_limit(cn, v)}
                er_ops = {limit_op(cn, v) for cn, v in gs if is_limit(cn, v)}
                if 'Ge' in ex_ops and er_ops == {'Gt'}:
                    okconv = False
        # the flag that receives has_converged(..) may not also be set to true by anything else (a shortcut "this family needs one step")
        forced = []
        for st_ in f.stores():
            if tag(st_.target) == 'local' and f.body.local_ty(st_.target[1]) == 'bool' and tag(st_.value) == 'call' and st_.value[1] == G + '::has_converged':
                for st2 in f.stores():
                    if st2.target == st_.target and tag(st2.value) == 'const' and st2.value[2] is True:
                        forced.append((st_.target, st2))
        if forced:
            loc_, st2 = forced[0]
            gs2 = [show(cn)[:40] + (' is %s' % v) for cn, v in f.guards().get(st2.bb, []) if tag(cn) != 'discr' or True][:3]
            rep.viol('fit-loop', key, 'the convergence flag `%s` is also set to true without the convergence test (under %s): fit() then reports success for '
                     'coefficients that were never checked to have stopped moving' % (show(loc_), '; '.join(gs2) or 'no condition'), site_of(st2.span))
        elif notconv and okconv:
            rep.ok('fit-loop', key, 'Err is returned only when the convergence test failed; Ok only when it succeeded')
        elif not any_conv_guard:
            rep.undecided('fit-loop', key, 'the convergence flag guarding the Err/Ok exits was not traced', site_of(f.body), proof=False)
        else:
            rep.viol('fit-loop', key, 'the Err/Ok exits are not governed by the convergence test: a non-converged fit could be reported as success', site_of(f.body))
    # ------------------------------------------------------------------ stored results
    key = 'fit-loop:stored-results'
    w = {}
    for s in f.stores():
        if tag(s.target) == 'field' and s.target[1] == me:
            w[s.target[2]] = s.value
    problems = []

    def some(v):
        return v[3][0] if tag(v) == 'agg' and v[1] == 'adt' and v[2].startswith('std::option::Option') and v[3] else None
    cv = some(w.get(fields.get('coef'), ()))
    if coef_local is not None and cv is not None and cv != coef_local and not (tag(cv) == 'call' and short(cv[1]) in ('clone', 'to_vec') and cv[2][0] == coef_local):
        problems.append('self.coef is not the final iterate')
    dv = some(w.get(fields.get('deviance'), ()))
    if not (tag(dv) == 'call' and dv[1] == FAM + '::deviance' and dv[2][1] == y):
        problems.append('self.deviance is not family.deviance(y, mu)')
    iv = some(w.get(fields.get('information_matrix'), ()))
    if not (tag(iv) == 'call' and short(iv[1]) == 'compute_ddbeta' and iv[2][1] == x):
        problems.append('self.information_matrix is not compute_ddbeta(x, ..)')
    else:
        # freshness: the stored object must not be one that a callee received by &mut (or that is written through) in this body --
        # the scoring step's Hessian buffer is penalised in place by apply_ddbeta_penalty
        from ..ir import root
        mutated = {}
        for c in f.calls():
            for a, ty in zip(c.args, c.argtys or ()):
                if isinstance(ty, str) and ty.startswith('&mut') and tag(a) == 'call' and c.path and not c.path.endswith('deref_mut'):
                    mutated[a] = short(c.path)
        for s_ in f.stores():
            r = s_.target
            while tag(r) in ('index', 'field', 'deref'):
                r = r[1]
            if tag(r) == 'call' and r is not s_.target:
                mutated.setdefault(r, 'an element store')
        if iv in mutated:
            problems.append('self.information_matrix is the buffer that %s modifies in place (it is no longer the unpenalised Fisher information '
                            'compute_ddbeta returned: with alpha > 0 the ridge term is added to its diagonal, so the reported covariance and standard '
                            'errors are too small)' % mutated[iv])
    (rep.viol if problems else rep.ok)('fit-loop', key, '; '.join(problems) if problems else 'coef, deviance(y, mu) and the unpenalised information are stored', site_of(f.body))
    rep.floor('fit-loop', 4, 'newton step, offsets, error exit, stored results')

    # ------------------------------------------------------------------ convergence test is on the magnitude of the change
    hc = prog.func(G + '::has_converged')
    key = 'convergence-magnitude'
    if hc is None:
        rep.undecided('convergence-magnitude', key, 'has_converged not found (convergence test inlined?)', proof=False)
    else:
        rep.touch(hc.body.key)
        loss_args = [('arg', i, hc.names.get(i)) for i in range(2, hc.body.arg_count + 1)]
        cmps = []
        pool = list(hc.return_values()) + [st.value for st in hc.stores()] + [c for gl in hc.guards().values() for c, _ in gl]
        for t in pool:
            for z in subterms(t):
                if tag(z) == 'bin' and z[1] in ('Lt', 'Le', 'Gt', 'Ge') and len(z) > 4 and z[4] == 'f64' and z not in cmps:
                    if any(a in subterms(z) for a in loss_args[:2]) and any(tag(q) == 'bin' and q[1] == 'Sub' for q in subterms(z)) or any(tag(q) == 'local' for q in (z[2], z[3])):
                        cmps.append(z)

        def nonneg(t, bb=None):
            """is t provably >= 0 (or NaN)?  returns True / False (provably signed) / None"""
            if tag(t) == 'call' and short(t[1]) == 'abs':
                return True
            if tag(t) == 'bin' and t[1] == 'Div':
                n_ = nonneg(t[2], bb)
                return n_
            if tag(t) == 'bin' and t[1] == 'Mul':
                a_, b_ = nonneg(t[2], bb), nonneg(t[3], bb)
                return True if (a_ and b_) else (False if (a_ is False or b_ is False) else None)
            if tag(t) == 'local':
                defs = [st for st in hc.stores() if st.target == t]
                if not defs:
                    return None
                rs = [nonneg(st.value, st.bb) for st in defs]
                return True if all(r is True for r in rs) else (False if any(r is False for r in rs) else None)
            if tag(t) == 'bin' and t[1] == 'Sub' and t[2] in loss_args and t[3] in loss_args:
                a_, b_ = t[2], t[3]
                for cn, v in (hc.guards().get(bb, []) if bb is not None else []):
                    if tag(cn) == 'bin' and {cn[2], cn[3]} == {a_, b_}:
                        op = cn[1]
                        if cn[2] == b_:      # orient as a ? b
                            op = {'Gt': 'Lt', 'Ge': 'Le', 'Lt': 'Gt', 'Le': 'Ge'}.get(op, op)
                        if (op in ('Gt', 'Ge') and v is True) or (op in ('Lt', 'Le') and v is False):
                            return True
                return False
            return None
        verdicts = []
        for z in cmps:
            lhs = z[2] if z[1] in ('Lt', 'Le') else z[3]
            verdicts.append((nonneg(lhs), z))
        # NaN: "converged" must be established by a comparison that is *true* -- `!(change >= tol)` is also satisfied by a NaN change (an
        # overflowed deviance), which would report success on NaN coefficients
        from ..tol import _bool_leaves
        nan_pass = []
        for r_ in hc.return_values():
            for cmp_, v_false in _bool_leaves(prog, r_, True, 0, hc):
                if cmp_ in cmps and tag(cmp_) == 'bin' and cmp_[1] in ('Lt', 'Le', 'Gt', 'Ge') and v_false is True:
                    nan_pass.append(cmp_)
        # the same through return sites: `if change >= tol { return false; } true` -- the site that answers "converged" is reached when the
        # ordered comparison is false
        for d_ in hc._defs.get(0, []):
            if d_[0] != 'assign':
                continue
            v_ = hc.rvalue_term(d_[3], d_[1])
            if not (tag(v_) == 'const' and v_[2] is True):
                continue
            for cn_, vv_ in hc.guards().get(d_[1], []):
                if cn_ in cmps and vv_ is False:
                    nan_pass.append(cn_)
        if nan_pass:
            rep.viol('convergence-magnitude', key, 'convergence is concluded from `%s` being false: a NaN change (overflowed or undefined deviance) makes every ordered '
                     'comparison false and therefore counts as converged, so fit() reports success instead of an error' % show(nan_pass[0])[:80], site_of(hc.body))
        elif not verdicts:
            rep.undecided('convergence-magnitude', key, 'no comparison of a loss change with the tolerance recognised', site_of(hc.body), proof=False)
        elif any(v is False for v, _ in verdicts):
            z = [z for v, z in verdicts if v is False][0]
            rep.viol('convergence-magnitude', key, 'the convergence test %s compares a signed change with the tolerance: an iteration in which the monitored loss moves the '
                     'other way by any amount makes it negative and counts as converged, so fit() reports success on unconverged coefficients' % show(z)[:100], site_of(hc.body))
        elif all(v is True for v, _ in verdicts):
            rep.ok('convergence-magnitude', key, 'the compared change is a magnitude (abs or ordered difference)')
        else:
            rep.undecided('convergence-magnitude', key, 'sign of the compared quantity not derived', site_of(hc.body), proof=False)
    rep.floor('convergence-magnitude', 1, 'has_converged')

    # ------------------------------------------------------------------ D4 deviance scale per family
    fd = prog.func(FAM + '::deviance')
    if fd is not None:
        rep.touch(fd.body.key)
        variants = [v['name'] for v in pdb.adts[FAM]['variants']]
        seeds = {('sym', 'Y'): Ty(unit('Y', 1)), ('sym', 'MU'): Ty(unit('Y', 1))}
        env = Env(fd, {1: S, 2: sy('Y'), 3: sy('MU')}, {})
        for d in fd._defs.get(0, []):
            bb = d[1]
            var = None
            for cn, v in fd.guards().get(bb, []):
                if tag(cn) == 'discr' and isinstance(v, tuple) and v[0] == 'eq':
                    var = v[1]
            if var is None:
                continue
            name = variants[var] if var < len(variants) else str(var)
            t = fd.rvalue_term(d[3], bb) if d[0] == 'assign' else fd.call_term(d[2], bb)
            av = eng.ev(env, t)
            key = 'deviance-scale:%s' % name
            if isinstance(av, tuple) or has_top(av):
                rep.undecided('deviance-scale', key, 'closed form not extracted', proof=False)
                continue
            inf = SymInfer(seeds)
            ty = inf.infer_set(av)
            if name == 'Gaussian':
                # the residual sum of squares is a sum of squared residuals: products of raw y and mu (y.y - 2 y.mu + mu.mu) are the same number
                # in exact arithmetic but a difference of sums of the order of |y|^2, which cancels when the responses are large next to the residuals
                raw = []

                def walk_(e_):
                    if isinstance(e_, frozenset):
                        for x_ in e_:
                            walk_(x_)
                        return
                    if not isinstance(e_, tuple):
                        return
                    if e_ and e_[0] == 'b' and e_[1] == 'Mul' and all(z_ in (('sym', 'Y'), ('sym', 'MU')) for z_ in (e_[2], e_[3])):
                        raw.append(e_)
                    for x_ in e_[1:]:
                        if isinstance(x_, (tuple, frozenset)):
                            walk_(x_)
                walk_(av)
                if raw:
                    rep.viol('deviance-scale', key, 'Gaussian deviance is assembled from raw second moments (%s ..) instead of squared residuals: as a difference of sums of '
                             'the order of |y|^2 it loses the residual sum of squares to cancellation when responses or offsets are large' % show_expr(frozenset(raw[:2]))[:80], site_of(fd.body))
                elif ty is not None and ty.dim == unit('Y', 2) and not inf.problems:
                    rep.ok('deviance-scale', key, 'Gaussian deviance = %s : [%s] (a sum of squared residuals)' % (show_expr(av)[:100], ty))
                else:
                    rep.viol('deviance-scale', key, 'Gaussian deviance = %s has scale type [%s]; the residual sum of squares has [Y^2] (dispersion = deviance/(n-p) and the standard '
                             'errors inherit the error)' % (show_expr(av)[:140], ty), site_of(fd.body))
            else:
                # other families: the deviance is dimensionless in y/mu ratios up to y-linear terms; only report hard conflicts inside exp/ln
                hard = [p for p in inf.problems if 'exp of' in p or 'logarithm of a log' in p]
                if hard:
                    rep.viol('deviance-scale', key, '%s deviance: %s' % (name, '; '.join(hard)), site_of(fd.body))
                else:
                    rep.ok('deviance-scale', key, '%s deviance typed without transcendental-argument conflicts' % name)
        # variants whose arm was not seen as a separate return site (merged `A | B =>` arms, helpers): anchors exist, not decided
        seen_keys = {o.key for o in rep.obs if o.rule == 'deviance-scale'}
        for vn in variants:
            if 'deviance-scale:%s' % vn not in seen_keys:
                rep.undecided('deviance-scale', 'deviance-scale:%s' % vn, 'no separate return site for this variant (arms merged or delegated)', site_of(fd.body), proof=False)
    rep.floor('deviance-scale', 6, 'family variants')

    # ------------------------------------------------------------------ D5 inference chain
    g = prog.func(G + '::dispersion')
    key = 'inference:dispersion'
    if g is not None:
        rep.touch(g.body.key)
        me2 = ('arg', 1, g.names.get(1))
        ok = False
        for d in g._defs.get(0, []):
            if d[0] != 'assign':
                continue
            v = g.rvalue_term(d[3], d[1])
            for z in subterms(v):
                if tag(z) == 'bin' and z[1] == 'Div' and z[4] == 'f64':
                    den = z[3]
                    if tag(den) == 'cast' and tag(den[2]) == 'bin' and den[2][1] == 'Sub':
                        a_, b_ = den[2][2], den[2][3]
                        okn = _is_unwrap_field(a_, me2, fields.get('n')) and _is_unwrap_field(b_, me2, fields.get('p'))
                        hasd = any(tag(cn) == 'call' and cn[1] == FAM + '::has_dispersion' and vv is True for cn, vv in g.guards().get(d[1], []))
                        ok = okn and hasd
        one = any(d[0] == 'assign' and any(tag(z) == 'const' and z[2] == 1.0 for z in subterms(g.rvalue_term(d[3], d[1]))) for d in g._defs.get(0, []))
        # refuted in the read form only: the body itself divides (no helper of the crate besides deviance / has_dispersion holds part of the formula)
        direct_ = {short(c.path) for c in g.calls() if c.path and c.path in pdb.bodies}
        hasdiv = any(d[0] == 'assign' and any(tag(z) == 'bin' and z[1] == 'Div' and z[4] == 'f64' for z in subterms(g.rvalue_term(d[3], d[1]))) for d in g._defs.get(0, []))
        if ok and one:
            rep.ok('inference', key, 'dispersion = deviance/(n - p) if the family has a dispersion parameter else 1')
        elif direct_ <= {'deviance', 'has_dispersion'} and (hasdiv or not direct_):
            rep.viol('inference', key, 'dispersion is not deviance/(n - p) under has_dispersion()', site_of(g.body))
        else:
            rep.undecided('inference', key, 'dispersion is not formed by a division in this body (calls: %s): not read' % sorted(direct_)[:6], site_of(g.body), proof=False)
    # the user's settings reach fit unchanged: every GLM setter stores its argument itself (a copy of it), not a function of it.  fit's
    # penalty alpha*beta and the stored information matrix X'WDX are on the scale of the weights as given; a setter that normalises them
    # changes the effective penalty and the reported standard errors
    nset = 0
    for k_, b_ in sorted(pdb.bodies.items()):
        if not (k_.startswith(G + '::set_') and b_.kind != 'closure'):
            continue
        fs_ = prog.func(k_)
        if fs_ is None or fs_.body.arg_count != 2:
            continue
        rep.touch(k_)
        nset += 1
        me_s = ('arg', 1, fs_.names.get(1))
        par = ('arg', 2, fs_.names.get(2))
        key = 'setter-stores-argument:%s' % short(k_)
        sts_ = [st for st in fs_.stores() if tag(st.target) == 'field' and st.target[1] == me_s]
        verdict, detail = None, 'no store to a field of self found'
        for st in sts_:
            v = st.value
            while True:
                if tag(v) == 'agg' and v[1] == 'adt' and 'Option' in str(v[2]) and len(v[3]) == 1:
                    v = v[3][0]
                elif tag(v) == 'call' and v[2] and short(v[1]) in ('to_vec', 'to_owned', 'clone', 'into', 'from', 'to_vector', 'deref', 'as_slice', 'cloned', 'copied', 'collect', 'iter', 'into_iter') \
                        and v[1] not in pdb.bodies:
                    v = v[2][0]
                else:
                    break
            def maps_elements(t):
                # an iterator adaptor whose closure returns something other than its own argument
                for z in subterms(t):
                    if tag(z) == 'agg' and z[1] == 'closure':
                        h_ = prog.func(z[2])
                        rv_ = h_.return_values() if h_ is not None else []
                        a2 = ('arg', 2, h_.names.get(2)) if h_ is not None else None
                        if not (len(rv_) == 1 and (rv_[0] == a2 or (tag(rv_[0]) == 'deref' and rv_[0][1] == a2))):
                            return True
                return False
            if v == par:
                verdict, detail = (True if verdict is None else verdict), 'self.%s = %s (copied)' % (st.target[2], show(par))
            elif par in subterms(v) and maps_elements(v):
                verdict, detail = False, 'stores %s, its argument mapped element by element, instead of the argument' % show(st.value)[:90]
                break
            elif par in subterms(v) and any((tag(z) == 'bin' and len(z) > 4 and z[4] == 'f64') or (tag(z) == 'call' and z[1] in pdb.bodies) or
                                            (tag(z) == 'call' and is_f64_method(z[1])) for z in subterms(v)):
                verdict, detail = False, 'stores %s, a function of its argument, instead of the argument' % show(st.value)[:90]
                break
            else:
                verdict, detail = None, 'stored value %s not read' % show(st.value)[:60]
                break
        if verdict is True:
            rep.ok('setter-stores-argument', key, detail)
        elif verdict is False:
            rep.viol('setter-stores-argument', key, '%s %s: fit and the inference chain then work with settings the user did not give' % (short(k_), detail), site_of(fs_.body))
        else:
            rep.undecided('setter-stores-argument', key, detail, site_of(fs_.body), proof=False)
    rep.floor('setter-stores-argument', 5, 'set_penalty, set_tolerance, set_coef, set_weights, set_offset')

    # which families carry a free dispersion: the one-parameter laws (Bernoulli, Poisson, Exponential) have dispersion 1 by definition, so
    # their standard errors must not be scaled by deviance/(n-p); the others estimate it.  Read per variant from the value has_dispersion
    # returns on the paths its discriminant admits (explicit arms, or-patterns and wildcards alike)
    WANT = {'Gaussian': True, 'Gamma': True, 'QuasiPoisson': True, 'Bernoulli': False, 'Poisson': False, 'Exponential': False}
    hd = prog.func(FAM + '::has_dispersion')
    if hd is not None and FAM in pdb.adts:
        from ..precond import Frame, NC
        ncx_ = NC(prog)
        rep.touch(hd.body.key)
        vnames = [v_['name'].split('::')[-1] for v_ in pdb.adts[FAM]['variants']]
        me3 = ('arg', 1, hd.names.get(1))
        for vi, vn in enumerate(vnames):
            key = 'dispersion-table:%s' % vn
            ctx = Frame(hd, env={('discr', ('arg', 1, None)): vi})
            outs = set()
            unread = False
            live_blocks = ncx_.reachable(hd, ctx)
            for d in hd._defs.get(0, []):
                if d[1] not in live_blocks:
                    continue
                v = hd.rvalue_term(d[3], d[1]) if d[0] == 'assign' else None
                if v is not None and tag(v) == 'const' and isinstance(v[2], bool):
                    outs.add(v[2])
                else:
                    unread = True
            if vn not in WANT:
                rep.info('dispersion-table', key, 'variant not in the reference table: has_dispersion = %s' % sorted(outs))
            elif unread or len(outs) != 1:
                rep.undecided('dispersion-table', key, 'value returned for this variant not read as one constant (%s)' % sorted(outs), site_of(hd.body), proof=False)
            elif outs == {WANT[vn]}:
                rep.ok('dispersion-table', key, 'has_dispersion(%s) = %s' % (vn, WANT[vn]))
            else:
                rep.viol('dispersion-table', key, 'has_dispersion(%s) is %s: %s' % (vn, sorted(outs)[0], (
                    'the %s law has dispersion 1 by definition, yet dispersion() now returns deviance/(n-p) and every standard error is scaled by its square root' % vn
                    if not WANT[vn] else 'the %s family estimates its dispersion, yet dispersion() now returns 1 and the standard errors ignore the residual scale' % vn)),
                    site_of(hd.body))
    rep.floor('dispersion-table', 6, 'family variants')
    g = prog.func(G + '::coef_covariance_matrix')
    key = 'inference:covariance'
    if g is not None:
        rep.touch(g.body.key)
        me2 = ('arg', 1, g.names.get(1))
        ok = False
        for d in g._defs.get(0, []):
            v = g.rvalue_term(d[3], d[1]) if d[0] == 'assign' else g.call_term(d[2], d[1])
            for z in subterms(v):
                if tag(z) == 'call' and short(z[1]) == 'svmul':
                    inv = z[2][1]
                    okd = any(tag(q) == 'call' and q[1] == G + '::dispersion' for q in subterms(z[2][0]))
                    oki = tag(inv) == 'call' and inv[1].endswith('utils::invert_matrix') and any(tag(q) == 'field' and q[1] == me2 and q[2] == fields.get('information_matrix') for q in subterms(inv))
                    ok = okd and oki
        # read only when the scaling and the inversion are calls of this body itself; a body that delegates them to helpers is not read
        direct = {short(c.path) for c in g.calls() if c.path}
        if ok:
            rep.ok('inference', key, 'covariance = dispersion * invert_matrix(information_matrix)')
        elif 'svmul' in direct and 'invert_matrix' in direct:
            rep.viol('inference', key, 'covariance is not dispersion x inverse information', site_of(g.body))
        else:
            rep.undecided('inference', key, 'covariance is not formed by svmul(.., invert_matrix(..)) in this body (calls: %s)' % sorted(direct)[:6], site_of(g.body), proof=False)
    g = prog.func(G + '::coef_standard_error')
    key = 'inference:standard-error'
    if g is not None:
        rep.touch(g.body.key)
        ok = False
        for d in g._defs.get(0, []):
            v = g.rvalue_term(d[3], d[1]) if d[0] == 'assign' else g.call_term(d[2], d[1])
            for z in subterms(v):
                if tag(z) == 'call' and short(z[1]) == 'vsqrt' and tag(z[2][0]) == 'call' and z[2][0][1].endswith('utils::diag'):
                    ok = any(tag(q) == 'call' and q[1] == G + '::coef_covariance_matrix' for q in subterms(z[2][0]))
        direct = {short(c.path) for c in g.calls() if c.path}
        if ok:
            rep.ok('inference', key, 'standard errors = vsqrt(diag(covariance))')
        elif 'diag' in direct and 'coef_covariance_matrix' in direct:
            rep.viol('inference', key, 'standard errors are not sqrt of the covariance diagonal', site_of(g.body))
        else:
            rep.undecided('inference', key, 'standard errors are not formed by vsqrt(diag(..)) in this body (calls: %s)' % sorted(direct)[:6], site_of(g.body), proof=False)
    g = prog.func(G + '::predict')
    key = 'inference:predict'
    if g is not None:
        rep.touch(g.body.key)
        me2 = ('arg', 1, g.names.get(1))
        x2 = ('arg', 2, g.names.get(2))
        vals = [g.rvalue_term(d[3], d[1]) if d[0] == 'assign' else g.call_term(d[2], d[1]) for d in g._defs.get(0, [])]
        links = [z for v in vals for z in subterms(v) if tag(z) == 'call' and z[1] == FAM + '::inv_link']
        with_off = [z for z in links if tag(z[2][1]) == 'call' and short(z[2][1][1]) == 'vadd' and _is_offsets(z[2][1][2][1], me2, fields)]
        plain = [z for z in links if tag(z[2][1]) == 'call' and z[2][1][1].endswith('utils::matmul') and z[2][1][2][0] == x2]
        ok = bool(with_off) and bool(plain) and all(tag(z[2][1][2][0]) == 'call' and z[2][1][2][0][1].endswith('utils::matmul') for z in with_off)
        direct = {short(c.path) for c in g.calls() if c.path}
        if ok:
            rep.ok('inference', key, 'predict = inv_link(X.coef [+ offsets])')
        elif 'inv_link' in direct and 'matmul' in direct and not any(c.path and c.path in pdb.bodies and c.path.startswith(G + '::') and short(c.path) not in ('coef',) for c in g.calls()):
            rep.viol('inference', key, 'predict is not the inverse link of X.coef plus offsets', site_of(g.body))
        else:
            rep.undecided('inference', key, 'predict delegates part of its work to another method of GLM (calls: %s): not read' % sorted(direct)[:6], site_of(g.body), proof=False)
    rep.floor('inference', 4, 'dispersion, covariance, standard error, predict')

    # ------------------------------------------------------------------ D6 stride
    n = 0
    for name in ('compute_dbeta', 'compute_ddbeta'):
        g = prog.func(G + '::' + name)
        if g is not None:
            nf = check_stride(prog, g, rep)
            n += nf
            if nf == 0:
                # the anchor is the function; a body that reaches the design matrix through slices / iterators has no index form to read
                rep.undecided('stride', 'stride:%s::%s:unread' % (G, name), 'no 2-D index access x[i*p + j] in this body: the stride is not read', site_of(g.body), proof=False)
    rep.floor('stride', 2, 'design-matrix accesses in gradient and information')
    for kk in eng.visited:
        rep.touch(kk)
    # ---- the fit uses every observation: a value filter on the way must keep every finite value
    from ..precond import check_data_filters
    check_data_filters(prog, rep, 'data-filter', sorted(k for k, b in pdb.bodies.items() if k.startswith('predict::glms::') and b.kind != 'closure'),
                       what='so the model is fitted to a subset of the data')
    rep.floor('data-filter', 1, 'scan of predict::glms::')
    return {}


def _item_of(t):
    its = [z for z in subterms(t) if tag(z) == 'item']
    return its[0] if its else None


def _is_offsets(t, me, fields):
    for z in subterms(t):
        if tag(z) == 'field' and z[1] == me and z[2] == fields.get('offsets'):
            return True
    return False


def _is_unwrap_field(t, me, idx):
    return tag(t) == 'call' and short(t[1]) == 'unwrap' and tag(t[2][0]) == 'field' and t[2][0][1] == me and t[2][0][2] == idx


def _has_top_e(e):
    from ..elem import _expr_has
    return _expr_has(e, 'top')


def _leaves(e, out):
    if isinstance(e, frozenset):
        for x in e:
            _leaves(x, out)
        return
    if isinstance(e, tuple):
        if e and e[0] == 'sym':
            out.append(e[1])
            return
        for x in e[1:]:
            if isinstance(x, (tuple, frozenset)):
                _leaves(x, out)


def _same_factors(got, names, want):
    return False


def _is_xwx(e, wwt):
    """Add(0, Mul(X, Mul(X, wwt))) in any association: leaves are X twice and wwt once, combined by Mul only"""
    if e[0] == 'b' and e[1] == 'Add' and ('c', 0.0) in (e[2], e[3]):
        e = e[3] if e[2] == ('c', 0.0) else e[2]
    facs = []

    def fl(x):
        if x == wwt:
            facs.append('W')
        elif x[0] == 'b' and x[1] == 'Mul':
            fl(x[2]); fl(x[3])
        elif x == ('sym', 'X'):
            facs.append('X')
        else:
            facs.append('?')
    fl(e)
    return sorted(facs) == ['W', 'X', 'X']
