"""C15 — shape operations and constructors preserve data and the matrix invariant.

D1 matrix-invariant: every site that builds a Matrix value or writes nrows/ncols/data wholesale is one of the
   audited sites and is locally justified (rows*cols == len); everything else goes through Matrix::new.
D2 stride: every 2-D access of Matrix methods / Index impls / slice helpers uses the column count as row stride and a
   column index below it; Index impls assert their bounds first.
D3 data-preserving maps: transpose, layout conversions, hcat/vcat/hrepeat/vrepeat, column extraction (index signatures).
D4 constructor patterns: eye, diag_matrix, toeplitz, vandermonde, design.
D5 grids: arange's count passes through ceil (half-open convention); linspace divides by num-1 and emits num points.
D6 rotations: cw = ccw^T, R^T R = I, det R = 1 in Z[s,c]/(s^2+c^2-1).
D7 predicates: is_symmetric compares (i,j) with (j,i); approximate equality never equates values of opposite sign.
Not decided: arbitrary operation sequences are covered only inductively through D1."""
import re
from ..ir import tag, show, short, subterms, map_term, is_f64_method, f64_method_name
from ..idx import IdxFunc, check_stride, strip_casts, is_unwrap_of
from ..poly import poly, psub, padd, pmul, pconst, peq, pshow, atoms
from ..structs import canon_guard, show_guard
from ..framework import site_of

LEVEL = 'other'
EXPLANATION = (
    'Structural invariants on MIR: (1) enumeration of every construction of a Matrix and every wholesale write of its fields, each '
    'matched against an audited justification (constants, len of the same vector, asserted product, divisibility for inferred dims, '
    'length-preserving transpose + swap); (2) affine access maps of all 2-D accesses with the row-major stride rule (stride = column '
    'count, column index below it), bounds asserts in the Index impls; (3) index signatures of the data-preserving maps and constructor '
    'patterns; (4) arange/linspace count expressions; (5) symbolic algebra on the rotation-matrix literals; (6) sign-awareness of the '
    'approximate comparisons. Lock-step behaviour of operation sequences follows only by induction from (1).')

M = 'linalg::array::matrix::Matrix'
U = 'linalg::utils::'

COLMAJOR = {
    U + 'row_to_col_major': {'new(to_vec(a))': 'output of the row->column-major conversion is column-major by definition'},
    U + 'col_to_row_major': {'a': 'input of the column->row-major conversion is column-major by definition'},
}


def run(prog, rep, tier, repo):
    pdb = prog.pdb
    d1_invariant(prog, rep)
    d2_stride(prog, rep)
    d3_maps(prog, rep)
    d4_constructors(prog, rep)
    d5_grids(prog, rep)
    d6_rotations(prog, rep)
    d7_predicates(prog, rep)
    d8_oblivious(prog, rep)
    return {}


# =============================================================================== D1
def d1_invariant(prog, rep):
    pdb = prog.pdb
    AUDITED = {M + '::empty', M + '::new', M + '::reshape_mut', M + '::t_mut'}
    HELPERS = {}
    nsites = 0
    order = sorted(pdb.bodies.items(), key=lambda kv: (kv[0] in AUDITED, kv[0]))      # helpers first
    for k, b in order:
        f = prog.func(k)
        derived = b.span.endswith('!') and ('serde' in k or 'Clone' in k or 'Debug' in k)
        cons = []
        for bi in f.cfg.nodes:
            for s in b.blocks[bi].stmts:
                if s.kind == 'assign' and s.rv.kind == 'agg' and s.rv.agg.get('path') == M:
                    cons.append((bi, s))
        writes = []
        for s in f.stores():
            t = s.target
            if tag(t) == 'field' and t[2] in (0, 1, 2) and _is_matrix_term(f, t[1]):
                writes.append(s)
        swaps = [c for c in f.calls() if c.path == 'std::mem::swap' and any(tag(a) == 'field' and _is_matrix_term(f, a[1]) for a in c.args)]
        if not (cons or writes or swaps):
            continue
        if derived and k.endswith('Clone>::clone'):
            # field-wise clone keeps (data, nrows, ncols) together
            key = 'matrix-invariant:%s' % k
            t = f.rvalue_term(cons[0][1].rv, cons[0][0])
            me = ('arg', 1, f.names.get(1))
            ok = tag(t[3][0]) == 'call' and short(t[3][0][1]) == 'clone' and t[3][1] == ('field', me, 1, 'usize') and t[3][2] == ('field', me, 2, 'usize')
            nsites += 1
            (rep.ok if ok else rep.viol)('matrix-invariant', key, 'derived Clone copies (data, nrows, ncols) field-wise' if ok else 'Clone does not copy the three fields together', site_of(b))
            continue
        if derived:
            rep.info('matrix-invariant', 'matrix-invariant:%s' % k, 'serde-derived deserialisation builds a Matrix from external data: outside the property (public structural operations)')
            continue
        nsites += 1
        rep.touch(k)
        key = 'matrix-invariant:%s' % k
        if k not in AUDITED and b.vis != 'pub' and not cons:
            # a private helper that only touches the shape fields of its receiver: it is part of its callers.  Accept it when every
            # caller is an audited site (the caller's own rule then sees the helper's effect, see helper_swaps below)
            callers = [kk for kk, bb_ in pdb.bodies.items() if any(c.path == k for c in prog.func(kk).calls())]
            if callers and all(kk in AUDITED for kk in callers):
                HELPERS[k] = (writes, swaps)
                rep.ok('matrix-invariant', key, 'private helper of audited site(s) %s; its effect is checked there' % [short(x) for x in callers])
                continue
        if k not in AUDITED:
            rep.viol('matrix-invariant', key, '%s builds a Matrix / writes its shape fields directly (%d literals, %d field writes) instead of going through '
                     'Matrix::new, which validates rows*cols == len' % (k, len(cons), len(writes)), site_of(b))
            continue
        me = ('arg', 1, f.names.get(1))
        if k == M + '::empty':
            t = f.rvalue_term(cons[0][1].rv, cons[0][0])
            ok = len(cons) == 1 and tag(t[3][0]) == 'call' and t[3][0][1].endswith('Vector::empty') and _c(t[3][1]) == 0 and _c(t[3][2]) == 0
            (rep.ok if ok else rep.viol)('matrix-invariant', key, 'empty(): (Vector::empty(), 0, 0)' if ok else 'empty() is not (empty, 0, 0): %s' % show(t), site_of(b))
        elif k == M + '::new':
            t = f.rvalue_term(cons[0][1].rv, cons[0][0])
            v = t[3][0]
            ok = len(cons) == 1 and _c(t[3][1]) == 1 and t[3][2] == ('len', v) and not writes
            resh = [c for c in f.calls() if c.path == M + '::reshape_mut']
            ok2 = len(resh) == 1 and all(f.cfg.dominates(resh[0].bb, r) for r in f.cfg.returns)
            if ok and ok2:
                rep.ok('matrix-invariant', key, 'new(): provisional (v, 1, len(v)) then reshape_mut on every path to return')
            else:
                rep.viol('matrix-invariant', key, 'new() does not start from (v, 1, len(v)) / does not pass through reshape_mut on every path', site_of(b))
        elif k == M + '::t_mut':
            okd = len(writes) == 1 and writes[0].target[2] == 0 and _is_transpose_of_self(writes[0].value, me)
            oks = len(swaps) == 1 and {a[2] for a in swaps[0].args if tag(a) == 'field'} == {1, 2}
            if not swaps:
                # swap delegated to a private helper called on self
                hs = [c for c in f.calls() if c.path in HELPERS and c.args and c.args[0] == me]
                if len(hs) == 1:
                    hw, hsw = HELPERS[hs[0].path]
                    oks = not hw and len(hsw) == 1 and {a[2] for a in hsw[0].args if tag(a) == 'field'} == {1, 2}
            if okd and oks and not cons:
                rep.ok('matrix-invariant', key, 't_mut(): data := transpose(data, nrows) (length preserving) and swap(nrows, ncols)')
            else:
                rep.viol('matrix-invariant', key, 't_mut() does not replace data by its transpose together with swapping the dimensions', site_of(b))
        elif k == M + '::reshape_mut':
            _check_reshape_mut(prog, rep, f, writes)
    rep.floor('matrix-invariant', 5, 'empty, new, reshape_mut, t_mut, Clone')
    # reshape (non-mut) must re-enter Matrix::new
    f = prog.func(M + '::reshape')
    key = 'matrix-invariant:%s::reshape' % M
    if f is not None:
        rep.touch(f.body.key)
        news = [c for c in f.calls() if c.path == M + '::new']
        if len(news) == 1 and all(tag(r) == 'call' and r[1] == M + '::new' for r in f.return_values()):
            rep.ok('matrix-invariant', key, 'reshape() returns Matrix::new(data.clone(), r, c): validated by construction')
        else:
            rep.viol('matrix-invariant', key, 'reshape() does not return through Matrix::new', site_of(f.body))


def _c(t):
    t = strip_casts(t)
    return t[2] if tag(t) == 'const' else None


def _is_matrix_term(f, t):
    """is term t a Matrix object (by the type of the field projection's base)?"""
    if tag(t) == 'arg':
        ty = f.body.local_ty(t[1])
        return ty.replace('&mut ', '').replace('&', '').strip().endswith(M)
    if tag(t) == 'local':
        return f.body.local_ty(t[1]).replace('&mut ', '').replace('&', '').strip().endswith(M)
    if tag(t) == 'call':
        return t[1].startswith(M + '::') and short(t[1]) in ('new', 'zeros', 'ones', 'clone', 'empty', 'eye')
    return False


def _is_transpose_of_self(v, me):
    t = v
    while tag(t) == 'call' and short(t[1]) in ('new', 'from', 'into') and t[2]:
        t = t[2][0]
    return tag(t) == 'call' and t[1].endswith('utils::transpose') and t[2][0] == ('field', me, 0, 'linalg::array::vec::Vector') \
        and t[2][1] == ('field', me, 1, 'usize')


def _check_reshape_mut(prog, rep, f, writes):
    me = ('arg', 1, f.names.get(1))
    size = ('call', M + '::size', (me,), None)
    by_bb = {}
    for s in writes:
        by_bb.setdefault(s.bb, {})[s.target[2]] = s
    # group the writes pairwise by dominating guards (each branch writes both dims)
    branches = {}
    for s in writes:
        g = tuple(sorted(repr(x) for x in f.guards().get(s.bb, [])))
        branches.setdefault(g, []).append(s)
    # writes of one branch may sit in consecutive blocks; group by the set of non-arithmetic guards
    groups = []
    ws = sorted(writes, key=lambda s: f.cfg.rpo().index(s.bb))
    cur = []
    for s in ws:
        if cur and not (f.cfg.dominates(cur[0].bb, s.bb)):
            groups.append(cur)
            cur = []
        cur.append(s)
    if cur:
        groups.append(cur)
    # merge groups so that each has a write of field 1 and field 2
    merged = []
    for g in groups:
        if merged and len({s.target[2] for s in merged[-1]}) < 2:
            merged[-1] += g
        else:
            merged.append(list(g))
    def check_one(r, c, bb, span, key):
        raw = f.guards().get(bb, [])
        # case 1: explicit product assert
        prod_ok = any(v is True and tag(cn) == 'bin' and cn[1] == 'Eq' and _is_product_eq(cn, r, c, size) for cn, v in raw)
        if prod_ok:
            rep.ok('matrix-invariant', key, 'both dimensions given: assert_eq!(rows*cols, size) dominates the writes')
            return
        # case 2: one dimension inferred by integer division
        inferred = None
        given = None
        for a, b2 in ((r, c), (c, r)):
            if tag(a) == 'bin' and a[1] == 'Div' and _same_size(a[2], size) and strip_casts(a[3]) == strip_casts(b2):
                inferred, given = a, b2
        if inferred is None:
            # dimensions handed back by an in-crate helper that can panic (`resolve_shape(size, nrows, ncols)` validating inside): the check is
            # not in this body and is not read
            helper = [z[1] for t_ in (r, c) for z in subterms(t_) if tag(z) == 'call' and z[1] in prog.pdb.bodies and prog.func(z[1]) is not None and prog.func(z[1]).cfg.panics]
            if helper:
                rep.undecided('matrix-invariant', key, 'shape (%s, %s) comes from %s, whose own validation is not read' % (show(r)[:40], show(c)[:40], short(helper[0])),
                              site_of(span), proof=False)
                return
            rep.viol('matrix-invariant', key, 'shape (%s, %s) is written without a check that rows*cols equals the element count' % (show(r), show(c)), site_of(span))
            return
        div_ok = any(v is True and tag(cn) == 'bin' and cn[1] == 'Eq' and _is_divisibility(cn, size, given) for cn, v in raw) or \
            any(v is False and tag(cn) == 'bin' and cn[1] == 'Ne' and _is_divisibility(cn, size, given) for cn, v in raw)
        if div_ok:
            rep.ok('matrix-invariant', key, 'inferred dimension size/%s guarded by a divisibility check' % show(given))
        else:
            rep.viol('matrix-invariant', key, 'reshape_mut infers a dimension as %s with no check that %s divides the element count: e.g. 7 elements reshaped '
                     'with (-1, 2) become a 3 x 2 matrix holding 7 values (rows*cols != len)' % (show(inferred), show(given)), site_of(span))

    n_branch = 0
    for gi, g in enumerate(merged):
        vals = {s.target[2]: s for s in g}
        key = 'matrix-invariant:%s::reshape_mut:branch%d' % (M, n_branch)
        if set(vals) != {1, 2}:
            rep.viol('matrix-invariant', key, 'a branch of reshape_mut writes only one dimension', site_of(f.body))
            n_branch += 1
            continue
        r, c = strip_casts(vals[1].value), strip_casts(vals[2].value)
        last = max(g, key=lambda s: f.cfg.rpo().index(s.bb))
        # the pair may be computed first as a tuple with one definition per case: `let (r, c) = if .. {(a, b)} else {..}; self.nrows = r; ..`
        if tag(r) == 'field' and tag(c) == 'field' and r[1] == c[1] and tag(r[1]) == 'local' and (r[2], c[2]) == (0, 1):
            tdefs = [st for st in f.stores() if st.target == r[1] and tag(st.value) == 'agg' and st.value[1] == 'tuple' and len(st.value[3]) == 2]
            if tdefs and len(tdefs) == len([st for st in f.stores() if st.target == r[1]]):
                for st in sorted(tdefs, key=lambda st: f.cfg.rpo().index(st.bb)):
                    check_one(strip_casts(st.value[3][0]), strip_casts(st.value[3][1]), st.bb, st.span,
                              'matrix-invariant:%s::reshape_mut:branch%d' % (M, n_branch))
                    n_branch += 1
                continue
        check_one(r, c, last.bb, last.span, key)
        n_branch += 1


def _same_size(t, size):
    t = strip_casts(t)
    return t == size or (tag(t) == 'call' and t[1] == size[1] and t[2] == size[2])


def _is_product_eq(cn, r, c, size):
    for x, y in ((cn[2], cn[3]), (cn[3], cn[2])):
        x0, y0 = strip_casts(x), strip_casts(y)
        if tag(x0) == 'bin' and x0[1] in ('Mul', 'MulO') and _same_size(y0, size):
            fs = {repr(strip_casts(x0[2])), repr(strip_casts(x0[3]))}
            if fs == {repr(strip_casts(r)), repr(strip_casts(c))}:
                return True
    return False


def _is_divisibility(cn, size, given):
    for x, y in ((cn[2], cn[3]), (cn[3], cn[2])):
        x0, y0 = strip_casts(x), strip_casts(y)
        if tag(x0) == 'bin' and x0[1] == 'Rem' and _same_size(x0[2], size) and strip_casts(x0[3]) == strip_casts(given) and tag(y0) == 'const' and y0[2] == 0:
            return True
    return False


# =============================================================================== D2
def d2_stride(prog, rep):
    pdb = prog.pdb
    n = 0
    for k, b in sorted(pdb.bodies.items()):
        # every body of the crate (the stride rule binds shapes from Matrix fields, constructors and is_matrix/is_square results,
        # so a flat 2-D access anywhere -- e.g. a broadcast arm or a GLM helper -- is covered)
        if 'serde' in k or 'fmt' in k or b.kind == 'closure':
            continue
        f = prog.func(k)
        cm = COLMAJOR.get(k)
        c = check_stride(prog, f, rep, colmajor=cm)
        if c:
            rep.touch(k)
        n += c
    rep.floor('stride', 40, '2-D accesses in Matrix methods and slice helpers')
    # bounds asserts of the Index impls
    for k, b in sorted(pdb.bodies.items()):
        if not (b.impl and b.impl['trait'] and re.match(r'std::ops::Index(Mut)?<', b.impl['trait']) and b.impl['self_ty'].endswith(M)):
            continue
        f = prog.func(k)
        rep.touch(k)
        me = ('arg', 1, f.names.get(1))
        key = 'index-bounds:%s' % k
        two = '[usize; 2]' in b.impl['trait']
        # the block where self.data is indexed
        idx_bbs = [c.bb for c in f.calls() if c.path and short(c.path) in ('index', 'index_mut') and c.args and tag(c.args[0]) == 'field']
        if not idx_bbs:
            idx_bbs = [s.bb for s in f.stores()] or f.cfg.returns
        need = [1, 2] if two else [1]
        ok = True
        for bb in idx_bbs:
            gs = [canon_guard(cn, v) for cn, v in f.guards().get(bb, [])]
            for dim in need:
                fld = ('field', me, dim, 'usize')
                if not any(g[0] == 'cmp' and g[1] == 'Lt' and g[3] == fld and g[4] is True for g in gs):
                    ok = False
        if ok:
            rep.ok('index-bounds', key, 'assert!(i < nrows%s) dominates the data access' % (' && j < ncols' if two else ''))
        else:
            rep.viol('index-bounds', key, 'the data access is not dominated by bounds asserts on %s' % ('both indices' if two else 'the row index'), site_of(b))
    rep.floor('index-bounds', 4, 'Index/IndexMut impls of Matrix')


# =============================================================================== D3
def _symbolise(ix, p, names):
    """rewrite polynomial p: items -> ('it', name of their range hi), sizes -> names; names: {term: symbol}"""
    out = {}
    for m, c in p.items():
        mm = []
        for x in m:
            if tag(x) == 'item':
                r = ix.item_range(x)
                if r is None:
                    return None
                lo, hi, incl = r
                if pconst(lo) != 0 or incl:
                    return None
                hs = _name_poly(hi, names)
                if hs is None:
                    return None
                mm.append('i<' + hs)
            else:
                s = names.get(strip_casts(x))
                if s is None:
                    return None
                mm.append(s)
        mm = tuple(sorted(mm))
        out[mm] = out.get(mm, 0) + c
    return out


def _name_poly(p, names):
    if len(p) == 1:
        (m, c), = p.items()
        if c == 1 and len(m) == 1 and strip_casts(m[0]) in names:
            return names[strip_casts(m[0])]
    return None


def _sig(d):
    return ' + '.join(('%d*' % c if c != 1 else '') + '*'.join(m) if m else str(c) for m, c in sorted(d.items()))


def d3_maps(prog, rep):
    pdb = prog.pdb
    # ---- transpose: push order
    f = prog.func(U + 'transpose')
    key = 'map-signature:%stranspose' % U
    if f is None:
        rep.viol('map-signature', key, 'transpose disappeared')
    else:
        rep.touch(f.body.key)
        ix = IdxFunc(prog, f)
        a = ('arg', 1, f.names.get(1))
        nrows = ('arg', 2, f.names.get(2))
        ncols = ix.dims().get(a, (None, None))[1]
        names = {nrows: 'R', strip_casts(ncols) if ncols else None: 'C'}
        pushes = [c for c in f.calls() if c.path and short(c.path) == 'push']
        ok = False
        recognised = False
        why = 'the result is not built by one push of a[..] inside two counted for-loops'
        if len(pushes) == 1 and tag(pushes[0].args[1]) == 'index' and pushes[0].args[1][1] == a:
            src = _symbolise(ix, poly(pushes[0].args[1][2]), names)
            loops = [li for li in ix.loops if pushes[0].bb in li['blocks']]
            loops.sort(key=lambda li: -len(li['blocks']))
            his = [_name_poly(ix.item_range(li['item'])[1], names) if li['item'] is not None and ix.item_range(li['item']) else None for li in loops]
            # outer loop over columns, inner over rows; source a[i*C + j]
            want = {('C', 'i<R'): 1, ('i<C',): 1}
            ok = his == ['C', 'R'] and src == want
            # a verdict needs the whole enumeration read: two loops with named bounds and a source index over them
            recognised = len(his) == 2 and all(h is not None for h in his) and src is not None
            why = 'loops %s, source index %s' % (his, _sig(src) if src else None)
        if ok:
            rep.ok('map-signature', key, 'out (C x R) pushes a[i*C + j] for j in 0..C (outer), i in 0..R (inner): out[j][i] = a[i][j]')
        elif recognised:
            rep.viol('map-signature', key, 'transpose does not enumerate a[i*C + j] column by column (%s)' % why, site_of(f.body))
        else:
            rep.undecided('map-signature', key, 'enumeration order of transpose not read (%s)' % why, site_of(f.body), proof=False)
    # ---- layout conversions: store signatures
    for name, want_out, want_in in (('row_to_col_major', {('R', 'i<C'): 1, ('i<R',): 1}, {('C', 'i<R'): 1, ('i<C',): 1}),
                                    ('col_to_row_major', {('C', 'i<R'): 1, ('i<C',): 1}, {('R', 'i<C'): 1, ('i<R',): 1})):
        f = prog.func(U + name)
        key = 'map-signature:%s%s' % (U, name)
        if f is None:
            rep.viol('map-signature', key, 'function disappeared')
            continue
        rep.touch(f.body.key)
        ix = IdxFunc(prog, f)
        a = ('arg', 1, f.names.get(1))
        nrows = ('arg', 2, f.names.get(2))
        ncols = ix.dims().get(a, (None, None))[1]
        names = {nrows: 'R', strip_casts(ncols) if ncols else None: 'C'}
        st = [s for s in f.stores() if tag(s.target) == 'index']
        ok = False
        why = 'stores: %d' % len(st)
        if len(st) == 1 and tag(st[0].value) == 'index' and st[0].value[1] == a:
            o = _symbolise(ix, poly(st[0].target[2]), names)
            i = _symbolise(ix, poly(st[0].value[2]), names)
            ok = o == want_out and i == want_in
            why = 'out[%s] = a[%s]' % (_sig(o) if o else None, _sig(i) if i else None)
            rets = f.return_values()
            ok = ok and rets and (rets[0] == st[0].target[1])
        if ok:
            rep.ok('map-signature', key, why)
        else:
            rep.viol('map-signature', key, '%s: %s, expected out[%s] = a[%s]' % (name, why, _sig(want_out), _sig(want_in)), site_of(f.body))
    # ---- Matrix::t / get_col_as_vector / hcat / vcat / hrepeat / vrepeat
    f = prog.func(M + '::t')
    key = 'map-signature:%s::t' % M
    if f is not None:
        rep.touch(f.body.key)
        me = ('arg', 1, f.names.get(1))
        rets = f.return_values()
        ok = len(rets) == 1 and tag(rets[0]) == 'call' and rets[0][1] == M + '::new' and _is_transpose_of_self(rets[0][2][0], me) \
            and strip_casts(rets[0][2][1]) == ('field', me, 2, 'usize') and strip_casts(rets[0][2][2]) == ('field', me, 1, 'usize')
        if ok:
            rep.ok('map-signature', key, 't() = Matrix::new(transpose(data, nrows), ncols, nrows)')
        else:
            # a refutation needs the written form: Matrix::new(<buffer>, <dim>, <dim>) whose dims are the two fields in
            # the wrong order, or whose buffer is a readable transpose call with the wrong row count / the untransposed buffer
            Rf, Cf = ('field', me, 1, 'usize'), ('field', me, 2, 'usize')
            definite = None
            if len(rets) == 1 and tag(rets[0]) == 'call' and rets[0][1] == M + '::new' and len(rets[0][2]) == 3:
                d1, d2 = strip_casts(rets[0][2][1]), strip_casts(rets[0][2][2])
                buf = rets[0][2][0]
                while tag(buf) == 'call' and short(buf[1]) in ('new', 'from', 'into', 'clone') and buf[2]:
                    buf = buf[2][0]
                if {d1, d2} <= {Rf, Cf} and (d1, d2) != (Cf, Rf):
                    definite = 'dims (%s, %s), not (ncols, nrows)' % (show(d1), show(d2))
                elif (d1, d2) == (Cf, Rf) and tag(buf) == 'call' and buf[1].endswith('utils::transpose') and len(buf[2]) == 2 \
                        and strip_casts(buf[2][1]) in (Rf, Cf) and buf[2][0] == ('field', me, 0, 'linalg::array::vec::Vector') and strip_casts(buf[2][1]) != Rf:
                    definite = 'buffer transposed with row count %s' % show(buf[2][1])
                elif (d1, d2) == (Cf, Rf) and buf == ('field', me, 0, 'linalg::array::vec::Vector'):
                    definite = 'buffer copied without transposition'
            if definite:
                rep.viol('map-signature', key, 't() is %s: %s' % ([show(r)[:90] for r in rets], definite), site_of(f.body))
            else:
                rep.undecided('map-signature', key, 't() is not in the read form Matrix::new(transpose(data, nrows), ncols, nrows): %s' % [show(r)[:90] for r in rets],
                              site_of(f.body), proof=False)
    f = prog.func(M + '::get_col_as_vector')
    key = 'map-signature:%s::get_col_as_vector' % M
    if f is not None:
        rep.touch(f.body.key)
        me = ('arg', 1, f.names.get(1))
        col = ('arg', 2, f.names.get(2))
        ix = IdxFunc(prog, f)
        st = [s for s in f.stores() if tag(s.target) == 'index']
        ok = False
        read = None            # (element value, row variable, (lo, hi) of the row variable, block of the copy) once the copy loop is read
        if len(st) == 1 and tag(st[0].target[2]) == 'item':
            s = st[0]
            r = ix.item_range(s.target[2])
            if r is not None:
                read = (s.value, s.target[2], (r[0], r[1]), s.bb)
        elif not st:
            # (lo..hi).map(|i| self[i][col]).collect()
            rets = f.return_values()
            rv = rets[0] if len(rets) == 1 else None
            while tag(rv) == 'call' and short(rv[1]) in ('collect', 'from', 'into', 'from_iter', 'new') and rv[2]:
                nxt = rv[2][0]
                if tag(nxt) == 'call' and short(nxt[1]) == 'map' and len(nxt[2]) == 2 and tag(nxt[2][1]) == 'agg' and nxt[2][1][1] == 'closure':
                    it, cl = nxt[2]
                    while tag(it) == 'call' and short(it[1]) == 'into_iter' and it[2]:
                        it = it[2][0]
                    g = prog.func(cl[2])
                    grv = g.return_values() if g is not None else []
                    if tag(it) == 'range' and len(grv) == 1:
                        rowv = ('arg', 2, g.names.get(2))
                        from ..structs import subst
                        val = subst(grv[0], {z: cl[3][z[1]] for z in subterms(grv[0]) if tag(z) == 'upvar' and z[1] < len(cl[3])})
                        bbs = [c.bb for c in f.calls() if c.path and short(c.path) == 'map']
                        read = (val, rowv, (poly(it[1]), poly(it[2])), bbs[0] if bbs else 0)
                    break
                rv = nxt
        if read is None:
            rep.undecided('map-signature', key, 'column copy idiom not read (neither an index-store loop nor a map over the row range)', site_of(f.body), proof=False)
        else:
            v, i, (lo, hi), bb = read
            # self[i][col]
            okv = tag(v) == 'index' and v[2] == col and tag(v[1]) == 'call' and short(v[1][1]) == 'index' and v[1][2] == (me, i)
            okr = pconst(lo) == 0 and peq(hi, poly(('field', me, 1, 'usize')))
            gs = [canon_guard(cn, vv) for cn, vv in f.guards().get(bb, [])]
            okg = any(g[0] == 'cmp' and g[1] == 'Lt' and g[2] == col and g[3] == ('field', me, 2, 'usize') and g[4] for g in gs)
            ok = okv and okr and okg
            # refutations need the read forms: an element self[a][b] with the wrong a / b; a row range that is 0..ncols or starts at a non-zero
            # literal; no test mentioning `col` dominating the copy in a body that calls no helper of the crate
            Cf = ('field', me, 2, 'usize')
            defv = not okv and tag(v) == 'index' and tag(v[1]) == 'call' and short(v[1][1]) == 'index' and len(v[1][2]) == 2 and v[1][2][0] == me \
                and v[2] in (col, i) and v[1][2][1] in (col, i)
            defr = not okr and (peq(hi, poly(Cf)) or (pconst(lo) not in (None, 0)))
            helpers = [c for c in f.calls() if c.path and c.path in prog.pdb.bodies and '{closure#' not in c.path and short(c.path) not in ('index', 'index_mut')]
            defg = not okg and not helpers and not any(col in set(subterms(cn)) for cn, vv in f.guards().get(bb, []))
            if ok:
                rep.ok('map-signature', key, 'v[i] = self[i][col] for i in 0..nrows, col < ncols asserted')
            elif defv or defr or defg:
                rep.viol('map-signature', key, 'column extraction does not copy self[i][col] for every row under a bounds assert (element %s, rows %s, bound asserted: %s)' % (
                    show(v)[:40], 'ok' if okr else 'not 0..nrows', okg), site_of(f.body))
            else:
                rep.undecided('map-signature', key, 'column copy not in the read form (element %s, rows %s, bound asserted: %s): not read' % (
                    show(v)[:40], 'ok' if okr else 'not 0..nrows', okg), site_of(f.body), proof=False)
    # ---- Matrix::diag: min(nrows, ncols) entries data[i*ncols + i]
    f = prog.func(M + '::diag')
    key = 'map-signature:%s::diag' % M
    if f is None:
        rep.viol('map-signature', key, 'Matrix::diag disappeared')
    else:
        rep.touch(f.body.key)
        me = ('arg', 1, f.names.get(1))
        R, C = ('field', me, 1, 'usize'), ('field', me, 2, 'usize')
        data = ('field', me, 0, 'linalg::array::vec::Vector')

        def is_min(t):
            return tag(t) == 'call' and short(t[1]) == 'min' and set(t[2]) == {R, C}
        pushes = [c for c in f.calls() if c.path and short(c.path) == 'push']
        steps = [c for c in f.calls() if c.path and short(c.path) == 'step_by']
        if len(pushes) == 1 and tag(pushes[0].args[1]) == 'index':
            v = pushes[0].args[1]
            loops = [li for li in f.loop_info() if li['item'] is not None and pushes[0].bb in li['blocks']]
            ok = False
            why = 'no counting loop'
            if len(loops) == 1:
                i = loops[0]['item']
                rng = i[2]
                okr = tag(rng) == 'range' and tag(rng[1]) == 'const' and rng[1][2] == 0 and is_min(rng[2])
                oki = strip_casts(v[1]) == data and peq(poly(v[2]), padd(pmul(poly(i), poly(C)), poly(i)))
                ok = okr and oki
                why = 'range %s, element %s' % (show(rng)[:40], show(v)[:60])
            # refuted in the read form only: a counting loop whose bound is one of the two dimensions alone (or whose start is a non-zero literal),
            # or a pushed element data[p(i)] with p a polynomial in i and ncols / nrows other than i*ncols + i
            definite = False
            if len(loops) == 1 and not ok:
                if tag(rng) == 'range' and ((tag(rng[1]) == 'const' and rng[1][2] != 0) or strip_casts(rng[2]) in (R, C)):
                    definite = True
                if strip_casts(v[1]) == data and okr and set(atoms(poly(v[2]))) <= {i, R, C}:
                    definite = True
            if ok:
                rep.ok('map-signature', key, 'diag pushes data[i*ncols + i] for i in 0..min(nrows, ncols)')
            elif definite:
                rep.viol('map-signature', key, 'diag does not enumerate data[i*ncols + i] over 0..min(nrows, ncols) (%s)' % why, site_of(f.body))
            else:
                rep.undecided('map-signature', key, 'diag: the push loop is not in the read form (%s): not read' % why, site_of(f.body), proof=False)
        elif len(steps) == 1:
            st = steps[0]
            stride_ok = peq(poly(st.args[1]), padd(poly(C), {(): 1}))
            takes = [c for c in f.calls() if c.path and short(c.path) == 'take' and is_min(c.args[1])]
            if stride_ok and takes:
                rep.ok('map-signature', key, 'diag walks the buffer with stride ncols + 1 and takes min(nrows, ncols) entries')
            elif not stride_ok:
                rep.viol('map-signature', key, 'diag walks the buffer with stride %s, not ncols + 1' % show(st.args[1])[:40], site_of(f.body))
            else:
                rep.viol('map-signature', key, 'diag walks the row-major buffer with stride ncols + 1 but does not stop after min(nrows, ncols) entries: a tall matrix '
                         '(nrows >= ncols + 2) yields extra elements, e.g. 4x2 [1..8] gives [1, 4, 7]', site_of(f.body))
        else:
            rep.undecided('map-signature', key, 'diag idiom not recognised', site_of(f.body), proof=False)
    for name in ('hcat', 'vcat', 'hrepeat', 'vrepeat'):
        _check_cat(prog, rep, name)
    rep.floor('map-signature', 10, 'transpose, 2 layout conversions, t, get_col_as_vector, diag, hcat, vcat, hrepeat, vrepeat')


def _check_cat(prog, rep, name):
    f = prog.func(M + '::' + name)
    key = 'map-signature:%s::%s' % (M, name)
    if f is None:
        rep.viol('map-signature', key, 'function disappeared')
        return
    rep.touch(f.body.key)
    me = ('arg', 1, f.names.get(1))
    other = ('arg', 2, f.names.get(2))
    ix = IdxFunc(prog, f)
    news = [c for c in f.calls() if c.path == M + '::new']
    if len(news) != 1:
        rep.undecided('map-signature', key, 'result is not built by a single Matrix::new: idiom not read', site_of(f.body), proof=False)
        return
    nw = news[0]
    r, c = strip_casts(nw.args[1]), strip_casts(nw.args[2])
    R = ('field', me, 1, 'usize')
    C = ('field', me, 2, 'usize')
    oR = ('field', other, 1, 'usize')
    oC = ('field', other, 2, 'usize')
    problems = []
    undec = []
    if name == 'hcat':
        gs = [cn for cn, v in f.guards().get(nw.bb, []) if v is True]
        if not any(tag(cn) == 'bin' and cn[1] == 'Eq' and {cn[2], cn[3]} == {R, oR} for cn in gs):
            problems.append('no assert_eq!(self.nrows, other.nrows)')
        if not (r == R and peq(poly(c), padd(poly(C), poly(oC)))):
            problems.append('result shape is (%s, %s)' % (show(r), show(c)))
        pushes = [p for p in f.calls() if p.path and short(p.path) == 'push' and p.args[0] == nw.args[0]]
        if len(pushes) != 2:
            undec.append('expected two pushes per row')
        else:
            names1 = {R: 'R', C: 'C', oC: 'OC', oR: 'R'}
            srcs = []
            for p in pushes:
                v = p.args[1]
                if tag(v) != 'index':
                    undec.append('pushed value is not an element')
                    continue
                base = v[1]
                sym = _symbolise(ix, poly(v[2]), names1)
                srcs.append((show(base), _sig(sym) if sym else None))
            want = [('self.0', 'C*i<R + i<C'), ('other.0', 'OC*i<R + i<OC')]
            if srcs != want:
                problems.append('row pieces are %s, expected %s' % (srcs, want))
            # both pushes inside the same outer loop over rows, first self then other
            outer = [li for li in ix.loops if all(p.bb in li['blocks'] for p in pushes)]
            if len(outer) != 1 or not (ix.item_range(outer[0]['item']) and peq(ix.item_range(outer[0]['item'])[1], poly(R))):
                problems.append('outer loop is not 0..nrows')
            elif not _before(f, pushes[0], pushes[1], outer[0]):
                problems.append('other\'s row piece is not appended after self\'s')
    elif name == 'vcat':
        gs = [cn for cn, v in f.guards().get(nw.bb, []) if v is True]
        if not any(tag(cn) == 'bin' and cn[1] == 'Eq' and {cn[2], cn[3]} == {C, oC} for cn in gs):
            problems.append('no assert_eq!(self.ncols, other.ncols)')
        if not (peq(poly(r), padd(poly(R), poly(oR))) and c == C):
            problems.append('result shape is (%s, %s)' % (show(r), show(c)))
        nv = nw.args[0]
        ext = [e for e in f.calls() if e.path and short(e.path) == 'extend' and e.args[0] == nv]
        okd = tag(nv) == 'call' and short(nv[1]) == 'clone' and nv[2][0] == ('field', me, 0, 'linalg::array::vec::Vector')
        oke = len(ext) == 1 and ext[0].args[1] == ('field', other, 0, 'linalg::array::vec::Vector')
        if not (okd and oke):
            undec.append('data is not self.data.clone() extended by other.data')
    elif name == 'hrepeat':
        n = other
        total = ('bin', 'Mul', C, n, 'usize')
        if not (r == R and peq(poly(c), pmul(poly(C), poly(n)))):
            problems.append('result shape is (%s, %s)' % (show(r), show(c)))
        nv = nw.args[0]
        ext = [e for e in f.calls() if e.path and short(e.path) == 'extend' and e.args[0] == nv]
        if len(ext) != 1:
            undec.append('expected one extend per (row, copy)')
        else:
            e = ext[0]
            src = e.args[1]
            loops = sorted([li for li in ix.loops if e.bb in li['blocks']], key=lambda li: -len(li['blocks']))
            his = [ix.item_range(li['item'])[1] if ix.item_range(li['item']) else None for li in loops]
            ok = len(loops) == 2 and peq(his[0], poly(R)) and peq(his[1], poly(n)) and tag(src) == 'call' and short(src[1]) == 'index' \
                and src[2] == (me, loops[0]['item'])
            if not ok:
                undec.append('row source %s not read' % show(src)[:60])
    elif name == 'vrepeat':
        n = other
        if not (peq(poly(r), pmul(poly(R), poly(n))) and c == C):
            problems.append('result shape is (%s, %s)' % (show(r), show(c)))
        nv = nw.args[0]
        if not (tag(nv) == 'call' and short(nv[1]) == 'repeat' and nv[2][0] == ('field', me, 0, 'linalg::array::vec::Vector') and nv[2][1] == n):
            undec.append('data is not of the form self.data.repeat(n): %s' % show(nv)[:60])
    if problems:
        rep.viol('map-signature', key, '%s: %s' % (name, '; '.join(problems)), site_of(f.body))
    elif undec:
        rep.undecided('map-signature', key, '%s: assembly idiom not read (%s)' % (name, '; '.join(undec)), site_of(f.body), proof=False)
    else:
        rep.ok('map-signature', key, '%s: shape and element order match the definition' % name)


def _before(f, c1, c2, loop):
    """within one iteration of loop, c1 executes before c2 (c2 not reachable to c1 without passing the header)"""
    cfg = f.cfg
    return cfg.can_reach(c1.bb, c2.bb, avoid=[loop['header']]) and not cfg.can_reach(c2.bb, c1.bb, avoid=[loop['header']])


# =============================================================================== D4
def _tri(rep, rule, key, ok, recognised, good, bad, site):
    """ok -> discharged; recognised idiom with a wrong detail -> violation; idiom not read by the rule -> NOT-DECIDED"""
    if ok:
        rep.ok(rule, key, good)
    elif recognised:
        rep.viol(rule, key, bad, site)
    else:
        rep.undecided(rule, key, 'construction idiom not read by this rule (%s not established)' % good[:60], site, proof=False)


def d4_constructors(prog, rep):
    # eye: zeros(d, d); data[i*d + i] = 1 for i in 0..d
    f = prog.func(M + '::eye')
    key = 'constructor:%s::eye' % M
    if f is not None:
        rep.touch(f.body.key)
        ix = IdxFunc(prog, f)
        d = ('arg', 1, f.names.get(1))
        st = [s for s in f.stores() if tag(s.target) == 'index']
        rets = f.return_values()
        ok = False
        if len(st) == 1 and rets and tag(rets[0]) == 'call' and rets[0][1] == M + '::zeros' and rets[0][2] == (d, d):
            s = st[0]
            its = ix.items_in(poly(s.target[2]))
            ok = len(its) == 1 and peq(poly(s.target[2]), padd(pmul(poly(its[0]), poly(d)), poly(its[0]))) and _c(s.value) == 1.0 \
                and ix.item_range(its[0]) and pconst(ix.item_range(its[0])[0]) == 0 and peq(ix.item_range(its[0])[1], poly(d)) \
                and s.target[1] == ('field', rets[0], 0, 'linalg::array::vec::Vector')
        _tri(rep, 'constructor', key, ok, len(st) == 1, 'eye(d): zeros(d,d) with data[i*d+i] = 1 for i in 0..d', 'eye does not set exactly the diagonal of a d x d zero matrix to 1', site_of(f.body))
    # diag_matrix
    f = prog.func(U + 'diag_matrix')
    key = 'constructor:%sdiag_matrix' % U
    if f is not None:
        rep.touch(f.body.key)
        ix = IdxFunc(prog, f)
        a = ('arg', 1, f.names.get(1))
        n = ('len', a)
        st = [s for s in f.stores() if tag(s.target) == 'index']
        ok = False
        if len(st) == 1:
            s = st[0]
            its = ix.items_in(poly(s.target[2]))
            base = s.target[1]
            zero_nn = any(tag(z) == 'call' and z[1] == 'std::vec::from_elem' and _c(z[2][0]) == 0.0 and peq(poly(z[2][1]), pmul(poly(n), poly(n))) for z in subterms(base))
            ok = len(its) == 1 and peq(poly(s.target[2]), padd(pmul(poly(its[0]), poly(n)), poly(its[0]))) and s.value == ('index', a, its[0]) \
                and zero_nn and peq(ix.item_range(its[0])[1], poly(n)) and f.return_values() == [base]
        _tri(rep, 'constructor', key, ok, len(st) == 1 and tag(st[0].value) == 'index', 'diag_matrix(a): n*n zeros with [i*n+i] = a[i]', 'diag_matrix does not place a[i] at (i,i) of an n x n zero matrix', site_of(f.body))
    # toeplitz
    f = prog.func(U + 'toeplitz')
    key = 'constructor:%stoeplitz' % U
    if f is not None:
        rep.touch(f.body.key)
        ix = IdxFunc(prog, f)
        x = ('arg', 1, f.names.get(1))
        n = ('len', x)
        st = [s for s in f.stores() if tag(s.target) == 'index']
        ok = False
        why = ''
        if len(st) == 1:
            s = st[0]
            its = ix.items_in(poly(s.target[2]))
            v = s.value
            if len(its) == 2 and tag(v) == 'index' and v[1] == x:
                sp = ix.split_stride(poly(s.target[2]))
                e = strip_casts(v[2])
                if sp and tag(e) == 'call' and e[1].endswith('::abs'):
                    S, row, col = sp
                    d = poly(e[2][0])
                    ok = (strip_casts(S) == n) and (peq(d, psub(row, col)) or peq(d, psub(col, row)))
                    rr = [ix.item_range(i) for i in its]
                    ok = ok and all(r and pconst(r[0]) == 0 and peq(r[1], poly(n)) for r in rr)
                why = 'value %s at %s' % (show(v)[:60], pshow(poly(s.target[2]), show)[:80])
        _tri(rep, 'constructor', key, ok, len(st) == 1 and len(ix.items_in(poly(st[0].target[2]))) == 2, 'toeplitz(x)[i*n+j] = x[|i-j|]', 'toeplitz is not (i,j) <- x[|i-j|] (%s)' % why, site_of(f.body))
    # vandermonde: for v in x, for i in 0..n: push v^i
    f = prog.func(U + 'vandermonde')
    key = 'constructor:%svandermonde' % U
    if f is not None:
        rep.touch(f.body.key)
        ix = IdxFunc(prog, f)
        x = ('arg', 1, f.names.get(1))
        n = ('arg', 2, f.names.get(2))
        pushes = [c for c in f.calls() if c.path and short(c.path) == 'push']
        ok = False
        recog = False
        if len(pushes) == 1:
            v = pushes[0].args[1]
            loops = sorted([li for li in f.loop_info() if pushes[0].bb in li['blocks'] and li['item'] is not None], key=lambda li: -len(li['blocks']))
            if len(loops) == 2 and tag(v) == 'call' and v[1].endswith('::powi'):
                recog = True
                outer, inner = loops
                base, e = v[2]
                okb = base == outer['item'] and _iter_over(outer['iter'], x)
                oke = strip_casts(e) == inner['item'] and inner['iter'] == ('range', ('const', 'usize', 0), n)
                ok = okb and oke
        _tri(rep, 'constructor', key, ok, recog, 'vandermonde: row per x[r], columns x[r]^c for c in 0..n', 'vandermonde does not push x[r]^c row by row for c in 0..n', site_of(f.body))
    # design: ones(rows) ++ x (column-major) -> col_to_row_major(.., rows)
    f = prog.func(U + 'design')
    key = 'constructor:%sdesign' % U
    if f is not None:
        rep.touch(f.body.key)
        x = ('arg', 1, f.names.get(1))
        rows = ('arg', 2, f.names.get(2))
        rets = f.return_values()
        ok = False
        if len(rets) == 1 and tag(rets[0]) == 'call' and rets[0][1] == U + 'col_to_row_major' and rets[0][2][1] == rows:
            buf = rets[0][2][0]
            ones = tag(buf) == 'call' and buf[1] == 'std::vec::from_elem' and _c(buf[2][0]) == 1.0 and buf[2][1] == rows
            ext = [c for c in f.calls() if c.path and short(c.path) == 'extend_from_slice' and c.args[0] == buf and c.args[1] == x]
            ok = ones and len(ext) == 1
        _tri(rep, 'constructor', key, ok, len(rets) == 1 and tag(rets[0]) == 'call' and rets[0][1] == U + 'col_to_row_major', 'design(x, rows): column of ones followed by x\'s columns, converted to row-major', 'design is not [1 | x]', site_of(f.body))
    rep.floor('constructor', 5, 'eye, diag_matrix, toeplitz, vandermonde, design')


def _tri_all_form(prog, f, me):
    """((outer lo, hi), (inner lo, hi), outer index term, element-test-ok) of `(lo..hi).all(|i| (lo'..hi').all(|j| self[i][j] == 0.))`, with
    the inner bounds expressed over the outer index; None when the body is not of this form"""
    from ..structs import subst
    rv = f.return_values()
    if len(rv) != 1:
        return None
    t = rv[0]

    def all_of(t_):
        if tag(t_) == 'call' and short(t_[1]) == 'all' and len(t_[2]) == 2 and tag(t_[2][0]) == 'range' and tag(t_[2][1]) == 'agg' and t_[2][1][1] == 'closure':
            return t_[2][0], t_[2][1]
        return None
    o = all_of(t)
    if o is None:
        return None
    orng, ocl = o
    g = prog.func(ocl[2])
    if g is None or len(g.return_values()) != 1:
        return None
    i_g = ('arg', 2, g.names.get(2))
    caps = ocl[3]
    body = subst(g.return_values()[0], {z: caps[z[1]] for z in subterms(g.return_values()[0]) if tag(z) == 'upvar' and z[1] < len(caps)})
    body = prog.inline_closure_calls(body)
    inn = all_of(body)
    if inn is None:
        return None
    irng, icl = inn
    h = prog.func(icl[2])
    if h is None or len(h.return_values()) != 1:
        return None
    j_h = ('arg', 2, h.names.get(2))
    caps2 = icl[3]
    test = subst(h.return_values()[0], {z: caps2[z[1]] for z in subterms(h.return_values()[0]) if tag(z) == 'upvar' and z[1] < len(caps2)})
    okt = tag(test) == 'bin' and test[1] == 'Eq' and _c(test[3]) == 0.0 and tag(test[2]) == 'index' and test[2][2] == j_h and \
        tag(test[2][1]) == 'call' and short(test[2][1][1]) == 'index' and len(test[2][1][2]) == 2 and test[2][1][2][1] == i_g
    root_ = test[2][1][2][0] if okt else None
    if okt:
        # the matrix indexed is self (captured by the outer closure from the method's self)
        while tag(root_) == 'upvar' and root_[1] < len(caps):
            root_ = caps[root_[1]]
        okt = root_ == me
    return (orng[1], orng[2]), (irng[1], irng[2]), i_g, okt


def _iter_over(it, x):
    while tag(it) == 'call' and short(it[1]) in ('iter', 'into_iter'):
        it = it[2][0]
    return it == x


# =============================================================================== D5
def _subst_expr(e, env):
    """elem expression with symbols replaced by literals and the position in the counting range by env['#']"""
    if isinstance(e, frozenset):
        return frozenset(_subst_expr(x, env) for x in e)
    if not isinstance(e, tuple):
        return e
    if e == ('pos',):
        return ('ci', env['#'])
    if e and e[0] == 'sym':
        v = env[e[1]]
        return ('ci', v) if isinstance(v, int) else ('c', v)
    return tuple(_subst_expr(x, env) if isinstance(x, (tuple, frozenset)) else x for x in e)


def _ev_usize(e):
    """value of an integer-valued elem expression whose float -> int casts target usize (negative values saturate to 0)"""
    from ..formula import ev

    def sat(n):
        if isinstance(n, tuple) and n and n[0] == 'f2i':
            v = ev(sat_all(n[1]), {}, 0.0)
            return ('ci', max(0, int(v)) if v == v else 0)
        return n

    def sat_all(n):
        if not isinstance(n, tuple):
            return n
        n = tuple(sat_all(x) if isinstance(x, tuple) else x for x in n)
        return sat(n)
    return ev(sat_all(e), {}, 0.0)


def _ranges_of(prog, f):
    out = []
    for c in f.calls():
        for a in c.args:
            for z in subterms(a):
                if tag(z) == 'range' and z not in out:
                    out.append(z)
    return out


def _grid_rule(prog, rep, name, syms, elem_ref, count_ref, points, ok_text, what):
    """elements and count of a grid constructor, decided point-wise on exactly representable witnesses: the element expressions the
    ElemEngine finds (position erased to one opaque integer) and the bound of the 0..count range are evaluated and compared with the
    reference; any construction idiom the engine reads is accepted, a differing value at a witness is the violation"""
    from ..elem import ElemEngine, Env, has_top, top_reasons
    from ..formula import ev, close, Uneval, Excluded
    f = prog.func(U + name)
    key = 'grid:%s%s' % (U, name)
    if f is None:
        return
    rep.touch(f.body.key)
    eng = ElemEngine(prog, ints=True, guard_locals=True, positions=True)
    args = {i + 1: frozenset([('sym', sname)]) for i, sname in enumerate(syms)}
    problems, undec = [], []
    f0 = f
    try:
        ret, _ = eng.result_of(f.body.key, args)
    except Exception as ex:      # engine limits
        ret = None
        undec.append('elements not read (%s)' % str(ex)[:60])
    if ret is not None:
        if not isinstance(ret, frozenset) or has_top(ret) or not ret:
            undec.append('elements not read (%s)' % '; '.join(sorted(top_reasons(ret)))[:80] if isinstance(ret, frozenset) else 'elements not read')
        else:
            for e in sorted(ret, key=repr):
                bad = None
                try:
                    for pt in points:
                        for pos in (0, 1, 3):
                            env = dict(zip(syms, pt)); env['#'] = pos
                            try:
                                got = ev(_subst_expr(e, env), {}, 0.0)
                            except Excluded:
                                continue
                            want = elem_ref(pt, pos)
                            if not close(float(got), float(want), 1e-12):
                                bad = (pt, pos, got, want)
                                break
                        if bad:
                            break
                except (Uneval, Excluded, TypeError, KeyError) as ex:
                    undec.append('element expression not evaluated (%s)' % str(ex)[:50])
                    continue
                if bad:
                    problems.append('element %d of %s%s is %s, %s is %s' % (bad[1], name, tuple(bad[0]), bad[2], what, bad[3]))
    # count: bound of the 0..count range
    rngs = _ranges_of(prog, f)
    env0 = Env(f, args, {})
    hops = 0
    while not rngs and hops < 2:
        # a wrapper (`arange(a, b, s) = arange_with(a, b, s, false)`): the range is looked for in the single in-crate callee it returns
        rv = f.return_values()
        if not (len(rv) == 1 and tag(rv[0]) == 'call' and rv[0][1] in prog.pdb.bodies):
            break
        g = prog.func(rv[0][1])
        if g is None:
            break
        try:
            args2 = {i + 1: eng.ev(env0, a) for i, a in enumerate(rv[0][2])}
        except Exception:
            break
        f, env0 = g, Env(g, args2, {})
        rep.touch(g.body.key)
        rngs = _ranges_of(prog, f)
        hops += 1
    if len(rngs) != 1:
        undec.append('no single 0..count range found (%d)' % len(rngs))
    else:
        rng = rngs[0]
        try:
            lo = eng.ev(env0, rng[1]) if tag(rng[1]) != 'const' else frozenset([('ci', rng[1][2])])
            hi = eng.ev(env0, rng[2])
        except Exception as ex:
            lo = hi = None
            undec.append('range bound not read (%s)' % str(ex)[:50])
        if hi is not None:
            if not isinstance(hi, frozenset) or has_top(hi) or lo != frozenset([('ci', 0)]):
                undec.append('range %s not read' % show(rng)[:60])
            else:
                alts = sorted(hi, key=repr)
                allgood = True
                for pt in points:
                    env = dict(zip(syms, pt)); env['#'] = 0
                    want = count_ref(pt)
                    try:
                        vals = []
                        for e in alts:
                            try:
                                vals.append(_ev_usize(_subst_expr(e, env)))
                            except Excluded:
                                pass        # this form is assigned only under comparisons that do not hold at the witness
                    except (Uneval, TypeError, KeyError) as ex:
                        undec.append('count expression not evaluated (%s)' % str(ex)[:50])
                        allgood = False
                        break
                    if not vals:
                        allgood = False
                        continue
                    if all(v != want for v in vals):
                        problems.append('%s%s yields %s points, %s has %d' % (name, tuple(pt), ' or '.join(str(v) for v in vals), what, want))
                        allgood = False
                        break
                    if any(v != want for v in vals):
                        allgood = False
                if not allgood and not problems and not any('count' in u for u in undec):
                    undec.append('count has several forms (%d) whose conditions are not read' % len(alts))
    if problems:
        rep.viol('grid', key, '; '.join(problems), site_of(f0.body))
    elif undec:
        rep.undecided('grid', key, '; '.join(undec), site_of(f0.body), proof=False)
    else:
        rep.ok('grid', key, ok_text)


def d5_grids(prog, rep):
    import math
    # witnesses are dyadic, so the reference values are exact in f64
    pts_a = [(0.0, 1.0, 0.25), (0.0, 1.0, 0.375), (0.0, 1.125, 0.25), (0.0, 10.0, 1.0), (-3.0, 3.0, 1.5), (1.0, 0.0, 0.25), (2.0, 2.0, 1.0),
             (0.5, 8.0, 2.0), (4.0, -1.0, -1.25), (1.0, 0.0, 0.375), (0.0, -1.0, 0.75)]
    _grid_rule(prog, rep, 'arange', ('start', 'stop', 'step'),
               lambda pt, i: pt[0] + i * pt[2],
               lambda pt: max(0, math.ceil((pt[1] - pt[0]) / pt[2])),
               pts_a, 'count = ceil((stop-start)/step) as usize; element i = start + i*step (decided on %d exact witnesses)' % len(pts_a),
               'the half-open grid start + i*step < stop')
    pts_l = [(0.0, 1.0, 5), (-2.0, 6.0, 9), (1.5, 0.5, 3), (0.0, 10.0, 11), (3.0, 4.0, 2)]
    _grid_rule(prog, rep, 'linspace', ('start', 'stop', 'num'),
               lambda pt, i: pt[0] + i * ((pt[1] - pt[0]) / (pt[2] - 1)),
               lambda pt: pt[2],
               pts_l, 'num points, element i = start + i*(stop-start)/(num-1) (decided on %d exact witnesses)' % len(pts_l),
               'the closed grid of num points from start to stop')
    rep.floor('grid', 2, 'arange, linspace')


def _is_affine_grid(t):
    """start + (i as f64) * step with start, step upvars"""
    if tag(t) != 'bin' or t[1] != 'Add':
        return False
    for a, b in ((t[2], t[3]), (t[3], t[2])):
        if tag(a) == 'upvar' and tag(b) == 'bin' and b[1] == 'Mul':
            for u, v in ((b[2], b[3]), (b[3], b[2])):
                if tag(u) == 'cast' and u[1] == 'IntToFloat' and tag(u[2]) == 'arg' and tag(v) == 'upvar' and v[1] != a[1]:
                    return True
    return False


# =============================================================================== D6
def d6_rotations(prog, rep):
    mats = {}
    for name in ('rotation_matrix_cw', 'rotation_matrix_ccw'):
        f = prog.func('linalg::rotations::' + name)
        if f is None:
            rep.viol('rotation', 'rotation:%s' % name, 'function disappeared')
            continue
        rep.touch(f.body.key)
        angle = ('arg', 1, f.names.get(1))
        axis = ('arg', 2, f.names.get(2))
        news = [c for c in f.calls() if c.path == M + '::new']
        okshape = len(news) == 1 and _c(news[0].args[1]) == 3 and _c(news[0].args[2]) == 3
        # array literals per axis variant
        for s in f.stores():
            if tag(s.value) == 'agg' and s.value[1] == 'array' and len(s.value[3]) == 9:
                gs = f.guards().get(s.bb, [])
                var = None
                for cn, v in gs:
                    if tag(cn) == 'discr' and cn[1] == axis and isinstance(v, tuple) and v[0] == 'eq':
                        var = v[1]
                ent = [_rot_entry(e, angle) for e in s.value[3]]
                mats[(name, var)] = ent
        if not okshape:
            rep.viol('rotation', 'rotation:%s:shape' % name, 'result is not a 3 x 3 Matrix', site_of(f.body))
    axes = sorted({v for (_, v) in mats if v is not None} | {0, 1, 2})
    for ax in axes:
        cw = mats.get(('rotation_matrix_cw', ax))
        ccw = mats.get(('rotation_matrix_ccw', ax))
        an = {0: 'X', 1: 'Y', 2: 'Z'}.get(ax, str(ax))
        if cw is None or ccw is None or any(e is None for e in cw + ccw):
            # the nine entries per axis are not literal polynomials in sin/cos of the angle (built by a helper, a loop, ..):
            # every relation of this axis stays open, under its own key
            subkeys = ['cw[%d][%d]=ccw[%d][%d]' % (i, j, j, i) for i in range(3) for j in range(3)] + \
                ['cw:orthogonal', 'cw:det', 'ccw:orthogonal', 'ccw:det', 'sense']
            for sk in subkeys:
                rep.undecided('rotation', 'rotation:axis%s:%s' % (an, sk), 'entries of the %s matrix are not read as polynomials in sin/cos of the angle' % (
                    'clockwise' if (cw is None or any(e is None for e in cw)) else 'counter-clockwise'), proof=False)
            continue
        for i in range(3):
            for j in range(3):
                key = 'rotation:axis%s:cw[%d][%d]=ccw[%d][%d]' % (an, i, j, j, i)
                if _rp_eq(cw[3 * i + j], ccw[3 * j + i]):
                    rep.ok('rotation', key, 'transpose relation holds')
                else:
                    rep.viol('rotation', key, 'cw[%d][%d] = %s but ccw[%d][%d] = %s' % (i, j, _rp_show(cw[3 * i + j]), j, i, _rp_show(ccw[3 * j + i])))
        for nm, mtx in (('cw', cw), ('ccw', ccw)):
            # R^T R = I
            okorth = True
            for i in range(3):
                for j in range(3):
                    acc = {}
                    for k in range(3):
                        acc = _rp_add(acc, _rp_mul(mtx[3 * k + i], mtx[3 * k + j]))
                    acc = _rp_reduce(acc)
                    want = {(): 1} if i == j else {}
                    if acc != want:
                        okorth = False
            key = 'rotation:axis%s:%s:orthogonal' % (an, nm)
            (rep.ok if okorth else rep.viol)('rotation', key, 'R^T R = I in Z[s,c]/(s^2+c^2-1)' if okorth else 'R^T R != I')
            det = _rp_reduce(_rp_det(mtx))
            key = 'rotation:axis%s:%s:det' % (an, nm)
            (rep.ok if det == {(): 1} else rep.viol)('rotation', key, 'det R = 1' if det == {(): 1} else 'det R = %s' % _rp_show(det))
        # orientation: the cw matrix about axis k maps e_{k+1} towards -e_{k+2} (sign of the sine entry)
        key = 'rotation:axis%s:sense' % an
        a1, a2 = (ax + 1) % 3, (ax + 2) % 3
        ent = ccw[3 * a2 + a1]
        if ent == {('s',): 1}:
            rep.ok('rotation', key, 'ccw[%d][%d] = +sin (right-handed counter-clockwise)' % (a2, a1))
        else:
            rep.viol('rotation', key, 'ccw[%d][%d] = %s: the counter-clockwise matrix does not rotate counter-clockwise' % (a2, a1, _rp_show(ent)))
    rep.floor('rotation', 3 * (9 + 4 + 1), '3 axes x (9 transpose relations + 2 orthogonality + 2 determinants + sense)')


def _rot_entry(e, angle):
    if tag(e) == 'const':
        return {(): int(e[2])} if float(e[2]) == int(e[2]) else None
    if tag(e) == 'un' and e[1] == 'Neg':
        x = _rot_entry(e[2], angle)
        return None if x is None else {m: -c for m, c in x.items()}
    if tag(e) == 'call' and is_f64_method(e[1]) and e[2][0] == angle:
        n = f64_method_name(e[1])
        if n == 'sin':
            return {('s',): 1}
        if n == 'cos':
            return {('c',): 1}
    return None


def _rp_add(a, b):
    out = dict(a)
    for m, c in b.items():
        out[m] = out.get(m, 0) + c
        if out[m] == 0:
            del out[m]
    return out


def _rp_mul(a, b):
    out = {}
    for m1, c1 in a.items():
        for m2, c2 in b.items():
            m = tuple(sorted(m1 + m2))
            out[m] = out.get(m, 0) + c1 * c2
            if out[m] == 0:
                del out[m]
    return out


def _rp_reduce(a):
    """s*s -> 1 - c*c"""
    changed = True
    while changed:
        changed = False
        for m, c in list(a.items()):
            if m.count('s') >= 2:
                rest = list(m)
                rest.remove('s')
                rest.remove('s')
                del a[m]
                a = _rp_add(a, {tuple(sorted(rest)): c})
                a = _rp_add(a, {tuple(sorted(rest + ['c', 'c'])): -c})
                changed = True
                break
    return a


def _rp_eq(a, b):
    return _rp_reduce(dict(a)) == _rp_reduce(dict(b))


def _rp_det(m):
    def t(i, j):
        return m[3 * i + j]
    d = {}
    for (i, j, k, sgn) in ((0, 1, 2, 1), (1, 2, 0, 1), (2, 0, 1, 1), (0, 2, 1, -1), (1, 0, 2, -1), (2, 1, 0, -1)):
        term = _rp_mul(_rp_mul(t(0, i), t(1, j)), t(2, k))
        d = _rp_add(d, {mm: sgn * c for mm, c in term.items()})
    return d


def _rp_show(a):
    if not a:
        return '0'
    return ' + '.join('%s%s' % ('' if c == 1 else ('-' if c == -1 else '%d*' % c), '*'.join(m) if m else '1') for m, c in sorted(a.items()))


# =============================================================================== D7
def d7_predicates(prog, rep):
    pdb = prog.pdb
    # is_symmetric x2: compares (i,j) with (j,i), j from i, square guard
    for k, sq in ((U + 'is_symmetric', None), (M + '::is_symmetric', M + '::is_square')):
        f = prog.func(k)
        key = 'predicate:%s' % k
        if f is None:
            rep.viol('predicate', key, 'function disappeared')
            continue
        rep.touch(k)
        ix = IdxFunc(prog, f)
        ok = False
        why = ''
        for cn, v in [(c, v) for gl in f.guards().values() for c, v in gl]:
            reads = []
            for z in subterms(cn):
                if tag(z) == 'index' and tag(z[2]) != 'range' and z not in reads:      # distinct element reads
                    reads.append(z)
            if len(reads) == 1 and not why and any(tag(z) == 'bin' and z[1] in ('Sub', 'Eq', 'Ne') and z[2] == z[3] == reads[0] for z in subterms(cn)):
                why = 'an element is compared with itself (%s)' % show(reads[0])[:50]
            if len(reads) == 2:
                a, b2 = reads
                sa, sb = ix.split_stride(poly(a[2])), ix.split_stride(poly(b2[2]))
                if sa and sb and a[1] == b2[1]:
                    ok = peq(sa[1], sb[2]) and peq(sa[2], sb[1]) and (any(tag(z) == 'bin' and z[1] == 'Sub' and z[4] == 'f64' for z in subterms(cn)) or (tag(cn) == 'bin' and cn[1] in ('Ne', 'Eq') and {cn[2], cn[3]} == {a, b2}))
                    why = '%s vs %s' % (pshow(poly(a[2]), show)[:60], pshow(poly(b2[2]), show)[:60])
                    if ok:
                        break
        if ok:
            rep.ok('predicate', key, 'compares element (i,j) with (j,i)')
        elif why:
            # a comparison of two element reads of the matrix was found in this body and is not the mirrored pair
            rep.viol('predicate', key, 'is_symmetric does not compare (i,j) with (j,i): %s' % why, site_of(f.body))
        else:
            rep.undecided('predicate', key, 'no comparison of two element reads in the body of is_symmetric itself (kept in a helper / closure?)', site_of(f.body), proof=False)
    # triangular predicates: strict lower / upper part
    for name, part in (('is_upper_triangular', 'below'), ('is_lower_triangular', 'above')):
        k = M + '::' + name
        f = prog.func(k)
        key = 'predicate:%s' % k
        if f is None:
            rep.viol('predicate', key, 'function disappeared')
            continue
        rep.touch(k)
        ix = IdxFunc(prog, f)
        me = ('arg', 1, f.names.get(1))
        loops = sorted(ix.loops, key=lambda li: -len(li['blocks']))
        ok = False
        if len(loops) == 2:
            i, j = loops[0]['item'], loops[1]['item']
            ri, rj = ix.item_range(i), ix.item_range(j)
            if ri and rj:
                if part == 'below':
                    okr = pconst(rj[0]) == 0 and peq(rj[1], poly(i))
                else:
                    okr = peq(rj[0], padd(poly(i), {(): 1})) and peq(rj[1], poly(('field', me, 2, 'usize')))
                okr = okr and pconst(ri[0]) == 0 and peq(ri[1], poly(('field', me, 1, 'usize')))
                # the tested element is self[i][j] != 0
                okt = False
                for gl in f.guards().values():
                    for cn, v in gl:
                        if tag(cn) == 'bin' and cn[1] in ('Ne', 'Eq') and tag(cn[2]) == 'index' and cn[2][2] == j and tag(cn[2][1]) == 'call' \
                                and cn[2][1][2] == (me, i) and _c(cn[3]) == 0.0:
                            okt = True
                ok = okr and okt
        read = len(loops) == 2 and bool(ix.item_range(loops[0]['item'])) and bool(ix.item_range(loops[1]['item']))
        if not read:
            # quantifier form: (0..nrows).all(|i| (lo..hi).all(|j| self[i][j] == 0.)), the inner closure directly or through a local closure
            qf = _tri_all_form(prog, f, me)
            if qf is not None:
                read = True
                (olo, ohi), (ilo, ihi), i_, okt = qf
                if part == 'below':
                    okr = pconst(poly(ilo)) == 0 and peq(poly(ihi), poly(i_))
                else:
                    okr = peq(poly(ilo), padd(poly(i_), {(): 1})) and peq(poly(ihi), poly(('field', me, 2, 'usize')))
                okr = okr and pconst(poly(olo)) == 0 and peq(poly(ohi), poly(('field', me, 1, 'usize')))
                ok = okr and okt
        if ok:
            rep.ok('predicate', key, '%s tests self[i][j] != 0 over the strict %s part' % (name, 'lower' if part == 'below' else 'upper'))
        elif read:
            rep.viol('predicate', key, '%s does not range over the strict %s-diagonal part' % (name, part), site_of(f.body))
        else:
            rep.undecided('predicate', key, 'index set of %s not read (neither two counting loops nor nested all(..) over ranges)' % name, site_of(f.body), proof=False)
    # close_to: sign awareness
    k = 'linalg::array::vec::Vector::close_to'
    f = prog.func(k)
    key = 'predicate:%s' % k
    if f is None:
        rep.viol('predicate', key, 'function disappeared')
    else:
        rep.touch(k)
        me = ('arg', 1, f.names.get(1))
        other = ('arg', 2, f.names.get(2))
        conds = [cn for gl in f.guards().values() for cn, v in gl]
        # a sign test kept in a local closure (`let opposite_sign = |a, b| ..`) is part of the predicate: its conditions and value count
        for cb in pdb.closures_of(k):
            g_ = prog.func(cb.key)
            if g_ is None:
                continue
            rep.touch(cb.key)
            conds += [cn for gl in g_.guards().values() for cn, v in gl] + list(g_.return_values())
            fparams = [('arg', i + 1, g_.names.get(i + 1)) for i in range(1, g_.body.arg_count) if g_.body.local_ty(i + 1) in ('f64', '&f64')]
            for cn in [cn for gl in g_.guards().values() for cn, v in gl] + list(g_.return_values()):
                for z in subterms(cn):
                    if tag(z) == 'bin' and z[1] == 'Mul' and len(fparams) >= 2 and {z[2], z[3]} == set(fparams[:2]):
                        conds.append(('bin', 'Mul', ('index', me, ('const', 'usize', 0)), ('index', other, ('const', 'usize', 0)), 'f64'))
        sign_aware = False
        sign_by_product = False
        uses_reldiff = False
        for cn in conds:
            for z in subterms(cn):
                if tag(z) == 'call' and z[1] == 'approx_eq::rel_diff':
                    uses_reldiff = True
                if tag(z) == 'bin' and z[1] == 'Sub' and z[4] == 'f64' and _reads(z[2], me) and _reads(z[3], other) or \
                        tag(z) == 'bin' and z[1] == 'Sub' and z[4] == 'f64' and _reads(z[2], other) and _reads(z[3], me):
                    sign_aware = True
                if tag(z) == 'call' and (z[1].endswith('::signum') or z[1].endswith('is_sign_negative') or z[1].endswith('is_sign_positive')):
                    sign_aware = True
                if tag(z) == 'bin' and z[1] == 'Mul' and z[4] == 'f64' and ((_reads(z[2], me) and _reads(z[3], other)) or (_reads(z[2], other) and _reads(z[3], me))):
                    sign_by_product = True
        if sign_by_product and not sign_aware:
            rep.viol('predicate', key, 'close_to tells opposite signs apart by the sign of the product a*b: the product of two values below about 1.5e-162 in '
                     'magnitude underflows to -0.0, which is not < 0, so tiny values of opposite sign are equated (and a NaN element no longer forces false)', site_of(f.body))
        elif sign_aware:
            rep.ok('predicate', key, 'close_to depends on the signed difference / signs of the elements')
        elif uses_reldiff:
            rep.viol('predicate', key, 'close_to decides only through approx_eq::rel_diff(a, b), which takes |a| and |b| first (approx_eq 0.1.8 src/lib.rs): '
                     'values of opposite sign compare equal (close_to([1], [-1]) is true)', site_of(f.body))
        else:
            rep.undecided('predicate', key, 'comparison idiom not recognised')
    # Matrix::close_to delegates after a shape test
    k = M + '::close_to'
    f = prog.func(k)
    key = 'predicate:%s' % k
    if f is not None:
        rep.touch(k)
        calls = [c for c in f.calls() if c.path == 'linalg::array::vec::Vector::close_to']
        ok = len(calls) == 1 and any(tag(cn) == 'call' and 'PartialEq' in cn[1] for cn, v in f.guards().get(calls[0].bb, []))
        if ok:
            rep.ok('predicate', key, 'shape equality then element comparison')
        elif len(calls) == 1 and not f.guards().get(calls[0].bb, []) and not any(c.path and c.path in prog.pdb.bodies and c.path != calls[0].path for c in f.calls()):
            # refuted only when the delegation is unconditional: no test of any kind dominates it and no helper could hold one
            rep.viol('predicate', key, 'Matrix::close_to does not compare shapes before delegating', site_of(f.body))
        else:
            rep.undecided('predicate', key, 'Matrix::close_to: the shape test before the element comparison is not in the read form (%d delegating calls)' % len(calls),
                          site_of(f.body), proof=False)
    # exact PartialEq for Vector: |a-b| > EPSILON on the signed difference
    # is_design: every row starts with 1.  Whatever the idiom, a failing row anywhere must make the answer false: a flag that is simply
    # overwritten in every iteration reports the last row only
    k = U + 'is_design'
    f = prog.func(k)
    key = 'predicate:%s' % k
    if f is not None:
        rep.touch(k)
        rets = f.return_values()
        flag = rets[0] if len(rets) == 1 and tag(rets[0]) == 'local' else None
        loops = f.cfg.loops()
        inloop = lambda bb: any(bb in bl for bl in loops.values())
        if flag is not None:
            defs = [st for st in f.stores() if st.target == flag]
            init = [st for st in defs if not inloop(st.bb)]
            upd = [st for st in defs if inloop(st.bb)]
            overwrite = [st for st in upd if not (tag(st.value) == 'const' and st.value[2] is False) and flag not in list(subterms(st.value))]
            monotone = upd and all(tag(st.value) == 'const' and st.value[2] is False for st in upd) and \
                all(tag(st.value) == 'const' and st.value[2] is True for st in init)
            if overwrite:
                rep.viol('predicate', key, 'is_design overwrites its answer in every row (%s := %s): only the last row decides, a matrix whose earlier rows do not '
                         'start with 1 is accepted' % (show(flag), show(overwrite[0].value)[:50]), site_of(overwrite[0].span))
            elif monotone:
                # the test under which the answer becomes false reads the first entry of row i
                conds = [cn for st in upd for cn, v in f.guards().get(st.bb, []) if tag(cn) == 'bin' and len(cn) > 4 and cn[4] in ('f64', 'f32')]
                first_col = any(tag(z) == 'index' and tag(z[1]) == 'arg' for cn in conds for z in subterms(cn))
                if first_col:
                    rep.ok('predicate', key, 'answer starts true and is only ever lowered to false, under a test of a row entry')
                else:
                    rep.undecided('predicate', key, 'test that lowers the answer not read', site_of(f.body), proof=False)
            else:
                rep.undecided('predicate', key, 'flag update idiom not read', site_of(f.body), proof=False)
        else:
            # iterator forms: all(..) / !any(..) over the rows, or early returns
            vals = [prog.inline(r) for r in rets]
            if vals and all(any(tag(z) == 'call' and short(z[1]) in ('all', 'any') for z in subterms(v)) or tag(v) == 'const' for v in vals):
                rep.ok('predicate', key, 'answer is an all/any over the rows (or early returns of constants)')
            else:
                rep.undecided('predicate', key, 'predicate idiom not read', site_of(f.body), proof=False)
    rep.floor('predicate', 7, 'is_symmetric x2, triangular x2, close_to x2, is_design')
    rep.trusted.append('approx_eq 0.1.8: rel_diff(a, b) = |(|a| - |b|)| / max(|a|, |b|) is blind to the signs of its arguments')


def _reads(t, obj):
    return any(tag(z) == 'index' and (z[1] == obj or (tag(z[1]) == 'field' and z[1][1] == obj)) for z in subterms(t)) or \
        any(tag(z) == 'call' and short(z[1]) in ('index',) and z[2] and z[2][0] == obj for z in subterms(t))


# =============================================================================== D8
SHAPE_OPS = ['t', 't_mut', 'reshape', 'reshape_mut', 'hcat', 'vcat', 'hrepeat', 'vrepeat', 'get_col_as_vector', 'get_row_as_vector', 'diag',
             'to_vec', 'flatten', 'shape', 'size']


def d8_oblivious(prog, rep, only=None, rule='data-oblivious'):
    """Shape operations move elements; what they do may depend on the shapes, never on the element values.  A branch on a floating-point
    comparison or on a predicate that reads the data (is_symmetric, close_to, ...) makes the operation value dependent -- e.g. an
    "already symmetric, nothing to do" shortcut in t_mut is wrong for matrices that are symmetric only up to the predicate's tolerance."""
    pdb = prog.pdb
    # predicates that read element values: bool-valued in-crate functions with a float comparison (transitively)
    datapred = set()
    changed = True
    while changed:
        changed = False
        for k, b in pdb.bodies.items():
            if k in datapred or b.kind == 'closure' or b.local_ty(0) != 'bool':
                continue
            f = prog.func(k)
            conds = [c for gl in f.guards().values() for c, _ in gl] + list(f.return_values())
            hit = any(tag(z) == 'bin' and len(z) > 4 and z[4] in ('f64', 'f32') and z[1] in ('Lt', 'Le', 'Gt', 'Ge', 'Eq', 'Ne') for c in conds for z in subterms(c))
            hit = hit or any(c.path in datapred for c in f.calls())
            if hit:
                datapred.add(k)
                changed = True
    n = 0
    keys = [M + '::' + nm for nm in SHAPE_OPS] + [U + 'transpose', U + 'row_to_col_major', U + 'col_to_row_major']
    # constructors: the values written depend on the arguments, the control flow (which entries are written) must not
    keys += [U + 'vandermonde', U + 'diag_matrix', U + 'toeplitz', U + 'design', M + '::eye', M + '::zeros', M + '::ones']
    if only is not None:
        keys = only
    for k in keys:
        f = prog.func(k)
        if f is None:
            continue
        n += 1
        rep.touch(k)
        key = '%s:%s' % (rule, k)
        bad = []
        for gl in f.guards().values():
            for c, v in gl:
                for z in subterms(c):
                    if tag(z) == 'bin' and len(z) > 4 and z[4] in ('f64', 'f32') and z[1] in ('Lt', 'Le', 'Gt', 'Ge', 'Eq', 'Ne'):
                        bad.append('floating-point comparison %s' % show(z)[:60])
                    if tag(z) == 'call' and z[1] in datapred:
                        bad.append('data-reading predicate %s' % short(z[1]))
        if bad:
            rep.viol(rule, key, '%s branches on %s: a shape operation / constructor must do the same thing for every argument of a given shape '
                     '(a tolerant predicate is true for matrices the shortcut is wrong for)' % (short(k), sorted(set(bad))[0]), site_of(f.body))
        else:
            rep.ok(rule, key, 'control flow depends on shapes only')
    if only is None:
        rep.floor('data-oblivious', 10, 'shape operations of Matrix and the slice-level layout helpers')
