"""C09 — special functions: the structural clauses only.

The accuracy figures of the property (1e-13 for gamma, 1e-12 for beta, 1e-10 for digamma, 1.5e-7 for erf) are numerical statements about
approximations over a continuum of arguments and are NOT decided here.  What the statement also contains, and what is visible in the
shape of the code, is decided:

 D1 erf-odd          for x < 0 the function returns -erf(-x) (so erf is odd bit for bit)
 D2 erf-bounded      on x >= 0 the closed form stays inside [0, 1]: interval branch-and-bound over [0, inf) of the extracted expression
                     (with D1: |erf| <= 1 everywhere)
 D3 beta-wiring      beta(a, b) = gamma(a) * gamma(b) / gamma(a + b): three evaluations with these arguments; symmetric in (a, b) exactly
                     because IEEE * and + commute
 D4 digamma-recurrence  below the threshold digamma(x) = digamma(x + 1) - 1/x, i.e. psi(x+1) = psi(x) + 1/x holds by construction there
 D5 digamma-series   the asymptotic branch is ln x - 1/(2x) - sum_k B_2k / (2k x^2k) with the exact Bernoulli numbers, consecutive k from 1
 D6 gamma-reflection gamma(z) = pi / (sin(pi z) gamma(1 - z)) on the reflected branch (gamma and ln_gamma)
 D7 lanczos-form     the main branch is sqrt(2 pi) t^(z - 1/2) e^(-t) A(z) with one t = z - 1 + g + 1/2 (log-linear normal form), ln_gamma is the
                     logarithm of the same expression with the same t and the same series, and the series divides coefficient k by z - 1 + k
Not decided: every accuracy bound, the values of the Lanczos / Abramowitz-Stegun coefficients, Gamma(x+1) = x Gamma(x) and Gamma(n+1) = n!
to the stated accuracy."""
from fractions import Fraction
import math
from ..ir import tag, show, short, subterms, is_f64_method, f64_method_name
from ..absint import AbsEval, Iv
from ..loglin import LogLin, Unread, Inexact, show_form
from ..framework import site_of

LEVEL = 'other'
EXPLANATION = (
    'Structural clauses of the special-function property decided on MIR terms: oddness of erf by the shape of its negative branch; |erf| <= 1 by '
    'interval branch-and-bound of the extracted closed form over [0, inf); beta as three gamma evaluations (hence symmetric); the digamma '
    'recurrence step and the Bernoulli coefficients of its asymptotic series (exact rationals); the reflection formula of gamma / ln_gamma; the '
    'Lanczos main branch and ln_gamma brought to one log-linear normal form with a common t. The accuracy bounds themselves are numerical and are '
    'not decided.')

FG = 'functions::gamma::'
FS = 'functions::statistical::'
PI = math.pi


def _sites(f):
    out = []
    for d in f._defs.get(0, []):
        v = f.rvalue_term(d[3], d[1]) if d[0] == 'assign' else f.call_term(d[2], d[1])
        out.append((v, d[1], list(f.guards().get(d[1], []))))
    return out


def _is_const(t, v, tol=0.0):
    return tag(t) == 'const' and isinstance(t[2], (int, float)) and not isinstance(t[2], bool) and abs(t[2] - v) <= tol


def _comm(t):
    """canonical operand order for float Add / Mul (they commute exactly in IEEE arithmetic)"""
    from ..ir import map_term

    def f(n):
        if tag(n) == 'bin' and n[1] in ('Add', 'Mul') and repr(n[2]) > repr(n[3]):
            return ('bin', n[1], n[3], n[2], n[4])
        if tag(n) == 'call' and n[3] is not None:
            return ('call', n[1], n[2], None)
        return n
    return map_term(t, f)


def _neg_branch(gs, x):
    """do the guards say x < 0 (possibly x <= 0)?"""
    for c, v in gs:
        if tag(c) == 'bin' and c[2] == x and _is_const(c[3], 0.0):
            if (c[1] in ('Ge',) and v is False) or (c[1] in ('Lt',) and v is True):
                return True
    return False


def _bernoulli(n):
    B = [Fraction(0)] * (n + 1)
    A = [Fraction(0)] * (n + 1)
    for m in range(n + 1):
        A[m] = Fraction(1, m + 1)
        for j in range(m, 0, -1):
            A[j - 1] = j * (A[j - 1] - A[j])
        B[m] = A[0]
    return B


def run(prog, rep, tier, repo):
    pdb = prog.pdb
    # ------------------------------------------------------------------ D1 / D2 erf
    f = prog.func(FS + 'erf')
    if f is None:
        rep.viol('erf-odd', 'erf-odd', 'erf disappeared')
    else:
        rep.touch(f.body.key)
        x = ('arg', 1, f.names.get(1))
        sites = _sites(f)
        neg = [(v, gs) for v, bb, gs in sites if _neg_branch(gs, x)]
        pos = [(v, gs) for v, bb, gs in sites if not _neg_branch(gs, x)]
        want = ('un', 'Neg', ('call', FS + 'erf', (('un', 'Neg', x, 'f64'),), None), 'f64')
        key = 'erf-odd'
        if neg and all(_comm(v) == want for v, _ in neg):
            rep.ok('erf-odd', key, 'for x < 0 the value is -erf(-x)')
        elif neg and all(tag(v) == 'un' and v[1] == 'Neg' and tag(v[2]) == 'call' and v[2][1] == FS + 'erf' for v, _ in neg):
            rep.viol('erf-odd', key, 'the negative branch is %s, not -erf(-x): erf(-x) != -erf(x)' % show(neg[0][0])[:60], site_of(f.body))
        elif neg and all(tag(v) == 'call' and v[1] == FS + 'erf' for v, _ in neg):
            rep.viol('erf-odd', key, 'the negative branch returns %s without negating it: the function is even, not odd' % show(neg[0][0])[:60], site_of(f.body))
        else:
            # sign(x) * F(|x|) and similar forms are not read
            rep.undecided('erf-odd', key, 'odd extension idiom not read (%d sites under x < 0)' % len(neg), site_of(f.body), proof=False)
        key = 'erf-bounded'
        if len(pos) != 1 or any(tag(z) == 'local' for z in subterms(pos[0][0])):
            rep.undecided('erf-bounded', key, 'closed form on x >= 0 not read', site_of(f.body), proof=False)
        else:
            val = pos[0][0]
            # pieces: fine near 0 where the polynomial factor moves, coarse in the tail, one unbounded piece
            cuts = [i / 400.0 for i in range(0, 2401)] + [6.0 + i / 4.0 for i in range(1, 97)] + [math.inf]
            lo_all, hi_all = math.inf, -math.inf
            unknown = None
            for a, b in zip(cuts, cuts[1:]):
                ev = AbsEval(lambda z, a=a, b=b: Iv(a, b, False, b == math.inf) if z == x else None)
                r = ev.ev(val)
                if ev.unknown:
                    unknown = ev.unknown[:1]
                    break
                lo_all, hi_all = min(lo_all, r.iv.lo), max(hi_all, r.iv.hi)
            if unknown:
                rep.undecided('erf-bounded', key, 'closed form not evaluable in the interval domain: %s' % unknown, site_of(f.body), proof=False)
            elif hi_all <= 1.0 and lo_all >= -1.0:
                rep.ok('erf-bounded', key, 'erf([0, inf)) within [%.3g, %.12g] by interval branch-and-bound over %d pieces; with oddness |erf| <= 1' % (lo_all, hi_all, len(cuts) - 1))
            else:
                # the enclosure leaves [-1, 1]: a violation needs a point where the closed form itself does (point intervals are tight)
                wit = None
                for a, b in zip(cuts, cuts[1:]):
                    for xv in (a, (a + min(b, a + 1.0)) / 2):
                        ev = AbsEval(lambda z, xv=xv: Iv.point(xv) if z == x else None)
                        r = ev.ev(val)
                        if not ev.unknown and (r.iv.lo > 1.0 + 1e-9 or r.iv.hi < -1.0 - 1e-9):
                            wit = (xv, r.iv.lo)
                            break
                    if wit:
                        break
                if wit:
                    rep.viol('erf-bounded', key, 'erf(%g) evaluates to %.9g: the closed form leaves [-1, 1]' % wit, site_of(f.body))
                else:
                    rep.undecided('erf-bounded', key, 'interval bound [%.9g, %.12g] too loose to decide' % (lo_all, hi_all), site_of(f.body), proof=False)
    rep.floor('erf-odd', 1, 'erf')
    rep.floor('erf-bounded', 1, 'erf')

    # ------------------------------------------------------------------ D3 beta
    f = prog.func(FG + 'beta')
    key = 'beta-wiring'
    if f is None:
        rep.viol('beta-wiring', key, 'beta disappeared')
    else:
        rep.touch(f.body.key)
        a, b = ('arg', 1, f.names.get(1)), ('arg', 2, f.names.get(2))
        rets = [_comm(prog.inline(r, only=lambda p: p.startswith(FG) and not p.endswith('::gamma') and not p.endswith('::ln_gamma'))) for r in f.return_values()]

        def g(t):
            return ('call', FG + 'gamma', (t,), None)
        want = _comm(('bin', 'Div', ('bin', 'Mul', g(a), g(b), 'f64'), g(('bin', 'Add', a, b, 'f64')), 'f64'))
        gam = [z for r in rets for z in subterms(r) if tag(z) == 'call' and z[1] == FG + 'gamma']
        sites = _sites(f)
        mains = [sv for sv in sites if _comm(sv[0]) == want]
        extras = [sv for sv in sites if _comm(sv[0]) != want]
        if mains and extras:
            # shortcut return sites next to the gamma quotient: each is compared with the quotient at points where the equality tests that
            # select it hold (identity testing of the two closed forms; gamma = the true Gamma function)
            wit = None
            unread = None
            for v, bb, gs in extras:
                eqs = []
                for cn in f.control_conds(bb):
                    if tag(cn) == 'bin' and cn[1] == 'Eq' and cn[2] in (a, b) and tag(cn[3]) == 'const':
                        eqs.append((cn[2], float(cn[3][2])))
                if not eqs:
                    unread = 'return site %s is not selected by equality tests on a / b' % show(v)[:40]
                    continue
                for var, cval in eqs:
                    for other in (0.3, 0.5, 1.0, 2.5, 9.0):
                        env = {a: cval, b: other} if var == a else {a: other, b: cval}
                        try:
                            got = _num(v, env)
                            ref = math.gamma(env[a]) * math.gamma(env[b]) / math.gamma(env[a] + env[b])
                        except Exception as e_:
                            unread = 'return site %s not evaluable (%s)' % (show(v)[:40], e_)
                            break
                        if not (abs(got - ref) <= 1e-9 * max(1.0, abs(ref))):
                            wit = (show(v)[:50], env[a], env[b], got, ref)
                            break
                    if wit or unread:
                        break
                if wit:
                    break
            if wit:
                rep.viol('beta-wiring', key, 'the shortcut %s gives beta(%g, %g) = %.12g, Gamma(a)Gamma(b)/Gamma(a+b) = %.12g' % wit, site_of(f.body))
            elif unread:
                rep.undecided('beta-wiring', key, unread, site_of(f.body), proof=False)
            else:
                rep.ok('beta-wiring', key, 'gamma(a) * gamma(b) / gamma(a + b) with %d shortcut site(s) that agree with it where they apply' % len(extras))
        elif len(rets) == 1 and rets[0] == want:
            rep.ok('beta-wiring', key, 'beta(a, b) = gamma(a) * gamma(b) / gamma(a + b); symmetric in (a, b) because * and + commute exactly')
        elif len(rets) == 1 and tag(rets[0]) == 'bin' and rets[0][1] == 'Div' and len(gam) == 3:
            rep.viol('beta-wiring', key, 'beta is %s, not gamma(a) gamma(b) / gamma(a + b)' % show(rets[0])[:120], site_of(f.body))
        else:
            rep.undecided('beta-wiring', key, 'beta is not written as a quotient of three gamma evaluations (e.g. through ln_gamma): %s' % [show(r)[:60] for r in rets], site_of(f.body), proof=False)
    rep.floor('beta-wiring', 1, 'beta')

    # ------------------------------------------------------------------ D4 / D5 digamma
    f = prog.func(FG + 'digamma')
    if f is None:
        rep.viol('digamma-recurrence', 'digamma-recurrence', 'digamma disappeared')
    else:
        rep.touch(f.body.key)
        x = ('arg', 1, f.names.get(1))
        sites = _sites(f)
        rec = [(v, gs) for v, bb, gs in sites if any(tag(z) == 'call' and z[1] == FG + 'digamma' for z in subterms(v))]
        ser = [(v, gs) for v, bb, gs in sites if not any(tag(z) == 'call' and z[1] == FG + 'digamma' for z in subterms(v))]
        key = 'digamma-recurrence'
        want = ('bin', 'Sub', ('call', FG + 'digamma', (('bin', 'Add', x, ('const', 'f64', 1.0), 'f64'),), None),
                ('bin', 'Div', ('const', 'f64', 1.0), x, 'f64'), 'f64')
        if not rec:
            rep.undecided('digamma-recurrence', key, 'no recursive shift found (recurrence written as a loop, or absent)', site_of(f.body), proof=False)
        elif all(_comm(v) == _comm(want) for v, _ in rec):
            lim = [c for v, gs in rec for c, vv in gs if tag(c) == 'bin' and c[1] in ('Lt', 'Le') and c[2] == x and vv is True]
            rep.ok('digamma-recurrence', key, 'digamma(x) = digamma(x + 1) - 1/x below %s: psi(x+1) = psi(x) + 1/x holds by construction there' % (
                show(lim[0][3]) if lim else 'the threshold'))
        elif all(tag(v) == 'bin' and v[1] in ('Sub', 'Add') for v, _ in rec):
            rep.viol('digamma-recurrence', key, 'the shift step is %s; the recurrence psi(x) = psi(x + 1) - 1/x requires digamma(x + 1) - 1/x' % show(rec[0][0])[:80], site_of(f.body))
        else:
            rep.undecided('digamma-recurrence', key, 'shift step %s not read' % show(rec[0][0])[:80], site_of(f.body), proof=False)
        key = 'digamma-series'
        if len(ser) != 1:
            rep.undecided('digamma-series', key, '%d non-recursive return sites' % len(ser), site_of(f.body), proof=False)
        else:
            terms, unread = _series_terms(ser[0][0], x)
            if unread:
                rep.undecided('digamma-series', key, 'asymptotic series not read: %s' % unread, site_of(f.body), proof=False)
            else:
                B = _bernoulli(40)
                problems = []
                if terms.get('ln') != Fraction(1):
                    problems.append('the leading term is %s ln x' % terms.get('ln'))
                if terms.get(1) != Fraction(-1, 2):
                    problems.append('the 1/x term has coefficient %s, expected -1/2' % terms.get(1))
                ks = sorted(p for p in terms if isinstance(p, int) and p >= 2)
                if ks != list(range(2, 2 * len(ks) + 1, 2)):
                    problems.append('the powers present are %s, not consecutive even powers from 2' % ks)
                for p_ in ks:
                    wantc = -B[p_] / p_
                    if terms[p_] != wantc:
                        problems.append('the coefficient of x^-%d is %s, the Bernoulli term -B_%d/%d is %s' % (p_, terms[p_], p_, p_, wantc))
                if problems:
                    rep.viol('digamma-series', key, '; '.join(problems[:3]), site_of(f.body))
                else:
                    rep.ok('digamma-series', key, 'ln x - 1/(2x) - sum B_2k/(2k x^2k) for k = 1..%d with exact Bernoulli numbers' % len(ks))
    rep.floor('digamma-recurrence', 1, 'digamma')
    rep.floor('digamma-series', 1, 'digamma')

    # ------------------------------------------------------------------ D6 / D7 gamma, ln_gamma
    forms = {}
    for name in ('gamma', 'ln_gamma'):
        f = prog.func(FG + name)
        key = 'gamma-reflection:%s' % name
        if f is None:
            if name == 'gamma':
                rep.viol('gamma-reflection', key, 'gamma disappeared')
            continue
        rep.touch(f.body.key)
        z = ('arg', 1, f.names.get(1))
        sites = _sites(f)
        refl = [(v, gs) for v, bb, gs in sites if any(tag(q) == 'call' and q[1] == FG + 'gamma' for q in subterms(v))]
        main = [(v, gs) for v, bb, gs in sites if not any(tag(q) == 'call' and q[1] in (FG + 'gamma', FG + 'ln_gamma') for q in subterms(v))]
        pi_ = ('const', 'f64', PI)
        core = ('bin', 'Div', pi_, ('bin', 'Mul', ('call', 'std::f64::<impl f64>::sin', (('bin', 'Mul', pi_, z, 'f64'),), None),
                                    ('call', FG + 'gamma', (('bin', 'Sub', ('const', 'f64', 1.0), z, 'f64'),), None), 'f64'), 'f64')
        want = core if name == 'gamma' else ('call', 'std::f64::<impl f64>::ln', (core,), None)
        if not refl:
            rep.undecided('gamma-reflection', key, 'no reflected branch found in %s' % name, site_of(f.body), proof=False)
        elif all(_comm(v) == _comm(want) for v, _ in refl):
            rep.ok('gamma-reflection', key, '%s(z) = %spi / (sin(pi z) gamma(1 - z)) on the reflected branch' % (name, 'ln ' if name == 'ln_gamma' else ''))
        elif all(any(tag(q) == 'call' and is_f64_method(q[1]) and f64_method_name(q[1]) == 'sin' for q in subterms(v)) for v, _ in refl):
            rep.viol('gamma-reflection', key, 'the reflected branch is %s, Euler\'s reflection formula is pi / (sin(pi z) gamma(1 - z))' % show(refl[0][0])[:100], site_of(f.body))
        else:
            rep.undecided('gamma-reflection', key, 'reflected branch %s not read' % show(refl[0][0])[:80], site_of(f.body), proof=False)
        # main branch in log-linear normal form
        if len(main) == 1:
            forms[name] = (f, z, main[0][0])
    rep.floor('gamma-reflection', 1, 'gamma (and ln_gamma when present)')

    # ---- every branch that reduces the argument by a call of gamma / ln_gamma itself (reflection, a recurrence step for large arguments) is an
    # identity of the true function: with the inner call read as the true Gamma / ln Gamma, the branch's expression equals Gamma(z) / ln Gamma(z)
    # at exact witnesses that satisfy the branch's own conditions.  (z - 2)*gamma(z - 2) is not Gamma(z).
    from ..precond import tev, guard_value, Frame, Uneval
    from ..structs import canon_guard

    def lg(x):
        try:
            return math.lgamma(x)
        except (ValueError, OverflowError):
            return float('nan')

    def tg(x):
        try:
            return math.gamma(x)
        except (ValueError, OverflowError):
            return float('inf') if x > 0 else float('nan')
    truth = {FG + 'gamma': tg, FG + 'ln_gamma': lg}
    nself = 0
    for name in ('gamma', 'ln_gamma'):
        f = prog.func(FG + name)
        if f is None:
            continue
        for v, bb, gs in _sites(f):
            v = prog.inline(v, depth=2)          # a reduction kept in a straight-line helper (`reflected_gamma(z)`) is read through
            if not any(tag(q) == 'call' and q[1] in truth for q in subterms(v)):
                continue
            nself += 1
            key = 'self-call-identity:%s:bb%d' % (name, [b_ for _, b_, _ in _sites(f)].index(bb))
            bad, used = None, 0
            for zv in (-2.5, -0.75, 0.25, 0.4, 0.7, 1.5, 2.5, 5.0, 20.5, 50.5, 101.5, 120.25, 150.0, 165.5, 171.0):
                env = {('arg', 1, None): zv, '__fn__': truth}
                ctx = Frame(f, env=env)
                if any(guard_value(canon_guard(c_, v_), ctx) is not True for c_, v_ in f.guards().get(bb, [])):
                    continue
                try:
                    got = tev(v, ctx)
                except Uneval:
                    continue
                want = truth[FG + name](zv)
                if not isinstance(got, float) or got != got or want != want or math.isinf(want):
                    continue
                used += 1
                if abs(got - want) > 1e-9 * max(1.0, abs(want)):
                    bad = (zv, got, want)
                    break
            if bad:
                rep.viol('self-call-identity', key, '%s(%r) takes the branch %s, which is %.12g when the inner call is exact; the true value is %.12g: the reduction is not an '
                         'identity of the function' % (name, bad[0], show(v)[:90], bad[1], bad[2]), site_of(f.body))
            elif used:
                rep.ok('self-call-identity', key, '%s agrees with the true function at %d witnesses of its branch' % (show(v)[:60], used))
            else:
                rep.undecided('self-call-identity', key, 'no witness satisfies the conditions of the branch %s' % show(v)[:60], site_of(f.body), proof=False)
    if nself == 0:
        rep.undecided('self-call-identity', 'self-call-identity:none', 'no branch of gamma / ln_gamma that calls the function itself was found', proof=False)
    rep.floor('self-call-identity', 1, 'reflection branch of gamma')

    # ---- loop-free branches against the stated accuracy.  A return site whose expression is a closed form over the argument (no loop-carried
    # value) is evaluated in IEEE arithmetic at exact witnesses of its own conditions, inner calls of the special functions read as the true
    # functions, and compared with the true value; an error above a multiple of the stated figure (10x for the relative 1e-13 / 1e-10 of
    # gamma / digamma, 2x for the absolute 1.5e-7 of erf -- far above what the evaluation itself can contribute) is a violation with its
    # witness.  Branches that sum a series in a loop (the Lanczos sums) are not evaluated: their accuracy is NOT decided.
    def true_digamma(x):
        acc = 0.0
        while x < 20.0:
            acc -= 1.0 / x
            x += 1.0
        x2 = 1.0 / (x * x)
        return acc + math.log(x) - 0.5 / x - x2 * (1.0 / 12 - x2 * (1.0 / 120 - x2 * (1.0 / 252 - x2 * (1.0 / 240 - x2 * (1.0 / 132)))))
    FS_ = 'functions::statistical::'
    truth2 = dict(truth)
    truth2[FG + 'digamma'] = true_digamma
    truth2[FS_ + 'erf'] = math.erf
    specs = [
        (FG + 'gamma', tg, (0.7, 1.5, 3.3, 7.25, 10.1, 30.7, 50.0, 60.5, 100.2, 120.25, 150.9, 170.3, -0.5, -2.3), lambda got, want: abs(got - want) / abs(want), 1e-12, 'relative error', '1e-13'),
        (FG + 'digamma', true_digamma, (0.001, 0.3, 1.0, 2.5, 5.9, 6.0, 7.5, 12.0, 50.0, 1e3, 1e6), lambda got, want: abs(got - want) / max(1.0, abs(want)), 1e-9, 'error relative to max(1, |psi|)', '1e-10'),
        (FS_ + 'erf', math.erf, (0.0, 1e-4, 0.001, 0.005, 0.0099, 0.05, 0.3, 0.9, 1.7, 2.9, 4.5, 6.0, 40.0, -0.0099, -0.7, -3.1), lambda got, want: abs(got - want), 3e-7, 'absolute error', '1.5e-7'),
    ]
    for fk, true_fn, zs, errf, limit, what, stated in specs:
        f = prog.func(fk)
        if f is None:
            continue
        rep.touch(fk)
        for si, (v, bb, gs) in enumerate(_sites(f)):
            v = prog.inline(v, depth=2)
            key = 'branch-accuracy:%s:site%d' % (short(fk), si)
            worst, used, uneval = None, 0, None
            for zv in zs:
                env = {('arg', 1, None): zv, '__fn__': truth2}
                ctx = Frame(f, env=env)
                if any(guard_value(canon_guard(c_, v_), ctx) is not True for c_, v_ in gs if tag(c_) != 'discr'):
                    continue
                try:
                    got = tev(v, ctx)
                except Uneval as ex:
                    uneval = str(ex)
                    continue
                want = true_fn(zv)
                if not isinstance(got, float) or want != want or math.isinf(want) or want == 0.0 and errf is specs[0][3]:
                    continue
                used += 1
                e_ = errf(got, want) if got == got else float('inf')
                if worst is None or e_ > worst[0]:
                    worst = (e_, zv, got, want)
            if worst is not None and worst[0] > limit:
                rep.viol('branch-accuracy', key, '%s(%r) takes the branch %s = %.17g; the true value is %.17g: %s %.3g, the property allows %s' % (
                    short(fk), worst[1], show(v)[:70], worst[2], worst[3], what, worst[0], stated), site_of(f.body))
            elif used:
                rep.ok('branch-accuracy', key, 'closed-form branch within %s %.1e of the true function at %d witnesses (worst %.2e)' % (what, limit, used, worst[0]))
            else:
                rep.undecided('branch-accuracy', key, 'branch %s not evaluated (%s): its accuracy is not decided' % (show(v)[:50], uneval or 'no witness meets its conditions'),
                              site_of(f.body), proof=False)
    rep.floor('branch-accuracy', 3, 'at least one return site each of gamma, digamma, erf')

    key = 'lanczos-form'
    if 'gamma' not in forms:
        rep.undecided('lanczos-form', key, 'main branch of gamma not read as one return site', proof=False)
    else:
        results = {}
        tterms = {}
        problems, unread = [], []
        for name, (f, z, val) in forms.items():
            # t: the base of the power / the argument of the logarithm that is multiplied by an expression in z
            cands = [q[2][0] for q in subterms(val) if tag(q) == 'call' and is_f64_method(q[1]) and f64_method_name(q[1]) in ('powf',)]
            if name == 'ln_gamma':
                cands = [q[3][2][0] if tag(q[3]) == 'call' else None for q in subterms(val)
                         if tag(q) == 'bin' and q[1] == 'Mul' and tag(q[3]) == 'call' and is_f64_method(q[3][1]) and f64_method_name(q[3][1]) == 'ln'
                         and z in list(subterms(q[2]))]
            cands = [c for c in cands if c is not None]
            if len(set(cands)) != 1:
                unread.append('%s: the shifted argument t is not identified' % name)
                continue
            T = cands[0]
            tterms[name] = T
            series = [q for q in subterms(val) if tag(q) == 'local']

            def atom(t, T=T, z=z):
                if t == T:
                    return 'T'
                if t == z:
                    return 'z'
                if tag(t) == 'local' and f.body.local_ty(t[1]) in ('f64',):
                    return 'S'
                return None
            ll = LogLin(atom)
            try:
                results[name] = ll.log(val) if name == 'gamma' else ll.lin(val)
            except (Unread, Inexact) as e:
                unread.append('%s: %s' % (name, e))
                continue
            # t = z - 1 + g + 1/2 - 1 ... as a linear form in z: coefficient of z must be 1
            try:
                tl = LogLin(lambda t, z=z: 'z' if t == z else None).lin(T)
                if tl.get(('z',)) != 1:
                    problems.append('%s: t = %s does not grow like z' % (name, show(T)[:40]))
                results[name + ':t'] = tl
            except (Unread, Inexact) as e:
                unread.append('%s: t = %s not linear in z (%s)' % (name, show(T)[:40], e))
        want = {('ln2',): Fraction(1, 2), ('lnpi',): Fraction(1, 2), ('lnT', 'z'): Fraction(1), ('lnT',): Fraction(-1, 2), ('T',): Fraction(-1), ('lnS',): Fraction(1)}
        for name in forms:
            if name in results and results[name] != want:
                problems.append('ln %s = %s, Lanczos\' formula is %s' % (name if name == 'gamma' else 'exp(ln_gamma)', show_form(results[name]), show_form(want)))
        if 'gamma:t' in results and 'ln_gamma:t' in results and results['gamma:t'] != results['ln_gamma:t']:
            problems.append('gamma uses t = %s but ln_gamma uses t = %s' % (show_form(results['gamma:t']), show_form(results['ln_gamma:t'])))
        if problems:
            rep.viol('lanczos-form', key, '; '.join(problems[:3]), site_of(forms['gamma'][0].body))
        elif unread:
            rep.undecided('lanczos-form', key, '; '.join(unread[:2]), site_of(forms['gamma'][0].body), proof=False)
        else:
            rep.ok('lanczos-form', key, 'ln gamma = %s with t = %s%s' % (show_form(want), show_form(results.get('gamma:t', {})),
                                                                       '; ln_gamma is the same form with the same t' if 'ln_gamma' in results else ''))
    rep.floor('lanczos-form', 1, 'gamma main branch')

    # series: coefficient k is divided by z - 1 + k
    for name in ('gamma', 'ln_gamma'):
        f = prog.func(FG + name)
        if f is None:
            continue
        key = 'lanczos-series:%s' % name
        z = ('arg', 1, f.names.get(1))
        upd = [s for s in f.stores() if tag(s.target) == 'local' and s.target in list(subterms(s.value)) and f.body.local_ty(s.target[1]) == 'f64']
        if len(upd) != 1:
            rep.undecided('lanczos-series', key, 'series accumulation not read (%d self-updates)' % len(upd), site_of(f.body), proof=False)
            continue
        v = upd[0].value
        ok = False
        why = show(v)[:100]
        if tag(v) == 'bin' and v[1] == 'Add':
            for acc, term in ((v[2], v[3]), (v[3], v[2])):
                if acc == upd[0].target and tag(term) == 'bin' and term[1] == 'Div':
                    den = term[3]
                    try:
                        dl = LogLin(lambda t, z=z: 'z' if t == z else ('k' if tag(t) == 'field' and tag(t[1]) == 'item' and t[2] == 0 else None)).lin(den)
                        coef_is_item = tag(term[2]) in ('field', 'deref') or any(tag(q) == 'item' for q in subterms(term[2]))
                        ok = dl == {('z',): Fraction(1), ('k',): Fraction(1)} and coef_is_item
                        why = 'denominator %s' % show_form(dl)
                    except (Unread, Inexact) as e:
                        why = str(e)
        if ok:
            rep.ok('lanczos-series', key, 'x += c_k / (z - 1 + (k + 1)) over the coefficient table (k from 0)')
        elif why.startswith('denominator'):
            rep.viol('lanczos-series', key, 'the k-th coefficient is divided by %s, Lanczos\' series divides c_k by z - 1 + k (k from 1)' % why[12:], site_of(f.body))
        else:
            rep.undecided('lanczos-series', key, 'series term not read: %s' % why, site_of(f.body), proof=False)
    rep.floor('lanczos-series', 1, 'gamma')
    return {}


def _num(t, env):
    """numeric value of a scalar term over the given leaf values (closed forms only; gamma is the true Gamma function)"""
    if t in env:
        return env[t]
    k = tag(t)
    if k == 'const':
        return float(t[2])
    if k == 'un' and t[1] == 'Neg':
        return -_num(t[2], env)
    if k == 'cast':
        return float(_num(t[2], env))
    if k == 'bin':
        x_, y_ = _num(t[2], env), _num(t[3], env)
        return {'Add': x_ + y_, 'Sub': x_ - y_, 'Mul': x_ * y_, 'Div': x_ / y_ if y_ != 0 else math.inf}[t[1]]
    if k == 'call' and is_f64_method(t[1]):
        n = f64_method_name(t[1])
        xs = [_num(z, env) for z in t[2]]
        if n in ('max', 'min'):
            return max(xs) if n == 'max' else min(xs)
        if n in ('sqrt', 'exp', 'sin', 'cos'):
            return getattr(math, n)(xs[0])
        if n == 'ln':
            return math.log(xs[0])
        if n == 'abs':
            return abs(xs[0])
        if n == 'recip':
            return 1.0 / xs[0]
        if n in ('powi', 'powf'):
            return math.pow(xs[0], xs[1])
    if k == 'call' and t[1] == FG + 'gamma':
        return math.gamma(_num(t[2][0], env))
    if k == 'call' and t[1] == FG + 'ln_gamma':
        return math.lgamma(_num(t[2][0], env))
    raise ValueError('term %s' % show(t)[:40])


def _series_terms(t, x):
    """additive terms of the asymptotic branch: {'ln': c, 1: c1, 2k: c_2k} as exact Fractions, and a reason when a term is not read"""
    terms = {}
    unread = []

    def frac(c):
        return Fraction(c).limit_denominator(10 ** 12)

    def add(key, c):
        terms[key] = terms.get(key, Fraction(0)) + c

    def power(d):
        # d = k * x^p  or  x^p  or k * x  or x
        if d == x:
            return Fraction(1), 1
        if tag(d) == 'call' and is_f64_method(d[1]) and f64_method_name(d[1]) == 'powi' and d[2][0] == x and tag(d[2][1]) == 'const':
            return Fraction(1), int(d[2][1][2])
        if tag(d) == 'bin' and d[1] == 'Mul':
            for a, b in ((d[2], d[3]), (d[3], d[2])):
                if tag(a) == 'const' and isinstance(a[2], (int, float)):
                    r = power(b)
                    if r is not None:
                        return r[0] * frac(a[2]), r[1]
        return None

    def walk(n, sign):
        if tag(n) == 'bin' and n[1] in ('Add', 'Sub'):
            walk(n[2], sign)
            walk(n[3], sign if n[1] == 'Add' else -sign)
            return
        if tag(n) == 'call' and is_f64_method(n[1]) and f64_method_name(n[1]) == 'ln' and n[2][0] == x:
            add('ln', Fraction(sign))
            return
        if tag(n) == 'bin' and n[1] == 'Div' and tag(n[2]) == 'const' and isinstance(n[2][2], (int, float)):
            r = power(n[3])
            if r is not None and r[0] != 0:
                add(r[1], sign * frac(n[2][2]) / r[0])
                return
        unread.append(show(n)[:50])
    walk(t, 1)
    return terms, (unread[0] if unread else None)
