"""C17 — statistical transforms and combinatorics satisfy their defining identities.

D1 guard-use: the Box-Cox transforms reject exactly through a positivity test of the value whose logarithm/power they
   take (the domain is `x + shift > 0`); logit's ln is dominated by the [0,1] range test.
D2 softmax stability: every exp argument is (element - maximum of the input).
D3 logistic has values in [0,1] and is non-decreasing (interval/monotonicity evaluation of its closed form).
D4 softmax normalisation: each output is e_i / sum(e) with the same exponential expression in numerator and sum.
D5 binomial coefficient: multiplicative recurrence C(n,i) = C(n,i-1)*(n-i+1)/i over i in 1..=min(k,n-k), evaluated so that the
   running coefficient is divided before it is multiplied (no 64-bit product of the bare accumulator: C(n,i)*i may exceed 2^64
   although C(n,k) fits), split form q*m + r*m/i with one common m = n-i+1.
Not decided: logistic(-x) = 1 - logistic(x) to rounding."""
from ..ir import tag, show, short, subterms, is_f64_method, f64_method_name
from ..elem import ElemEngine, show_expr, has_top, top_reasons
from ..structs import canon_guard, show_guard
from ..absint import AbsEval, Iv, TOPIV
from ..framework import site_of

LEVEL = 'other'
EXPLANATION = (
    'Guard analysis on MIR: for each partial operation (ln, powf with a runtime exponent) of the Box-Cox transforms the dominating '
    'panic guard must compare that very argument with zero, and no other input-dependent rejection may exist (so the function is defined '
    'exactly on x + shift > 0); logit\'s ln is dominated by the [0,1] range test. softmax is evaluated under the element abstraction: every '
    'exp argument must be element minus the input maximum and each output must be exp_i / sum(exp) with one common expression. logistic\'s '
    'closed form is evaluated in an interval+monotonicity domain: range [0,1], non-decreasing. Binomial-coefficient exactness is not decided.')

FS = 'functions::statistical::'
S = frozenset([('sym', 'SELF')])


def partial_ops(f):
    """(bb, op name, argument term, call term) for ln / sqrt / powf-with-runtime-exponent calls"""
    out = []
    for c in f.calls():
        if c.path and is_f64_method(c.path):
            n = f64_method_name(c.path)
            if n in ('ln', 'sqrt', 'ln_1p', 'log10', 'log2'):
                out.append((c.bb, n, c.args[0], c))
            elif n == 'powf' and tag(c.args[1]) != 'const':
                out.append((c.bb, n, c.args[0], c))
    return out


def panic_guards(f):
    """canonical guards whose failing side only reaches a panic: list of (guard that holds on the surviving side)"""
    cfg = f.cfg
    out = []
    for s, d, c, v in f.edge_conditions():
        if not isinstance(v, bool):
            continue
        if cfg.only_panics_from(d) and f.body.blocks[s].term.kind == 'switch':
            # the *other* side survives
            out.append(canon_guard(c, not v))
    # de-duplicate
    seen = []
    for g in out:
        if g not in seen:
            seen.append(g)
    return seen


def _eqnorm(g):
    """float a != b is exactly !(a == b): (Ne, v) is (Eq, not v)"""
    if g[0] == 'cmp' and g[1] == 'Ne':
        return ('cmp', 'Eq', g[2], g[3], not g[4], g[5])
    return g


def _flat_view(prog, f, depth=0):
    """partial operations, return sites and rejecting guards of `f`, with in-crate helpers whose value it returns read through:
    dict(ops=[(name, argument, guards)], rets=[(value, guards)], pguards=[guard], bodies=[keys], opaque=reason|None); all terms and
    guards are in the frame of `f` (helper parameters replaced by the argument terms), guards are canonical."""
    from ..structs import subst
    ops = [(n, a, [canon_guard(c, v) for c, v in f.guards().get(bb, [])]) for bb, n, a, _ in partial_ops(f)]
    pg = list(panic_guards(f))
    rets = []
    bodies = []
    opaque = None
    for d in f._defs.get(0, []):
        v = f.rvalue_term(d[3], d[1]) if d[0] == 'assign' else f.call_term(d[2], d[1])
        gs = [canon_guard(c, v_) for c, v_ in f.guards().get(d[1], [])]
        if tag(v) == 'call' and v[1] in prog.pdb.bodies and depth < 2:
            h = prog.func(v[1])
            params = {('arg', i + 1, h.names.get(i + 1)): a for i, a in enumerate(v[2])}
            hv = _flat_view(prog, h, depth + 1)
            bodies += [v[1]] + hv['bodies']

            def tr(g):
                if g[0] == 'cmp':
                    return canon_guard(('bin', g[1], subst(g[2], params), subst(g[3], params), g[5]), g[4])
                return ('cond', subst(g[1], params), g[2])
            for n, a, hg in hv['ops']:
                ops.append((n, subst(a, params), gs + [tr(g) for g in hg]))
            for rt, hg in hv['rets']:
                rets.append((subst(rt, params), gs + [tr(g) for g in hg]))
            pg += [tr(g) for g in hv['pguards']]
            opaque = opaque or hv['opaque']
        else:
            if any(tag(z) == 'local' for z in subterms(v)):
                opaque = 'return value %s depends on a multi-definition local' % show(v)[:50]
            rets.append((v, gs))
    seen = []
    for g in pg:
        if g not in seen:
            seen.append(g)
    return {'ops': ops, 'rets': rets, 'pguards': seen, 'bodies': bodies, 'opaque': opaque}


def run(prog, rep, tier, repo):
    pdb = prog.pdb
    # ------------------------------------------------------------------ D1 box-cox
    for name in ('boxcox', 'boxcox_shifted'):
        k = FS + name
        f = prog.func(k)
        key = 'guard-use:%s' % k
        key2 = 'boxcox-formula:%s' % k
        if f is None:
            rep.viol('guard-use', key, 'function disappeared')
            continue
        rep.touch(k)
        # the function with straight-line in-crate helpers it delegates to read through (everything in the frame of `f`)
        view = _flat_view(prog, f)
        for hk in view['bodies']:
            rep.touch(hk)
        ops = view['ops']
        bases = {a for _, a, _ in ops}
        if len(ops) < 2 or len(bases) != 1:
            why = 'expected ln and powf of one common argument, found %s' % [(n, show(a)) for n, a, _ in ops]
            rep.undecided('guard-use', key, why, site_of(f.body))
            rep.undecided('boxcox-formula', key2, why, site_of(f.body), proof=False)
            continue
        base = next(iter(bases))
        zero = ('const', 'f64', 0.0)
        want = ('cmp', 'Lt', zero, base, True, 'f64')
        pg = view['pguards']
        other = [g for g in pg if g != want]
        dominated = all(want in gs for _, _, gs in ops)
        if dominated and not other:
            rep.ok('guard-use', key, '%s: ln/powf of %s are dominated by assert(%s) and nothing else rejects inputs' % (name, show(base), show_guard(want)))
            rep.sample('%s: domain value %s, guard %s' % (k, show(base), show_guard(want)))
        elif not dominated:
            rep.viol('guard-use', key, '%s takes ln/powf of %s but the dominating rejection tests {%s}, not %s > 0: inputs with %s <= 0 yield NaN and '
                     'valid inputs can be rejected' % (name, show(base), '; '.join(show_guard(g) for g in pg) or 'nothing', show(base), show(base)), site_of(f.body))
        else:
            rep.viol('guard-use', key, '%s additionally rejects inputs through {%s}, which is not the domain test %s > 0' % (
                name, '; '.join(show_guard(g) for g in other), show(base)), site_of(f.body))
        # value wiring: lambda == 0 -> ln(base); else (base^lambda - 1)/lambda
        lam = [a for a in (('arg', i + 1, n) for i, n in enumerate(f.body.arg_names())) if a[2] == 'lambda']
        rets = view['rets']
        if not lam or view['opaque']:
            rep.undecided('boxcox-formula', key2, 'return sites not read (%s)' % (view['opaque'] or 'no parameter named lambda'), site_of(f.body), proof=False)
            continue
        l = lam[0]
        ln_form = ('call', 'std::f64::<impl f64>::ln', (base,), None)
        pw = ('bin', 'Div', ('bin', 'Sub', ('call', 'std::f64::<impl f64>::powf', (base, l), None), ('const', 'f64', 1.0), 'f64'), l, 'f64')
        is0 = ('cmp', 'Eq', *sorted([l, zero], key=repr), True, 'f64')
        not0 = is0[:4] + (False, 'f64')
        problems = []
        for rt, gs in rets:
            gs = [_eqnorm(g) for g in gs]
            if rt == ln_form:
                if is0 not in gs:
                    problems.append('ln(%s) is returned without lambda == 0 being established' % show(base))
            elif rt == pw:
                if not0 not in gs:
                    problems.append('the power form is returned without lambda != 0 being established')
            else:
                problems.append('returned form %s is neither ln(v) nor (v^lambda - 1)/lambda' % show(rt)[:80])
        if not any(rt == ln_form for rt, _ in rets):
            problems.append('no return site yields ln(%s)' % show(base))
        if not any(rt == pw for rt, _ in rets):
            problems.append('no return site yields the power form')
        if not problems:
            rep.ok('boxcox-formula', key2, 'ln(v) at lambda == 0, (v^lambda - 1)/lambda otherwise, v = %s' % show(base))
        else:
            rep.viol('boxcox-formula', key2, '; '.join(problems), site_of(f.body))
    rep.floor('guard-use', 3, 'boxcox, boxcox_shifted, logit')
    rep.floor('boxcox-formula', 2, 'boxcox, boxcox_shifted')

    # logit
    k = FS + 'logit'
    f = prog.func(k)
    key = 'guard-use:%s' % k
    if f is None:
        rep.viol('guard-use', key, 'function disappeared')
    else:
        rep.touch(k)
        p = ('arg', 1, f.names.get(1))
        ops = partial_ops(f)
        want_arg = ('bin', 'Div', p, ('bin', 'Sub', ('const', 'f64', 1.0), p, 'f64'), 'f64')
        # interval of p at the ln site from the dominating tests (range.contains, comparisons with literals, boolean flags that are
        # only set to true under such tests): must be exactly [0, 1]
        import struct

        def facts_at(bb, depth=0):
            out = []
            for c, v in f.guards().get(bb, []):
                out.append((c, v))
                if tag(c) == 'local' and v is True and f.body.local_ty(c[1]) == 'bool' and depth < 3:
                    sets = [st for st in f.stores() if st.target == c and not (tag(st.value) == 'const' and st.value[2] is False)]
                    if len(sets) == 1:
                        if tag(sets[0].value) == 'const' and sets[0].value[2] is True:
                            out += facts_at(sets[0].bb, depth + 1)
                        else:
                            out.append((sets[0].value, True))
                            out += facts_at(sets[0].bb, depth + 1)
            return out
        verdict = None
        detail = ''
        lns = [o for o in ops if o[1] == 'ln']
        if len(lns) == 1 and lns[0][2] == want_arg:
            lo, hi = float('-inf'), float('inf')
            for c, v in facts_at(lns[0][0]):
                if v is True and tag(c) == 'call' and c[1] == 'std::ops::RangeInclusive::<Idx>::contains' and c[2][1] == p:
                    rng = c[2][0]
                    if tag(rng) == 'constx' and isinstance(rng[2], str) and rng[2].startswith('bytes:'):
                        a_, b_ = struct.unpack('<dd', bytes.fromhex(rng[2][6:])[:16])
                        lo, hi = max(lo, a_), min(hi, b_)
                if tag(c) == 'bin' and c[1] in ('Lt', 'Le', 'Gt', 'Ge') and isinstance(v, bool) and p in (c[2], c[3]):
                    other = c[3] if c[2] == p else c[2]
                    if tag(other) == 'const' and isinstance(other[2], float):
                        op = c[1] if c[2] == p else {'Lt': 'Gt', 'Le': 'Ge', 'Gt': 'Lt', 'Ge': 'Le'}[c[1]]     # p op const
                        if not v:
                            op = {'Lt': 'Ge', 'Le': 'Gt', 'Gt': 'Le', 'Ge': 'Lt'}[op]
                        if op in ('Ge', 'Gt'):
                            lo = max(lo, other[2])
                        else:
                            hi = min(hi, other[2])
            if (lo, hi) == (0.0, 1.0):
                verdict = True
            elif lo == float('-inf') and hi == float('inf'):
                verdict = None
                detail = 'no range test on p recognised before ln'
            else:
                verdict = False
                detail = 'logit takes ln(p/(1-p)) for p in [%r, %r]; its domain is [0, 1]' % (lo, hi)
        elif lns:
            detail = 'logit is not ln(p / (1 - p)): %s' % [(n, show(a)) for _, n, a, _ in ops]
            verdict = None if not (len(lns) == 1) else False
        else:
            detail = 'no ln found'
        if verdict is True:
            rep.ok('guard-use', key, 'ln(p/(1-p)) is reached only for p in [0, 1]')
        elif verdict is False:
            rep.viol('guard-use', key, detail, site_of(f.body))
        else:
            rep.undecided('guard-use', key, detail, site_of(f.body), proof=False)

    # logit rejects what lies outside [0, 1] -- decided on witnesses through helpers and shadowed copies of the argument: a range test
    # applied to a clipped copy lets every argument through
    from ..precond import check_rejects, check_returns, NC
    ncx_ = NC(prog)
    check_rejects(prog, rep, 'rejects', FS + 'logit', [{'p': -2.5}, {'p': -1.0}, {'p': 3.0}, {'p': 1.0000000000000002}, {'p': -5e-324}, {'p': 1e300}],
                  'but the logit must reject arguments outside [0, 1]', ncx=ncx_)
    rep.floor('rejects', 1, 'logit')

    def dom_(env, at):
        by = {at[n][1][2]: v for n, v in env.items() if tag(at[n][1]) == 'arg'}
        if 'p' in by:
            return 0. <= by['p'] <= 1.
        if 'x' in by:
            return by['x'] + by.get('alpha', 0.) > 0.      # Box-Cox: x + shift > 0
        return True
    check_returns(prog, rep, 'total', [FS + n_ for n_ in ('logit', 'logistic', 'boxcox', 'boxcox_shifted') if FS + n_ in prog.pdb.bodies], domain=dom_, ncx=ncx_,
                  what='inside its stated domain')
    rep.floor('total', 4, 'logit, logistic, boxcox, boxcox_shifted')

    # ------------------------------------------------------------------ D2 / D4 softmax
    eng = ElemEngine(prog)
    k = FS + 'softmax'
    if k not in pdb.bodies:
        rep.viol('max-shift', 'max-shift:%s' % k, 'softmax disappeared')
    else:
        rep.touch(k)
        ret, eff = eng.result_of(k, {1: S})
        key = 'max-shift:%s' % k
        key2 = 'normalised:%s' % k
        if has_top(ret):
            rep.undecided('max-shift', key, 'cannot evaluate softmax: %s' % sorted(top_reasons(ret)))
            rep.undecided('normalised', key2, 'cannot evaluate softmax')
        else:
            exps = [e for r in ret for e in _subexprs(r) if e[0] == 'm' and e[1] == 'exp']
            bad = [e for e in exps if not _is_shifted(e[2])]
            if not exps:
                rep.viol('max-shift', key, 'no exponential in %s' % show_expr(ret), site_of(pdb.bodies[k]))
            elif bad:
                rep.viol('max-shift', key, 'softmax exponentiates %s directly: for entries above ~709 exp overflows and the result is inf/inf = NaN; '
                         'the argument must be (element - max(x))' % show_expr(bad[0][2]), site_of(pdb.bodies[k]))
            elif any(_finite_seed(e[2][3]) is not None for e in exps):
                c_ = [_finite_seed(e[2][3]) for e in exps if _finite_seed(e[2][3]) is not None][0]
                rep.viol('max-shift', key, 'the shift is a max-reduction seeded with the finite constant %r, i.e. max(%r, max x): when every entry is below %r the '
                         'exponentials are exp(x_i - %r), which underflow to 0/0 = NaN for entries below about %g and lose shift invariance before that' % (
                             c_, c_, c_, c_, c_ - 745.0), site_of(pdb.bodies[k]))
            else:
                rep.ok('max-shift', key, 'every exp argument is element - max: %s' % show_expr(ret)[:200])
            # normalisation
            def sum_of(red):
                # the summand of a reduction: sum{e}, or fold{0.0, acc + e} (a left fold from zero is the same sum in the same order)
                if red[0] != 'red':
                    return None
                if red[1] == 'sum' and len(red[2]) == 1:
                    return next(iter(red[2]))
                if red[1] in ('fold', 'acc'):
                    rest = [q for q in red[2] if q != ('c', 0.0)]
                    if len(rest) == 1 and ('c', 0.0) in red[2] or (len(rest) == 1 and red[1] == 'acc'):
                        q = rest[0]
                        if q[0] == 'b' and q[1] == 'Add' and ('sym', 'acc') in (q[2], q[3]):
                            return q[3] if q[2] == ('sym', 'acc') else q[2]
                return None

            def is_norm(r):
                return r[0] == 'b' and r[1] == 'Div' and r[2][0] == 'm' and r[2][1] == 'exp' and sum_of(r[3]) == r[2]
            okn = len(ret) == 1 and is_norm(next(iter(ret)))
            norms = [r for r in ret if is_norm(r)]
            # in-place normalisation (out[k] /= s over a buffer of exp values): the weak update of the abstraction keeps the
            # pre-division value e as an alternative; that is an imprecision of the engine, not a finding
            weak = bool(norms) and all(is_norm(r) or any(r == nr[2] for nr in norms) for r in ret)
            if not okn and weak:
                rep.undecided('normalised', key2, 'in-place normalisation: every alternative is e_i / sum(e) or the pre-division e_i (weak update); '
                              'that every element is divided is not decided', site_of(pdb.bodies[k]), proof=False)
            elif okn:
                rep.ok('normalised', key2, 'output_i = e_i / sum(e) with e = %s' % show_expr(next(iter(ret))[2])[:120])
                rep.sample('softmax => %s' % show_expr(ret)[:200])
            else:
                # a definite mismatch: a quotient exp / reduction whose summand is read and differs from the numerator, or no division at all
                rs = list(ret)
                definite = all((r[0] == 'b' and r[1] == 'Div' and r[2][0] == 'm' and r[2][1] == 'exp' and sum_of(r[3]) is not None and sum_of(r[3]) != r[2]) or
                               not any(e[0] == 'b' and e[1] == 'Div' for e in _subexprs(r)) for r in rs)
                if definite:
                    rep.viol('normalised', key2, 'softmax output is %s, not exp_i / sum(exp) with one common expression' % show_expr(ret)[:300], site_of(pdb.bodies[k]))
                else:
                    rep.undecided('normalised', key2, 'normaliser of %s not read as a sum of the numerator expression' % show_expr(ret)[:120], site_of(pdb.bodies[k]), proof=False)
    rep.floor('max-shift', 1, 'softmax')
    rep.floor('normalised', 1, 'softmax')

    # ------------------------------------------------------------------ D3 logistic
    k = FS + 'logistic'
    f = prog.func(k)
    key = 'logistic-range:%s' % k
    if f is None:
        rep.viol('logistic-range', key, 'logistic disappeared')
    else:
        rep.touch(k)
        x = ('arg', 1, f.names.get(1))
        rets = f.return_values()
        ev = AbsEval(lambda t: TOPIV if t == x else None, wrt=x)
        vals = [ev.ev(r) for r in rets]
        if ev.unknown or not vals:
            rep.undecided('logistic-range', key, 'cannot evaluate %s: %s' % ([show(r) for r in rets], ev.unknown))
        elif all(v.iv.within(0.0, 1.0) and v.dir in ('inc', 'const') for v in vals) and any(v.dir == 'inc' for v in vals):
            rep.ok('logistic-range', key, 'logistic(x) = %s has range %r and is non-decreasing' % (show(rets[0]), vals[0].iv))
            rep.sample('logistic = %s: range %r, direction %s' % (show(rets[0]), vals[0].iv, vals[0].dir))
        else:
            rep.viol('logistic-range', key, 'logistic(x) = %s evaluates to range %s, direction %s (expected within [0,1], non-decreasing)' % (
                show(rets[0]), [repr(v.iv) for v in vals], [v.dir for v in vals]), site_of(f.body))
    rep.floor('logistic-range', 1, 'logistic')
    for kk in eng.visited:
        rep.touch(kk)
    d5_binom(prog, rep)
    return {}


def _subexprs(e):
    if isinstance(e, frozenset):
        for x in e:
            yield from _subexprs(x)
        return
    if not isinstance(e, tuple):
        return
    yield e
    for x in e[1:]:
        if isinstance(x, (tuple, frozenset)):
            yield from _subexprs(x)


def _is_max_reduction(e):
    """a reduction over the input elements built from f64::max only"""
    if e[0] != 'red':
        return False
    has_max = False
    for x in _subexprs(e[2]):
        if x[0] == 'm' and x[1] == 'max':
            has_max = True
        elif x[0] == 'm' or x[0] == 'b' or x[0] == 'neg':
            return False
    return has_max


def _finite_seed(e):
    """a finite literal among the alternatives of a max-reduction: the reduction is then max(c, max x), which exceeds max x
    whenever every element is below c (NaN and -inf are neutral for f64::max, an element of the input is fine)"""
    import math as _m
    for x in e[2]:
        if isinstance(x, tuple) and x[0] == 'c' and isinstance(x[1], float) and _m.isfinite(x[1]):
            return x[1]
    return None


def _is_shifted(arg):
    return arg[0] == 'b' and arg[1] == 'Sub' and arg[2] == ('sym', 'SELF') and _is_max_reduction(arg[3])


# =============================================================================== D5
def _first_overflow_witness():
    """smallest (n, k) with C(n,k) < 2^64 <= C(n,k) * k  (pure arithmetic, for the report text)"""
    from math import comb
    for n in range(2, 80):
        for k in range(1, n // 2 + 1):
            c = comb(n, k)
            if c < 2 ** 64 and any(comb(n, i) * i >= 2 ** 64 for i in range(1, k + 1)):
                return n, k
    return None


def _induction_value(f, L, t, use):
    """polynomial (in the loop item) of the value a counted local holds when statement `use` runs: t = v0 before the loop and
    t = t +/- c once per iteration, on every path to the back edge; None when not of that shape"""
    from ..poly import poly, padd, psub, pmul
    sts = [s for s in f.stores() if s.target == t]
    if len(sts) != 2:
        return None
    ini = [s for s in sts if s.bb not in L['blocks']]
    stp = [s for s in sts if s.bb in L['blocks']]
    if len(ini) != 1 or len(stp) != 1:
        return None
    ini, stp = ini[0], stp[0]
    v = stp.value
    if not (tag(v) == 'bin' and v[1] in ('Sub', 'Add') and v[2] == t and tag(v[3]) == 'const' and isinstance(v[3][2], int)):
        return None
    if t in subterms(ini.value) or not f.cfg.dominates(ini.bb, L['header']):
        return None
    latches = [a for a, b in f.cfg.back_edges() if b == L['header'] and a in L['blocks']]
    if not latches or not all(f.cfg.dominates(stp.bb, a) for a in latches):
        return None
    item = L['item']
    rng = item[2]
    if tag(rng) not in ('range', 'rangeincl'):
        return None
    iters = psub(poly(item), poly(rng[1]))          # completed iterations before this one
    if stp.bb == use.bb:
        before = (stp.idx if stp.idx is not None else 10 ** 6) < (use.idx if use.idx is not None else 10 ** 6)
    elif f.cfg.dominates(stp.bb, use.bb):
        before = True
    elif f.cfg.dominates(use.bb, stp.bb):
        before = False
    else:
        return None
    if before:
        iters = padd(iters, {(): 1})
    c = v[3][2] * (1 if v[1] == 'Add' else -1)
    return padd(poly(ini.value), pmul(iters, {(): c}))


def d5_binom(prog, rep):
    from ..poly import poly, peq, padd, psub
    k = 'functions::combinatorial::binom_coeff'
    f = prog.func(k)
    key = 'binom:' + k
    if f is None:
        rep.viol('binom', key, 'function disappeared')
        rep.floor('binom', 1, 'binom_coeff')
        return
    rep.touch(k)
    n_, k_ = ('arg', 1, f.names.get(1)), ('arg', 2, f.names.get(2))
    loops = [li for li in f.loop_info() if li['item'] is not None]
    acc = None
    upd = None
    # the running coefficient: a local updated from itself inside the loop and returned; other self-updated locals (a numerator factor
    # counted down beside it) are induction variables and are read as such below
    cands = [s for s in f.stores() if tag(s.target) == 'local' and s.target[1] != 0 and s.target in subterms(s.value) and any(s.bb in li['blocks'] for li in loops)]
    rets_ = f.return_values()
    returned = [s for s in cands if s.target in rets_]
    pick = returned if returned else cands
    if len({s.target for s in pick}) == 1:
        acc, upd = pick[-1].target, pick[-1]
    elif pick:
        rep.undecided('binom', key, 'several self-updated locals in the loop and none / more than one is returned', site_of(f.body), proof=False)
        rep.floor('binom', 1, 'binom_coeff')
        return
    problems = []
    undec = []
    if acc is None:
        rep.undecided('binom', key, 'no running coefficient found (not the multiplicative recurrence)', site_of(f.body), proof=False)
        rep.floor('binom', 1, 'binom_coeff')
        return
    L = [li for li in loops if upd.bb in li['blocks']][0]
    i = L['item']
    # ---- refutation: 64-bit product with the bare accumulator (also through checked/wrapping/saturating/overflowing mul)
    bare = []
    for t in [x for s in f.stores() for x in subterms(s.value)] + [x for c in f.calls() for a in c.args for x in subterms(a)] + \
            [tuple(['call', c.path, c.args, None]) for c in f.calls() if c.path]:
        if tag(t) == 'bin' and t[1] in ('Mul', 'MulWithOverflow', 'MulUnchecked') and t[4] in ('u64', 'usize', 'i64') and acc in (t[2], t[3]):
            bare.append(show(t)[:60])
        if tag(t) == 'call' and t[1] and short(t[1]).endswith('_mul') and 'u128' not in t[1] and acc in t[2]:
            bare.append(show(t)[:60])
    if bare:
        w = _first_overflow_witness()
        problems.append('the running coefficient is multiplied before it is divided (%s): the intermediate C(n,i)*i must then fit in 64 bits although only '
                        'C(n,k) has to; first affected value C(%d,%d)' % (bare[0], w[0], w[1]))
    # ---- proof of the recognised split form
    v = upd.value
    m_want = padd(psub(poly(n_), poly(i)), {(): 1})
    form = None
    if tag(v) == 'bin' and v[1] == 'Add':
        for qa, ra in ((v[2], v[3]), (v[3], v[2])):
            # qa = (c / i) * m ; ra = ((c % i) * m) / i
            if tag(qa) == 'bin' and qa[1] == 'Mul' and tag(ra) == 'bin' and ra[1] == 'Div' and ra[3] == i and tag(ra[2]) == 'bin' and ra[2][1] == 'Mul':
                qs = [x for x in (qa[2], qa[3]) if x == ('bin', 'Div', acc, i, qa[4])]
                rs = [x for x in (ra[2][2], ra[2][3]) if x == ('bin', 'Rem', acc, i, qa[4])]
                if len(qs) == 1 and len(rs) == 1:
                    m1 = qa[3] if qa[2] == qs[0] else qa[2]
                    m2 = ra[2][3] if ra[2][2] == rs[0] else ra[2][2]
                    form = (m1, m2)
    if form is not None:
        m1, m2 = form
        pm = []
        for m_ in (m1, m2):
            iv = _induction_value(f, L, m_, upd) if tag(m_) == 'local' else None
            pm.append(iv if iv is not None else (poly(m_) if tag(m_) != 'local' else None))
        if pm[0] is None or pm[1] is None:
            undec.append('numerator factor %s is a local whose value per iteration is not read' % show(m1 if pm[0] is None else m2)[:30])
        elif not (peq(pm[0], m_want) and peq(pm[1], m_want)):
            problems.append('split update q*m1 + r*m2/i uses m1 = %s, m2 = %s; both must be n - i + 1' % (show(m1)[:40], show(m2)[:40]))
    elif not bare:
        undec.append('update %s is not the recognised split form' % show(v)[:100])
    # range 1..=min(k, n-k), start value 1, result
    rng = i[2]
    hi = rng[2] if tag(rng) in ('range', 'rangeincl') else None
    okr = tag(rng) == 'rangeincl' or 'RangeInclusive' in show(rng) or '..=' in show(rng)
    lo_ok = tag(rng[1]) == 'const' and rng[1][2] == 1
    if not (okr and lo_ok):
        problems.append('level loop is %s, expected 1..=min(k, n-k)' % show(rng)[:40])
    nk_stores = [s for s in f.stores() if s.target == hi] if hi is not None else []
    vals = sorted(show(s.value) for s in nk_stores)
    if hi == k_:
        pass        # no symmetry reduction: still exact (only slower / earlier overflow bail-out is checked above)
    elif sorted(vals) != sorted([show(k_), show(('bin', 'Sub', n_, k_, 'u64'))]):
        undec.append('loop bound %s is not min(k, n-k)' % vals)
    else:
        # the n-k branch must be taken when k > n-k
        for s in nk_stores:
            if s.value != k_:
                g = f.guards().get(s.bb, [])
                if not any(tag(c) == 'bin' and ((c[1] == 'Gt' and c[2] == k_ and c[3] == s.value and vv is True) or (c[1] == 'Lt' and c[2] == s.value and c[3] == k_ and vv is True)
                                                or (c[1] == 'Ge' and c[2] == k_ and c[3] == s.value and vv is True) or (c[1] == 'Le' and c[2] == s.value and c[3] == k_ and vv is True)) for c, vv in g):
                    problems.append('the bound is replaced by n - k under %s, not when k > n - k' % [show(c)[:30] for c, _ in g])
    init = [s for s in f.stores() if s.target == acc and s is not upd]
    if not (len(init) == 1 and tag(init[0].value) == 'const' and init[0].value[2] == 1):
        problems.append('running coefficient does not start at 1')
    # early returns
    for d in f._defs.get(0, []):
        if d[0] != 'assign':
            continue
        val = f.rvalue_term(d[3], d[1])
        if val == acc:
            continue
        if tag(val) == 'const' and val[2] == 0:
            g = [(c, vv) for c, vv in f.guards().get(d[1], []) if tag(c) == 'bin' and acc in subterms(c)]
            okg = len(g) == 1 and g[0][1] is True and g[0][0][1] == 'Gt' and g[0][0][2] == ('bin', 'Div', acc, i, 'u64') and \
                tag(g[0][0][3]) == 'bin' and g[0][0][3][1] == 'Div' and tag(g[0][0][3][2]) == 'const' and g[0][0][3][2][2] == 2 ** 64 - 1 and g[0][0][3][3] == hi
            if okg:
                continue      # q > MAX/nk implies C(n,i) >= q*nk > MAX: fires only when the value does not fit
            # the same test on the whole running coefficient instead of its quotient by i: c = C(n,i-1) > MAX/nk does not imply that
            # C(n,i) = c*(n-i+1)/i exceeds MAX -- the zero is returned for coefficients that fit (decided on the recurrence invariant
            # c = C(n, i-1) established above; the witness is pure arithmetic)
            wide = len(g) == 1 and g[0][1] is True and g[0][0][1] == 'Gt' and g[0][0][2] == acc and \
                tag(g[0][0][3]) == 'bin' and g[0][0][3][1] == 'Div' and tag(g[0][0][3][2]) == 'const' and g[0][0][3][2][2] == 2 ** 64 - 1 and g[0][0][3][3] == hi
            if wide and form is not None and not problems:
                from math import comb
                wit = None
                for n0 in range(2, 90):
                    for k0 in range(1, n0 // 2 + 1):
                        if comb(n0, k0) < 2 ** 64 and any(comb(n0, i0 - 1) > (2 ** 64 - 1) // k0 for i0 in range(1, k0 + 1)):
                            wit = (n0, k0)
                            break
                    if wit:
                        break
                problems.append('the overflow bail-out tests the whole running coefficient (%s) where only its quotient by i is multiplied: it returns 0 for '
                                'coefficients that fit in 64 bits, first C(%d,%d)' % (show(g[0][0])[:40], wit[0], wit[1]) if wit else
                                'the overflow bail-out tests the whole running coefficient where only its quotient by i is multiplied')
                continue
            # any other bail-out test: evaluated under the recurrence invariant c = C(n, i-1) (established above when the split form was read) for
            # every (n, k) with n <= 70 whose coefficient fits in 64 bits -- the zero may be returned for none of them
            if form is not None and not problems and g and all(isinstance(vv, bool) for _, vv in g):
                from math import comb
                from ..precond import tev as _tev, Frame as _Frame, Uneval as _Uneval, _nk as _nk_
                wit, unread_g = None, False
                hi_key = _nk_(hi) if hi is not None else None
                for n0 in range(1, 71):
                    for k0 in range(0, n0 + 1):
                        if comb(n0, k0) >= 2 ** 64:
                            continue
                        nk0 = min(k0, n0 - k0)
                        for i0 in range(1, nk0 + 1):
                            env = {_nk_(n_): n0, _nk_(k_): k0, _nk_(acc): comb(n0, i0 - 1), _nk_(i): i0}
                            if hi_key is not None and tag(hi) == 'local':
                                env[hi_key] = nk0
                            for m_ in (m1, m2):
                                if tag(m_) == 'local':
                                    env[_nk_(m_)] = n0 - i0 + 1
                            ctx_ = _Frame(None, env=env)
                            try:
                                fires = all(bool(_tev(c_, ctx_)) == vv_ for c_, vv_ in g)
                            except _Uneval:
                                unread_g = True
                                fires = False
                            except (TypeError, ValueError, OverflowError):
                                unread_g = True
                                fires = False
                            if fires:
                                wit = (n0, k0, i0)
                                break
                        if wit or unread_g:
                            break
                    if wit or unread_g:
                        break
                if wit:
                    problems.append('the overflow bail-out `%s` fires at step i = %d of C(%d,%d) (running coefficient C(%d,%d) = %d) although C(%d,%d) = %d fits in 64 bits: '
                                    '0 is returned for a coefficient the property covers' % (show(g[0][0])[:50], wit[2], wit[0], wit[1], wit[0], wit[2] - 1,
                                                                                             comb(wit[0], wit[2] - 1), wit[0], wit[1], comb(wit[0], wit[1])))
                    continue
                if not unread_g:
                    continue      # never fires for a coefficient that fits (n <= 70): sound as far as the property's exhaustive range goes
            if not bare:
                undec.append('overflow bail-out %s not recognised' % [show(c)[:50] for c, _ in g])
        else:
            problems.append('returns %s' % show(val)[:40])
    if problems:
        rep.viol('binom', key, '; '.join(problems), site_of(upd.span) or site_of(f.body))
    elif undec:
        rep.undecided('binom', key, '; '.join(undec), site_of(f.body), proof=False)
    else:
        rep.ok('binom', key, 'C(n,i) = (c/i)*m + (c%i)*m/i with m = n-i+1 for i in 1..=min(k,n-k), c0 = 1; bail-out only on q > MAX/nk')
    rep.floor('binom', 1, 'binom_coeff')
