"""C11 — factorisations reconstruct the input and have the promised structure.

D1 non-PD rejection: the argument of every sqrt in the Cholesky routines is dominated by a positivity test of that
   very value (so non-finite factors cannot be produced and indefinite input is rejected).
D2 sibling skeletons (E-SIB): slice-level and Matrix-level lu, lu_solve, forward/backward substitution,
   is_symmetric, is_positive_definite, diag compute the same abstract statements.
D3 stride on every 2-D access of lu / cholesky / substitutions.
D4 triangular structure by loop bounds: Cholesky writes only columns j <= i; forward substitution reads L[i][..i],
   backward substitution reads U[i][i+1..].
D5 uninitialised buffers: in the slice substitutions x is read only where it has been written in an earlier iteration.
D6 determinant = prod(diag(LU)) * parity(pivots).
Not decided: L.L^T = A, P.A = L.U, |L_ij| <= 1 and the parity routine itself (numerical / algorithmic)."""
from ..ir import tag, show, short, subterms, is_f64_method, f64_method_name
from ..idx import IdxFunc, check_stride, strip_casts
from ..sib import Skeleton, diff
from ..structs import canon_guard, show_guard
from ..poly import poly, psub, padd, peq, pconst, pshow
from ..framework import site_of

LEVEL = 'other'
EXPLANATION = (
    'Guard, index and sibling analysis on MIR: (1) each Cholesky pivot square root is dominated by a test `pivot > 0` on the same value; '
    '(2) the slice-level and Matrix-level implementations of LU, LU solve, triangular substitutions and the structural predicates are '
    'normalised to abstract statements over 2-D accesses A2(role,row,col) and compared as multisets (a change to one sibling is reported '
    'with the statement present on one side only); (3) row-major stride discipline of all accesses; (4) triangularity from loop bounds; '
    '(5) reads of the set_len buffers of the substitution routines are confined to indices written in earlier iterations; '
    '(6) determinant wiring. Reconstruction identities are numerical and are not decided.')

M = 'linalg::array::matrix::Matrix'
V = 'linalg::array::vec::Vector'
D = 'linalg::decomposition::'
U = 'linalg::utils::'


def isarg(i):
    return lambda t: tag(t) == 'arg' and t[1] == i


def iscall(nm):
    return lambda t: tag(t) == 'call' and short(t[1]) == nm


def n_slice(t):
    return (tag(t) == 'call' and short(t[1]) == 'unwrap' and t[2] and tag(t[2][0]) == 'call' and t[2][0][1].endswith('is_square'))


def n_mat(t):
    return tag(t) == 'field' and t[2] in (1, 2) and tag(t[1]) == 'arg' and t[1][1] == 1


def data_of_self(t):
    return tag(t) == 'field' and t[2] == 0 and tag(t[1]) == 'arg' and t[1][1] == 1


PAIRS = [
    ('lu', D + 'lu::lu', M + '::lu',
     [(iscall('to_vec'), 'LU'), (iscall('collect'), 'PIV')],
     [(iscall('clone'), 'LU'), (lambda t: tag(t) == 'field' and tag(t[1]) == 'call' and short(t[1][1]) == 'clone', 'LU'), (iscall('collect'), 'PIV')],
     n_slice, n_mat),
    ('lu_solve', D + 'lu::lu_solve', '<%s as linalg::array::matrix::Solve<%s>>::lu_solve' % (M, V),
     [(isarg(1), 'LU'), (isarg(2), 'PIV'), (isarg(3), 'B'), (iscall('from_elem'), 'X')],
     [(isarg(1), 'LU'), (isarg(2), 'PIV'), (isarg(3), 'B'), (iscall('zeros'), 'X')],
     lambda t: tag(t) == 'len' and tag(t[1]) == 'arg' and t[1][1] == 3, n_mat),
    ('forward_substitution', D + 'substitution::forward_substitution', M + '::forward_substitution',
     [(isarg(1), 'T'), (isarg(2), 'B'), (iscall('with_capacity'), 'X')], [(isarg(1), 'T'), (isarg(2), 'B'), (iscall('zeros'), 'X')], n_slice, n_mat),
    ('backward_substitution', D + 'substitution::backward_substitution', M + '::backward_substitution',
     [(isarg(1), 'T'), (isarg(2), 'B'), (iscall('with_capacity'), 'X')], [(isarg(1), 'T'), (isarg(2), 'B'), (iscall('zeros'), 'X')], n_slice, n_mat),
    # is_symmetric is not a sibling obligation: the two predicates need not be textually alike; each must compare mirrored entries
    # (C15 predicate) with a scale-consistent O(eps) tolerance (symmetry-tolerance below)
    ('is_positive_definite', U + 'is_positive_definite', M + '::is_positive_definite', [(isarg(1), 'A')], [(data_of_self, 'A')], n_slice, n_mat),
    ('diag', U + 'diag', M + '::diag', [(isarg(1), 'A'), (iscall('new'), 'OUT')], [(data_of_self, 'A'), (iscall('with_capacity'), 'OUT')], n_slice, n_mat),
]

PRECONDITION_WORDS = ('is_square', 'is_symmetric(', 'is_lower_triangular', 'is_upper_triangular', 'is_positive_definite(', '== len(', 'len(lu)', '(N == N)')


def idiom_signature(lines):
    """coarse structure of a skeleton: how many loops / array stores / swaps.  Siblings written in different loop idioms (for vs
    while, fused vs split loops, helper extracted) are not comparable statement by statement"""
    import re as _re
    # index-on-index tests (`cond (i0 == i1)`) belong to the iteration structure too: a peeled last iteration (loop to i instead of
    # i+1, no `i == j` case) is the same algorithm in another shape
    idx_conds = sum(bool(_re.match(r'cond \((not )?\(?i\d+ (==|!=|<|<=) i\d+', l)) for l in lines)
    return (sum(l.startswith('loop ') for l in lines), sum(l.startswith('store A') for l in lines), sum(l.startswith('swap ') for l in lines),
            idx_conds)


def algorithmic(lines):
    import re as _re
    out = []
    his = {}
    for l in lines:
        m = _re.match(r'loop (?:rev )?(i\d+) in (.+)\.\.(.+)$', l)
        if m:
            his[m.group(1)] = m.group(3)
    for l in lines:
        m = _re.match(r'cond \((i\d+) < (.+)\)$', l)
        if m and his.get(m.group(1)) == m.group(2):
            continue            # tautology: the counter of `loop i in lo..hi` is below hi
        if l.startswith('cond ') and any(w in l for w in PRECONDITION_WORDS):
            continue
        if l.startswith('store var:? := '):
            continue
        l = l.replace('min(N,N)', 'N')
        out.append(l)
    return out


def pivot_guard(prog, rep, keys):
    """every pivot square root of a Cholesky routine is dominated by the test `pivot > 0` being true (a NaN or zero pivot fails it)"""
    for k in keys:
        f = prog.func(k)
        key = 'pivot-guard:%s' % k
        if f is None:
            # before the try_cholesky refactoring the factorisation lived in `cholesky` itself
            alt = D + 'cholesky::cholesky'
            f = prog.func(alt) if k.endswith('try_cholesky') else None
            if f is None:
                rep.viol('pivot-guard', key, 'Cholesky routine disappeared')
                continue
        rep.touch(f.body.key)
        sq = [c for c in f.calls() if c.path and is_f64_method(c.path) and f64_method_name(c.path) == 'sqrt']
        if not sq:
            rep.undecided('pivot-guard', key, 'no square root found in the factorisation', site_of(f.body))
            continue
        zero = ('const', 'f64', 0.0)
        bad = []
        for c in sq:
            a = c.args[0]
            gs = [canon_guard(cn, v) for cn, v in f.guards().get(c.bb, [])]
            if ('cmp', 'Lt', zero, a, True, 'f64') not in gs:
                bad.append(c)
        if bad:
            rep.viol('pivot-guard', key, 'sqrt(%s) is not dominated by a test that this pivot is > 0: a symmetric indefinite matrix with positive diagonal '
                     '(e.g. [[1,2],[2,1]]) yields NaN entries in the factor instead of being rejected' % show(bad[0].args[0])[:120], site_of(bad[0].span))
        else:
            rep.ok('pivot-guard', key, 'every pivot square root is dominated by `pivot > 0`')


def run(prog, rep, tier, repo):
    pdb = prog.pdb
    # ------------------------------------------------------------------ D1
    pivot_guard(prog, rep, (D + 'cholesky::try_cholesky', M + '::cholesky'))
    # public `cholesky` must reject (panic) when the factorisation fails
    f = prog.func(D + 'cholesky::cholesky')
    key = 'pivot-guard:%scholesky::cholesky:rejects' % D
    if f is not None:
        rep.touch(f.body.key)
        calls = [c.path for c in f.calls()]
        own_sqrt = any(p and is_f64_method(p) and f64_method_name(p) == 'sqrt' for p in calls)
        via_try = any(p == D + 'cholesky::try_cholesky' for p in calls) and any(p and short(p) in ('expect', 'unwrap') for p in calls)
        if via_try:
            rep.ok('pivot-guard', key, 'cholesky() = try_cholesky().expect(..): panics when a pivot is not positive')
        elif own_sqrt:
            rep.info('pivot-guard', key, 'cholesky() factorises itself (checked above)')
        else:
            rep.undecided('pivot-guard', key, 'cholesky() neither factorises nor unwraps try_cholesky()')
    rep.floor('pivot-guard', 2, 'slice and Matrix Cholesky')

    # every-entry: the factor is computed entry by entry from inner products of earlier entries; an entry of the factor can be non-zero
    # where the input is zero (fill-in), so no store into the factor may be skipped on an (in)equality test of a raw input element
    for k in (D + 'cholesky::try_cholesky', M + '::cholesky', D + 'lu::lu', M + '::lu'):
        f = prog.func(k)
        key = 'every-entry:%s' % k
        if f is None:
            continue
        rep.touch(k)
        a_in = ('arg', 1, f.names.get(1))

        def raw_input_read(t, a_in=a_in):
            # an element of the input itself: a[..] / self[[i, j]] / self.data[..] -- not of a working copy
            z = t
            while tag(z) in ('index', 'field') or (tag(z) == 'call' and short(z[1]) in ('index', 'deref', 'data') and z[2]):
                z = z[1] if tag(z) in ('index', 'field') else z[2][0]
            return z == a_in and z != t
        stores = [s_ for s_ in f.stores() if tag(s_.target) != 'local']
        bad = []
        for s_ in stores:
            # control dependence, not dominance: `if i != j && a[..] == 0. { continue }` joins with the i == j path before the store
            for cn in f.control_conds(s_.bb):
                if tag(cn) == 'bin' and cn[1] in ('Eq', 'Ne') and len(cn) > 4 and cn[4] in ('f64', 'f32') and \
                        (raw_input_read(cn[2]) or raw_input_read(cn[3])):
                    bad.append((s_, cn, 'decided one way'))
        if not stores:
            rep.undecided('every-entry', key, 'no element store found in the factorisation', site_of(f.body), proof=False)
        elif bad:
            s_, cn, v = bad[0]
            rep.viol('every-entry', key, 'the store %s := .. happens only when `%s` is %s: entries of the factor are skipped where the input has a zero, '
                     'but the factor of a matrix with zeros is in general not zero there (fill-in)' % (show(s_.target)[:50], show(cn)[:60], v), site_of(s_.span))
        else:
            rep.ok('every-entry', key, '%d element stores, none conditional on an (in)equality test of an input element' % len(stores))
    rep.floor('every-entry', 4, 'slice and Matrix Cholesky and LU')

    # ------------------------------------------------------------------ D2 siblings
    for name, ka, kb, ra, rb, sa, sb in PAIRS:
        key = 'sibling:%s' % name
        fa, fb = prog.func(ka), prog.func(kb)
        if fa is None or fb is None:
            rep.viol('sibling', key, 'one of the siblings disappeared (%s / %s)' % (ka, kb))
            continue
        rep.touch(ka, kb)
        A = Skeleton(prog, fa, ra, [(sa, 'N')])
        B = Skeleton(prog, fb, rb, [(sb, 'N')])
        la, lb = algorithmic(A.lines()), algorithmic(B.lines())
        oa, ob = diff(la, lb)
        if not oa and not ob and la:
            rep.ok('sibling', key, '%d abstract statements agree' % len(la))
            rep.sample('%s: %s' % (name, '; '.join(la[:4])))
        elif not la:
            rep.undecided('sibling', key, 'empty skeleton')
        elif idiom_signature(la) != idiom_signature(lb):
            rep.undecided('sibling', key, 'the two implementations use different loop idioms (%s vs %s loops/stores/swaps): not comparable statement by statement' % (
                idiom_signature(la), idiom_signature(lb)), site_of(fb.body), proof=False)
        else:
            rep.viol('sibling', key, 'slice-level and Matrix-level %s differ. only in %s: %s | only in %s: %s' % (
                name, short(ka), '; '.join(oa)[:400] or '-', 'Matrix::' + short(kb), '; '.join(ob)[:400] or '-'), site_of(fb.body))
    rep.floor('sibling', 7, 'sibling pairs')
    # Cholesky pair: different but equivalent dot formulations (partial rows vs full zero-padded rows)
    fa, fb = prog.func(D + 'cholesky::try_cholesky') or prog.func(D + 'cholesky::cholesky'), prog.func(M + '::cholesky')
    if fa is not None and fb is not None:
        A = Skeleton(prog, fa, [(isarg(1), 'A'), (iscall('from_elem'), 'L')], [(n_slice, 'N')])
        B = Skeleton(prog, fb, [(isarg(1), 'A'), (iscall('zeros'), 'L')], [(n_mat, 'N')])

        def norm(lines):
            out = []
            for l in algorithmic(lines):
                import re
                l = re.sub(r'ROW\(L,(\w+),0\.\.\+\w+\)', r'ROWOF(L,\1)', l)
                l = re.sub(r'get_row_as_vector\(L,(\w+)\)', r'ROWOF(L,\1)', l)
                if l.startswith('store var:'):
                    continue
                out.append(l)
            return out
        la, lb = norm(A.lines()), norm(B.lines())
        oa, ob = diff(la, lb)
        key = 'sibling:cholesky'
        # remaining tolerated difference: how the failing pivot is reported (return None vs assert)
        oa = [x for x in oa if 'Option' not in x]
        ob = [x for x in ob if 'Option' not in x]
        if not oa and not ob:
            rep.ok('sibling', key, 'same statements up to the listed difference: partial-row dot (slice) vs zero-padded full-row dot (Matrix)')
        elif idiom_signature(la) != idiom_signature(lb):
            rep.undecided('sibling', key, 'the two Cholesky implementations use different loop idioms (%s vs %s loops/stores/swaps)' % (
                idiom_signature(la), idiom_signature(lb)), site_of(fb.body), proof=False)
        else:
            rep.viol('sibling', key, 'Cholesky siblings differ: only slice: %s | only Matrix: %s' % ('; '.join(oa)[:300], '; '.join(ob)[:300]), site_of(fb.body))

    # ------------------------------------------------------------------ D3 stride
    n = 0
    for k in (D + 'lu::lu', D + 'lu::lu_solve', D + 'cholesky::try_cholesky', D + 'cholesky::cholesky', D + 'cholesky::cholesky_solve',
              D + 'substitution::forward_substitution', D + 'substitution::backward_substitution'):
        f = prog.func(k)
        if f is not None:
            n += check_stride(prog, f, rep)
            rep.touch(k)
    rep.floor('stride', 12, '2-D accesses in the decomposition routines')

    # ------------------------------------------------------------------ D4 / D5 triangular structure and buffer reads
    fch = prog.func(D + 'cholesky::try_cholesky') or prog.func(D + 'cholesky::cholesky')
    if fch is not None:
        key = 'triangular:cholesky-writes'
        sk = Skeleton(prog, fch, [(isarg(1), 'A'), (iscall('from_elem'), 'L')], [(n_slice, 'N')])
        lines = sk.lines()
        loops = [l for l in lines if l.startswith('loop ')]
        stores = [l for l in lines if l.startswith('store A2(L,')]
        import re as _re
        lranges = {}
        for l in loops:
            m_ = _re.match(r'loop (?:rev )?(\S+) in (.+)\.\.(.+)$', l)
            if m_:
                lranges[m_.group(1)] = (m_.group(2), m_.group(3))
        verdicts = []
        for st_ in stores:
            m_ = _re.match(r'store A2\(L,([^,]+),([^)]+)\)', st_)
            if not m_:
                verdicts.append(None)
                continue
            r_, c_ = m_.group(1), m_.group(2)
            if c_ == r_:
                verdicts.append(True)
            elif c_ in lranges:
                lo_, hi_ = lranges[c_]
                verdicts.append(True if (lo_ == '0' and hi_ in (r_, r_ + '+1')) else False)
            elif any(l in ('cond (%s < %s)' % (c_, r_), 'cond (%s <= %s)' % (c_, r_)) for l in lines):
                verdicts.append(True)
            else:
                verdicts.append(None)
        if stores and all(v is True for v in verdicts):
            rep.ok('triangular', key, 'L[i][j] is written only for j in 0..=i')
        elif any(v is False for v in verdicts):
            rep.viol('triangular', key, 'Cholesky does not confine its writes to the lower triangle: %s / %s' % (loops, [s_[:40] for s_ in stores]), site_of(fch.body))
        else:
            rep.undecided('triangular', key, 'column bound of the writes not derived (%s)' % [s_[:40] for s_ in stores], site_of(fch.body), proof=False)
    for name, rev, want_row, want_x in (('forward_substitution', False, 'ROW(T,i0,0..+i0)', 'S(X,i0)'),
                                        ('backward_substitution', True, 'ROW(T,i0,i0+1..+N+-1*i0+-1)', 'S(X,i0+1)')):
        k = D + 'substitution::' + name
        f = prog.func(k)
        if f is None:
            rep.viol('triangular', 'triangular:%s' % name, 'function disappeared')
            continue
        sk = Skeleton(prog, f, [(isarg(1), 'T'), (isarg(2), 'B'), (iscall('with_capacity'), 'X')], [(n_slice, 'N')])
        lines = sk.lines()
        loops = [l for l in lines if l.startswith('loop ')]
        st = [l for l in lines if l.startswith('store A1(X,i0)')]
        key = 'triangular:%s' % name
        okl = loops == ['loop %si0 in 0..N' % ('rev ' if rev else '')]
        okr = len(st) == 1 and want_row in st[0]
        if okl and okr:
            rep.ok('triangular', key, '%s reads %s in a %s sweep' % (name, want_row, 'descending' if rev else 'ascending'))
        elif not st or not any(l.startswith('loop %si0 in ' % ('rev ' if rev else '')) or l.startswith('loop i0 in ') or l.startswith('loop rev i0 in ') for l in loops):
            # no counting sweep over the rows with an element store into X: an idiom this rule does not read
            rep.undecided('triangular', key, '%s: sweep idiom not read (loops %s)' % (name, [l[:60] for l in loops]), site_of(f.body), proof=False)
        else:
            rep.viol('triangular', key, '%s: loops %s, statement %s' % (name, loops, [s[:160] for s in st]), site_of(f.body))
        # D5: reads of X
        key = 'uninit-read:%s' % name
        import re
        xreads = re.findall(r'(?:S|A1|ROW)\(X,[^)]*\)', st[0].split(':=', 1)[1]) if st else None
        if xreads is None:
            rep.undecided('uninit-read', key, 'store into X not found')
        elif all(r == want_x for r in xreads) and xreads and okl:
            rep.ok('uninit-read', key, 'x (set_len buffer) is read only as %s, i.e. at indices written in earlier iterations of the %s sweep' % (
                'x[..i]' if not rev else 'x[i+1..]', 'descending' if rev else 'ascending'))
        else:
            rep.viol('uninit-read', key, 'x is an uninitialised (set_len) buffer but is read as %s in a %s sweep: elements not yet written can be read' % (
                xreads, 'descending' if rev else 'ascending'), site_of(f.body))
    rep.floor('triangular', 3, 'cholesky writes, forward, backward')
    rep.floor('uninit-read', 2, 'slice substitutions')

    # ------------------------------------------------------------------ D6 determinant
    for k in (M + '::det', M + '::lu_det'):
        f = prog.func(k)
        key = 'det-wiring:%s' % k
        if f is None:
            rep.viol('det-wiring', key, 'function disappeared')
            continue
        rep.touch(k)
        rets = f.return_values()
        ok = False
        if len(rets) == 1 and tag(rets[0]) == 'bin' and rets[0][1] == 'Mul':
            a, b = rets[0][2], rets[0][3]
            for x, y in ((a, b), (b, a)):
                if tag(x) == 'call' and x[1] == V + '::prod' and tag(x[2][0]) == 'call' and x[2][0][1] == M + '::diag' and \
                        tag(y) == 'cast' and tag(y[2]) == 'call' and y[2][1] == U + 'ipiv_parity':
                    src = x[2][0][2][0]
                    piv = y[2][2][0]
                    if k.endswith('::det'):
                        # (lu, p) = self.lu()
                        ok = tag(src) == 'field' and src[2] == 0 and tag(piv) == 'field' and piv[2] == 1 and src[1] == piv[1] and tag(src[1]) == 'call' and src[1][1] == M + '::lu'
                    else:
                        ok = src == ('arg', 1, f.names.get(1)) and piv == ('arg', 2, f.names.get(2))
        # refuted in the read form only: one returned expression over prod / diag / ipiv_parity / lu, with no helper and no branch-assigned local in it
        czall = [z[1] for r in rets for z in subterms(r) if tag(z) == 'call']
        cz = [short(q) for q in czall if not (q.startswith('core::num::') or q.startswith('std::f64::') or q.startswith('core::f64::'))]   # integer / float methods are read
        read = len(rets) == 1 and bool(cz) and set(cz) <= {'prod', 'diag', 'ipiv_parity', 'lu'} and ('prod' in cz or 'diag' in cz) \
            and not any(tag(z) in ('local', 'phi', 'upvar') for z in subterms(rets[0]))
        if ok:
            rep.ok('det-wiring', key, 'det = prod(diag(LU)) * parity(pivots)')
        elif read:
            rep.viol('det-wiring', key, 'determinant is %s' % [show(r)[:120] for r in rets], site_of(f.body))
        else:
            rep.undecided('det-wiring', key, 'determinant is not one expression over prod(diag(..)) and ipiv_parity(..) (%s): not read' % [show(r)[:80] for r in rets],
                          site_of(f.body), proof=False)
    rep.floor('det-wiring', 2, 'det, lu_det')

    # ------------------------------------------------------------------ D7 parity of the pivot vector
    # lu()/Matrix::lu() return a permutation *vector* (pivots.swap(p, j)), not a LAPACK transposition list.  A swap-sort
    # that counts transpositions yields the permutation's sign only if, when the position loop moves on from i, position
    # i holds i (then #swaps = n - #cycles).  Structural obligation: every latch of the position loop is dominated by
    # the edge perm[i] == i; one swap per counted step; swap(i, perm[i]) (which puts value perm[i] at its home).
    k = U + 'ipiv_parity'
    f = prog.func(k)
    key = 'parity:' + k
    if f is None:
        rep.viol('parity', key, 'function disappeared')
    else:
        rep.touch(k)
        swaps = [c for c in f.calls() if c.path is not None and c.path.endswith('::swap')]
        if not swaps:
            rep.undecided('parity', key, 'no swap-sort shape (no slice::swap on a working copy): parity routine not decided', proof=False)
        else:
            g = f.guards()
            bad = []
            unrec = []
            for c in swaps:
                loops = [li for li in f.enclosing_loops(c.bb) if li['item'] is not None]
                obj, i, j = c.args[0], c.args[1], c.args[2]
                pos = [li for li in loops if li['item'] == i]
                if not pos:
                    unrec.append('swap first index %s is not a for-loop position counter' % show(i)[:60])
                    continue
                L = pos[0]
                home = tag(j) == 'cast' and tag(j[2]) == 'index' and j[2][1] == obj and j[2][2] == i
                if not home:
                    bad.append('swap partner is %s, not perm[i]' % show(j)[:80])
                latches = [p for p in f.cfg.pred[L['header']] if p in L['blocks']]
                for lt in latches:
                    fixed = False
                    for cond, val in g.get(lt, []):
                        if tag(cond) == 'bin' and cond[1] in ('Ne', 'Eq'):
                            a, b = cond[2], cond[3]
                            if (tag(a) == 'index' or tag(b) == 'index') and any(tag(x) == 'index' and x[1] == obj and x[2] == i for x in (a, b)) \
                                    and any((x == i) or (tag(x) == 'cast' and x[2] == i) for x in (a, b)):
                                if (cond[1] == 'Ne' and val is False) or (cond[1] == 'Eq' and val is True):
                                    fixed = True
                    if not fixed:
                        bad.append('the position loop moves on from i (latch bb%d) without perm[i] == i being established: after one swap '
                                   'position i may still be displaced, so #swaps != n - #cycles (e.g. [1,2,3,0] counts 2 swaps, sign +1, exact -1)' % lt)
            # the counter
            incs = [s for s in f.stores() if tag(s.target) == 'local' and tag(s.value) == 'bin' and s.value[1] == 'Add' and s.value[2] == s.target]
            if len(incs) != len(swaps):
                bad.append('%d counter increments for %d swaps' % (len(incs), len(swaps)))
            else:
                for s_, c in zip(sorted(incs, key=lambda s: s.bb), sorted(swaps, key=lambda c: c.bb)):
                    if not (f.cfg.dominates(c.bb, s_.bb) or f.cfg.dominates(s_.bb, c.bb)) or \
                            [li['header'] for li in f.enclosing_loops(c.bb)] != [li['header'] for li in f.enclosing_loops(s_.bb)] or \
                            not (tag(s_.value[3]) == 'const' and s_.value[3][2] == 1):
                        bad.append('counter increment %s is not one-per-swap' % show(s_.value)[:60])
            if unrec:
                rep.undecided('parity', key, 'swap-sort idiom not read: %s' % '; '.join(unrec), site_of(f.body), proof=False)
            elif bad:
                rep.viol('parity', key, '; '.join(bad), site_of(f.body))
            else:
                rep.ok('parity', key, 'swap-sort: swap(i, perm[i]) repeated until perm[i] == i, one count per swap')
    rep.floor('parity', 1, 'ipiv_parity')

    # ------------------------------------------------------------------ D8 tolerance of the Cholesky precondition
    # Matrix::cholesky reads one triangle; its precondition must not accept a non-symmetric matrix at any scale.
    from ..tol import check_tolerances
    check_tolerances(prog, rep, 'symmetry-tolerance', [M + '::is_positive_definite', U + 'is_symmetric'])
    rep.floor('symmetry-tolerance', 2, 'Matrix::is_symmetric, is_symmetric')

    # ------------------------------------------------------------------ D8b the pivot vector is applied as a gather
    # lu() records in pivots[i] the original index of the row that ends up in position i (pivots.swap(p, j) alongside the row swap), so
    # P.b is x[i] = b[pivots[i]].  The scatter x[pivots[i]] = b[i] applies the inverse permutation: equal for involutions (single or
    # disjoint swaps), wrong as soon as the permutation has a cycle of length >= 3.
    for k in (D + 'lu::lu_solve', '<%s as linalg::array::matrix::Solve<%s>>::lu_solve' % (M, V)):
        f = prog.func(k)
        key = 'perm-apply:%s' % k
        if f is None:
            rep.viol('perm-apply', key, 'function disappeared')
            continue
        rep.touch(k)
        piv = ('arg', 2, f.names.get(2)) if k.startswith(D) else ('arg', 2, f.names.get(2))
        verdict = None

        def over_piv(it):
            while tag(it) == 'call' and short(it[1]) in ('iter', 'into_iter', 'enumerate', 'copied', 'cloned', 'deref') and it[2]:
                it = it[2][0]
            return it == piv

        def reads_piv(t):
            for z in subterms(t):
                if tag(z) == 'index' and z[1] == piv:
                    return True
                # the value component of `for (i, &p) in pivots.iter().enumerate()` / `for &p in pivots`
                if tag(z) == 'field' and z[2] == 1 and tag(z[1]) == 'item' and over_piv(z[1][2]):
                    return True
                if tag(z) == 'item' and over_piv(z[2]) and not (tag(z[2]) == 'call' and short(z[2][1]) == 'enumerate'):
                    return True
            return False
        for st_ in f.stores():
            if tag(st_.target) != 'index':
                continue
            tv = st_.value
            while tag(tv) == 'cast':
                tv = tv[2]
            if tag(tv) == 'index' and reads_piv(tv[2]) and not reads_piv(st_.target[2]):
                verdict = True if verdict is None else verdict
            elif reads_piv(st_.target[2]) and tag(tv) == 'index' and not reads_piv(tv[2]):
                verdict = False
        # iterator form: pivots.iter().map(|&p| b[p]).collect()
        if verdict is None:
            for b_ in pdb.closures_of(k):
                g = prog.func(b_.key)
                for r in g.return_values():
                    if tag(r) == 'index' and any(tag(z) == 'arg' and z[1] == 2 for z in subterms(r[2])):
                        verdict = True
        if verdict is True:
            rep.ok('perm-apply', key, 'the right-hand side is permuted by gathering b[pivots[i]] into position i')
        elif verdict is False:
            rep.viol('perm-apply', key, 'the right-hand side is permuted by scattering b[i] into position pivots[i]: that is the inverse permutation, which differs '
                     'from P as soon as the pivot vector has a cycle of length >= 3 (e.g. pivots [2,0,1] for [[1,2,3],[4,5,6],[7,8,10]])', site_of(f.body))
        else:
            rep.undecided('perm-apply', key, 'application of the pivot vector not recognised', site_of(f.body), proof=False)
    rep.floor('perm-apply', 2, 'slice and Matrix lu_solve')

    # ------------------------------------------------------------------ D9 scale consistency of every data-dependent branch
    from ..tol import check_scale_guards
    check_scale_guards(prog, rep, 'scale-guard', [D + 'lu::lu', M + '::lu', D + 'cholesky::try_cholesky', M + '::cholesky'], follow_helpers=True, values=True)
    rep.floor('scale-guard', 6, 'pivot search + pivot test in lu x2, pivot sign test in cholesky x2')
    return {}
