"""C01 — linear systems are solved to working precision through every entry point.

Decided structural necessary conditions:
D1 routing guard: the Cholesky route is entered only under the positive-definiteness predicate of the same matrix.
D2 routing soundness: every use of a Cholesky factor inside a public solver is guarded by a success test of the
   factorisation whose failure edge reaches the pivoted LU route (the predicate is only a necessary condition, so a
   solver must not depend on it for its answer); the factoriser tests its pivots (C11 D1).
D3 multi-right-hand-side layout: column i of B is solved and becomes column i of X (layout typestate through
   row<->column-major conversions / transposes), for the slice solver and the three Matrix solvers.
D4 sibling agreement of LU, LU-solve and the substitutions (shared with C11).
D5 stride of every n x n access in the solvers' callees (shared with C11/C15).
D6 inverse = solve against the identity.
Not decided: backward error, conditioning, quality of pivoting."""
from ..ir import tag, show, short, subterms
from ..idx import IdxFunc, strip_casts
from ..poly import poly, psub, padd, pmul, peq, pconst
from ..framework import site_of
from . import c11

LEVEL = 'other'
EXPLANATION = (
    'Must-pass-through / typestate analysis of the solver entry points on MIR: the Cholesky solve calls must be dominated by both the '
    'routing predicate and a success test of the factorisation, with the pivoted-LU route reachable from the failure edge; right-hand-side '
    'columns are tracked through row_to_col_major / column chunks / col_to_row_major (and get_col_as_vector / transpose for Matrix) so that '
    'solution i lands in column i; inverses are solves against an identity built by the constructor patterns of C15. Residual bounds are '
    'numerical and are not decided.')

U = 'linalg::utils::'
D = 'linalg::decomposition::'
M = 'linalg::array::matrix::Matrix'
V = 'linalg::array::vec::Vector'


class _PCall:
    """a call made inside a closure, seen from the function that creates the closure: located at the block that creates / passes the
    closure (so it inherits that block's guards), with captured variables replaced by the captured terms"""
    def __init__(self, path, bb, args, span):
        self.path, self.bb, self.args, self.span = path, bb, args, span


def _calls_with_closures(prog, f):
    from ..structs import subst
    out = list(f.calls())
    seen = set()
    for c in f.calls():
        for a_ in c.args:
            for z in subterms(a_):
                if tag(z) == 'agg' and z[1] == 'closure' and (z[2], c.bb) not in seen:
                    seen.add((z[2], c.bb))
                    g = prog.func(z[2])
                    if g is None:
                        continue
                    for gc in g.calls():
                        ups = {u: z[3][u[1]] for x in gc.args for u in subterms(x) if tag(u) == 'upvar' and u[1] < len(z[3])}
                        out.append(_PCall(gc.path, c.bb, tuple(subst(x, ups) for x in gc.args), c.span))
    return out


def run(prog, rep, tier, repo):
    pdb = prog.pdb
    for name in ('solve', 'solve_sys'):
        k = U + name
        f = prog.func(k)
        if f is None:
            rep.viol('routing', 'routing:%s' % k, 'solver disappeared')
            continue
        rep.touch(k)
        a = ('arg', 1, f.names.get(1))
        calls = _calls_with_closures(prog, f)
        fact = [c for c in calls if c.path in (D + 'cholesky::cholesky', D + 'cholesky::try_cholesky')]
        csolve = [c for c in calls if c.path == D + 'cholesky::cholesky_solve']
        lus = [c for c in calls if c.path == D + 'lu::lu']
        lusolve = [c for c in calls if c.path == D + 'lu::lu_solve']
        # ---- D1
        key = 'routing:%s:predicate' % name
        if not fact:
            rep.ok('routing', key, 'no Cholesky route: every system goes through pivoted LU')
        else:
            pd = ('call', U + 'is_positive_definite', (a,), None)
            ok = all(any(cn == pd and v is True for cn, v in f.guards().get(c.bb, [])) and c.args[0] == a for c in fact)
            # refuted in the read form only: a factorisation of the argument itself that no test involving a call of the crate or a local
            # dominates (nothing could be the predicate), or one dominated by the predicate with the wrong polarity / on another argument
            definite = False
            for c in fact:
                gs = f.guards().get(c.bb, [])
                if any(cn == pd and v is True for cn, v in gs) and c.args[0] == a:
                    continue
                if any(cn == pd and v is False for cn, v in gs) and not any(cn == pd and v is True for cn, v in gs):
                    definite = True
                elif any(tag(cn) == 'call' and cn[1] == U + 'is_positive_definite' and tag(cn[2][0]) == 'arg' and cn[2][0] != c.args[0] and tag(c.args[0]) == 'arg' for cn, v in gs):
                    definite = True
                elif c.args[0] == a and not any(tag(z) in ('local', 'phi', 'upvar') or (tag(z) == 'call' and z[1] in pdb.bodies) for cn, v in gs for z in subterms(cn)):
                    definite = True
            if ok:
                rep.ok('routing', key, 'Cholesky factorisation of `a` only under is_positive_definite(a)')
            elif definite:
                rep.viol('routing', key, 'a Cholesky factorisation is attempted without the positive-definiteness predicate on the same matrix', site_of(fact[0].span))
            else:
                rep.undecided('routing', key, 'the test that guards the Cholesky factorisation is not the call is_positive_definite(a) in a read form '
                              '(a named local, a match, a helper): not read', site_of(fact[0].span), proof=False)
        # ---- D2
        key = 'routing:%s:fallback' % name
        if not fact:
            rep.ok('routing', key, 'vacuous: no Cholesky route')
        elif not lus or not lusolve:
            rep.viol('routing', key, 'no pivoted LU route exists in %s' % name, site_of(f.body))
        else:
            problems = []
            for c in fact:
                if c.path.endswith('::cholesky'):
                    problems.append('the panicking/unchecked `cholesky` is used: a symmetric indefinite nonsingular matrix with positive diagonal '
                                    '(e.g. [[1,2],[2,1]]) passes the routing predicate and then has no answer (NaN or panic) although LU solves it')
            for c in csolve:
                l = c.args[0]
                # the factor must come from a successful try_cholesky: (X as Some).0 with guard discr(X) == 1
                src = l
                while tag(src) == 'field':
                    src = src[1]
                if tag(src) == 'downcast':
                    x = src[1]
                    gs = f.guards().get(c.bb, [])
                    if not any(tag(cn) == 'discr' and cn[1] == x and v == ('eq', src[2]) for cn, v in gs):
                        problems.append('cholesky_solve uses a factor that is not tested for success')
                    # the None edge reaches lu
                    none_reach = False
                    for s, d, cn, v in f.edge_conditions():
                        if tag(cn) == 'discr' and cn[1] == x and (v == ('eq', 0) or (isinstance(v, tuple) and v[0] == 'ne' and src[2] in v[1])):
                            if any(f.cfg.can_reach(d, lc.bb) for lc in lus):
                                none_reach = True
                    if not none_reach:
                        problems.append('a failed factorisation does not reach the LU route')
                    vals = [s.value for s in f.stores() if s.target == x] or [x]
                    if not any(tag(v) == 'call' and v[1] == D + 'cholesky::try_cholesky' for v in vals):
                        problems.append('the tested value is not the result of try_cholesky')
                elif tag(src) == 'call' and src[1].endswith('::cholesky'):
                    pass   # already reported above
                else:
                    problems.append('origin of the Cholesky factor not understood: %s' % show(l)[:60])
            if problems:
                rep.viol('routing', key, '%s: %s' % (name, '; '.join(sorted(set(problems)))), site_of(f.body))
            else:
                rep.ok('routing', key, 'Cholesky solve only after try_cholesky succeeded; a non-positive pivot falls back to pivoted LU')
        # both routes use the same operands
        key = 'routing:%s:operands' % name
        ok = all(c.args[0] == a for c in lus)
        if not lus:
            # the factorisation may live in a helper (`Factors::of(a)`): which matrix it receives there is not read by this rule
            rep.undecided('routing', key, 'no LU factorisation call in the body of %s itself (route kept in a helper?)' % name, site_of(f.body), proof=False)
        else:
            if ok:
                rep.ok('routing', key, 'LU route factorises the same matrix `a`')
            elif any(tag(c.args[0]) == 'arg' and c.args[0] != a for c in lus):
                rep.viol('routing', key, 'LU route does not factorise `a`', site_of(f.body))
            else:
                # a copy, a view or a value built from `a`: which matrix it holds is not read by this rule
                rep.undecided('routing', key, 'LU route factorises %s, not the argument itself: not read' % [show(c.args[0])[:60] for c in lus if c.args[0] != a][:2],
                              site_of(f.body), proof=False)
    # every value the slice-level solvers return comes out of one of the two factorisation routes: a return site that computes the solution by
    # other means (a closed form for small systems, say) is a third route with its own rounding behaviour -- routing independence and the
    # residual bound are then not inherited from Cholesky / pivoted LU
    for name in ('solve', 'solve_sys'):
        k = U + name
        f = prog.func(k)
        if f is None:
            continue
        key = 'routing:%s:sources' % name
        a = ('arg', 1, f.names.get(1))
        b = ('arg', 2, f.names.get(2))
        calls = _calls_with_closures(prog, f)
        route_calls = [c for c in calls if c.path in (D + 'cholesky::cholesky_solve', D + 'lu::lu_solve')]
        sites = [(f.rvalue_term(d[3], d[1]) if d[0] == 'assign' else f.call_term(d[2], d[1]), d[1]) for d in f._defs.get(0, [])]
        direct = []
        for v, bb in sites:
            if any(tag(z) == 'call' and z[1] in (D + 'cholesky::cholesky_solve', D + 'lu::lu_solve') for z in subterms(v)):
                continue
            if tag(v) == 'call' and short(v[1]) in ('box_assume_init_into_vec_unsafe', 'into_vec'):
                # `vec![e0, e1, ..]`: the literal's elements are stored into the freshly boxed array the call wraps
                lits = [st.value for st in f.stores() if tag(st.value) == 'agg' and st.value[1] == 'array' and
                        any(z == v[2][0] for z in subterms(st.target))] if v[2] else []
                if lits:
                    v = lits[0]
            if tag(v) == 'local' or any(tag(z) == 'local' for z in subterms(v)):
                continue          # a buffer filled elsewhere (the solutions vector): covered by the layout rule
            reads_a = any(tag(z) == 'index' and z[1] == a for z in subterms(v))
            reads_b = any(tag(z) == 'index' and z[1] == b for z in subterms(v))
            arith = any(tag(z) == 'bin' and z[1] in ('Div', 'Mul', 'Sub') and len(z) > 4 and z[4] == 'f64' for z in subterms(v))
            if reads_a and reads_b and arith:
                direct.append((v, bb))
        if direct:
            rep.viol('routing', key, '%s has a return site that computes the solution directly from the entries of a and b (%s ..) without Cholesky or pivoted LU: '
                     'a third route with its own rounding error (no pivoting), so the answer depends on which route a system takes' % (name, show(direct[0][0])[:70]),
                     site_of(f.body))
        elif route_calls:
            rep.ok('routing', key, 'every returned solution comes from cholesky_solve / lu_solve')
        else:
            rep.undecided('routing', key, 'no factorisation route call found', site_of(f.body), proof=False)
    rep.floor('routing', 8, 'solve, solve_sys x (predicate, fallback, operands, sources)')
    # the fallback to pivoted LU hangs on try_cholesky answering None for every pivot that is not positive -- zero and NaN included: a test
    # written `pivot < 0` lets 0/0 = NaN into the factor and the slice solvers return NaN where LU has the answer (C11's rule, same body)
    from . import c11
    c11.pivot_guard(prog, rep, (D + 'cholesky::try_cholesky',))
    rep.floor('pivot-guard', 1, 'try_cholesky')

    # ------------------------------------------------------------------ Matrix solvers route through Matrix::lu only
    for tr in (V, M):
        k = '<%s as linalg::array::matrix::Solve<%s>>::solve' % (M, tr)
        f = prog.func(k)
        key = 'routing:Matrix::solve<%s>' % short(tr)
        if f is None:
            rep.viol('routing', key, 'method disappeared')
            continue
        rep.touch(k)
        me = ('arg', 1, f.names.get(1))
        sysm = ('arg', 2, f.names.get(2))
        rets = f.return_values()
        ok = False
        if len(rets) == 1 and tag(rets[0]) == 'call' and short(rets[0][1]) == 'lu_solve':
            lu_, piv, s_ = rets[0][2]
            ok = tag(lu_) == 'field' and lu_[2] == 0 and tag(piv) == 'field' and piv[2] == 1 and lu_[1] == piv[1] and tag(lu_[1]) == 'call' and \
                lu_[1][1] == M + '::lu' and lu_[1][2] == (me,) and s_ == sysm
        read = len(rets) == 1 and tag(rets[0]) == 'call' and short(rets[0][1]) == 'lu_solve' and len(rets[0][2]) == 3
        if ok:
            rep.ok('routing', key, 'solve = lu() then lu_solve(pivots, system)')
        elif read:
            rep.viol('routing', key, 'solve is %s' % [show(r)[:100] for r in rets], site_of(f.body))
        else:
            rep.undecided('routing', key, 'solve is not a single lu_solve call on the factors of self.lu() (%s): not read' % [show(r)[:80] for r in rets], site_of(f.body), proof=False)

    # ------------------------------------------------------------------ D3 layout (layout algebra, cva/layout.py)
    from ..layout import LayoutEval, Mismatch, Unrecognised

    def run_layout(f, key, sizes, base, describe):
        ev = LayoutEval(f, sizes, base)
        try:
            exts = [c for c in f.calls() if c.path and short(c.path) in ('extend_from_slice', 'extend')]
            if not exts:
                raise Unrecognised('no solution buffer filled by extend')
            for c in exts:
                buf = c.args[0]
                v = c.args[1]
                while tag(v) == 'call' and short(v[1]) in ('deref', 'into_iter', 'iter', 'as_slice', 'to_vec', 'data', 'clone') and v[2]:
                    v = v[2][0]
                if tag(v) == 'field' and tag(v[1]) == 'call':
                    v = v[1]
                if tag(v) != 'call' or not v[2]:
                    raise Unrecognised('appended value %s' % show(v)[:60])
                x = ev.row_of(v[2][-1], None)
                lay = (x[0], ('comp', 'N'))
                if buf in ev.base and ev.base[buf] != lay:
                    raise Mismatch('solutions are appended in two different orders')
                ev.base[buf] = lay
                if x[1] != ('comp', 'N'):
                    raise Mismatch('a solve is given a row of %s (%s entries), not one right-hand side' % (x[1][0], x[1][1]))
            want = (('comp', 'N'), ('sys', 'S'))
            got = []
            for rv in f.return_values():
                if tag(rv) == 'call' and short(rv[1]) == 'new' and not rv[2]:
                    continue          # empty result for zero right-hand sides
                got.append(ev.lay(rv))
            if not got:
                raise Unrecognised('no result value')
            for g in got:
                if g != want:
                    raise Mismatch('the result is laid out as %s x %s (%s x %s); it must be component x system (N x S): solution j must be column j of X' % (
                        g[0][0], g[1][0], g[0][1], g[1][1]))
            rep.ok('layout', key, describe)
        except Mismatch as e:
            rep.viol('layout', key, str(e), site_of(f.body))
        except Unrecognised as e:
            rep.undecided('layout', key, 'layout idiom outside the algebra: %s' % e, site_of(f.body), proof=False)

    f = prog.func(U + 'solve_sys')
    if f is not None:
        a = ('arg', 1, f.names.get(1))
        b = ('arg', 2, f.names.get(2))
        n_t = ('call', 'std::result::Result::<T, E>::unwrap', (('call', U + 'is_square', (a,), None),), None)

        def is_n(t):
            return t == n_t

        def is_s(t):
            if tag(t) == 'call' and short(t[1]) == 'unwrap' and t[2] and tag(t[2][0]) == 'call' and t[2][0][1] == U + 'is_matrix' and t[2][0][2][0] == b and is_n(strip_casts(t[2][0][2][1])):
                return True
            return tag(t) == 'bin' and t[1] == 'Div' and t[2] == ('len', b) and is_n(strip_casts(t[3]))
        run_layout(f, 'layout:solve_sys', [(is_n, 'N'), (is_s, 'S')], {b: (('comp', 'N'), ('sys', 'S'))},
                   'B (N x S) -> rows = right-hand sides, each solved and appended in order, result converted back to N x S')
    for meth in ('cholesky_solve', 'lu_solve'):
        k = '<%s as linalg::array::matrix::Solve<%s>>::%s' % (M, M, meth)
        f = prog.func(k)
        key = 'layout:Matrix::%s<Matrix>' % meth
        if f is None:
            rep.viol('layout', key, 'method disappeared')
            continue
        rep.touch(k)
        sysm = f.body.arg_count
        sysm = ('arg', sysm, f.names.get(sysm))
        run_layout(f, key, [(lambda t, sysm=sysm: t == ('field', sysm, 1, 'usize'), 'N'), (lambda t, sysm=sysm: t == ('field', sysm, 2, 'usize'), 'S')],
                   {sysm: (('comp', 'N'), ('sys', 'S'))}, 'column j solved with the Vector form, stacked as rows (S x N), transposed back to N x S')
    rep.floor('layout', 3, 'solve_sys, Matrix cholesky_solve / lu_solve for Matrix')

    # ------------------------------------------------------------------ D4 siblings (shared engine with C11)
    from ..sib import Skeleton, diff
    for name, ka, kb, ra, rb, sa, sb in c11.PAIRS[:4]:
        key = 'sibling:%s' % name
        fa, fb = prog.func(ka), prog.func(kb)
        if fa is None or fb is None:
            rep.viol('sibling', key, 'sibling disappeared')
            continue
        rep.touch(ka, kb)
        la = c11.algorithmic(Skeleton(prog, fa, ra, [(sa, 'N')]).lines())
        lb = c11.algorithmic(Skeleton(prog, fb, rb, [(sb, 'N')]).lines())
        oa, ob = diff(la, lb)
        if not oa and not ob and la:
            rep.ok('sibling', key, '%d abstract statements agree' % len(la))
        elif not la or c11.idiom_signature(la) != c11.idiom_signature(lb):
            rep.undecided('sibling', key, 'the two implementations use different loop idioms: not comparable statement by statement', site_of(fb.body), proof=False)
        else:
            rep.viol('sibling', key, 'slice-level and Matrix-level %s differ: only slice: %s | only Matrix: %s' % (name, '; '.join(oa)[:300] or '-', '; '.join(ob)[:300] or '-'), site_of(fb.body))
    rep.floor('sibling', 4, 'lu, lu_solve, forward/backward substitution')

    # ------------------------------------------------------------------ D6 inverse = solve(I)
    f = prog.func(U + 'invert_matrix')
    key = 'inverse:invert_matrix'
    if f is not None:
        rep.touch(f.body.key)
        mtx = ('arg', 1, f.names.get(1))
        rets = f.return_values()
        ok = False
        if len(rets) == 1 and tag(rets[0]) == 'call' and rets[0][1] == U + 'solve_sys' and rets[0][2][0] == mtx:
            rhs = rets[0][2][1]
            if tag(rhs) == 'call' and rhs[1] == U + 'diag_matrix':
                ones = rhs[2][0]
                n = f.call_term  # noqa
                ok = tag(ones) == 'call' and ones[1] == 'std::vec::from_elem' and tag(ones[2][0]) == 'const' and ones[2][0][2] == 1.0 and \
                    tag(ones[2][1]) == 'call' and short(ones[2][1][1]) == 'unwrap' and ones[2][1][2][0][1] == U + 'is_square' and ones[2][1][2][0][2] == (mtx,)
        # refuted only in the read form: solve_sys(_, diag_matrix(vec![c; n])) written in this body
        read = len(rets) == 1 and tag(rets[0]) == 'call' and rets[0][1] == U + 'solve_sys' and tag(rets[0][2][1]) == 'call' and (
            (rets[0][2][1][1] == U + 'diag_matrix' and tag(rets[0][2][1][2][0]) == 'call' and rets[0][2][1][2][0][1] == 'std::vec::from_elem')
            or (rets[0][2][1][1] == 'std::vec::from_elem' and not any(tag(s_.target) != 'local' for s_ in f.stores())
                and not any(any(str(ty).startswith('&mut') for ty in (c_.argtys or ())) for c_ in f.calls())))
        # (a constant-filled right-hand side that is never written afterwards is not the identity for order >= 2)
        if ok:
            rep.ok('inverse', key, 'invert_matrix(a) = solve_sys(a, diag_matrix([1; n])), n = order of a')
        elif read:
            rep.viol('inverse', key, 'invert_matrix is %s' % [show(r)[:120] for r in rets], site_of(f.body))
        else:
            rep.undecided('inverse', key, 'invert_matrix is not solve_sys(a, diag_matrix(vec![1.; n])) written in its body (%s): not read' % [show(r)[:80] for r in rets],
                          site_of(f.body), proof=False)
    f = prog.func(M + '::inv')
    key = 'inverse:Matrix::inv'
    if f is not None:
        rep.touch(f.body.key)
        me = ('arg', 1, f.names.get(1))
        rets = f.return_values()
        ok = False
        if len(rets) == 1 and tag(rets[0]) == 'call' and short(rets[0][1]) == 'solve' and 'Solve<%s>' % M in rets[0][1] and rets[0][2][0] == me:
            rhs = rets[0][2][1]
            ok = tag(rhs) == 'call' and rhs[1] == M + '::eye' and rhs[2][0] == ('field', me, 1, 'usize')
            sq = any(tag(cn) == 'call' and cn[1] == M + '::is_square' and v is True for gl in f.guards().values() for cn, v in gl)
            ok = ok and sq
        read = len(rets) == 1 and tag(rets[0]) == 'call' and short(rets[0][1]) == 'solve' and len(rets[0][2]) == 2 and tag(rets[0][2][1]) == 'call' \
            and rets[0][2][1][1] == M + '::eye' and not any(c.path and c.path in pdb.bodies and short(c.path) not in ('solve', 'eye', 'is_square') for c in f.calls())
        if ok:
            rep.ok('inverse', key, 'inv() = solve(eye(nrows)) under assert!(is_square())')
        elif read:
            rep.viol('inverse', key, 'Matrix::inv is %s' % [show(r)[:120] for r in rets], site_of(f.body))
        else:
            rep.undecided('inverse', key, 'Matrix::inv is not self.solve(Matrix::eye(..)) written in its body (%s): not read' % [show(r)[:80] for r in rets],
                          site_of(f.body), proof=False)
    rep.floor('inverse', 2, 'invert_matrix, Matrix::inv')
    # ------------------------------------------------------------------ D7 tolerance of the routing predicate
    # Cholesky reads one triangle only; a symmetry test with tolerance T therefore replaces A by a matrix up to T away.
    from ..tol import check_tolerances
    check_tolerances(prog, rep, 'routing-tolerance', [U + 'is_positive_definite'])
    rep.floor('routing-tolerance', 1, 'symmetry test behind is_positive_definite')

    # ------------------------------------------------------------------ D8 no scale-dependent threshold inside a solver
    # "every nonsingular A": a solver that branches on |x| < constant treats well-conditioned but small-scaled systems differently.
    from ..tol import check_scale_guards
    solvers = [k for k in pdb.bodies if k.startswith('<%s as linalg::array::matrix::Solve<' % M)] + [
        M + '::inv', M + '::forward_substitution', M + '::backward_substitution', D + 'cholesky::cholesky_solve', D + 'lu::lu_solve',
        D + 'substitution::forward_substitution', D + 'substitution::backward_substitution', U + 'invert_matrix', U + 'solve_sys', U + 'solve']
    # predicates that choose a route inside the slice solvers (a fast path for a matrix "that looks triangular", say) are part of the solver:
    # an absolute threshold there sends c*A and A down different routes
    nfixed = len(solvers)
    work = []
    for name in ('solve', 'solve_sys'):
        f_ = prog.func(U + name)
        if f_ is None:
            continue
        for gl in f_.guards().values():
            for cn, _ in gl:
                for z in subterms(cn):
                    if tag(z) == 'call' and z[1] in pdb.bodies and pdb.bodies[z[1]].local_ty(0) == 'bool':
                        work.append(z[1])
    while work:
        k_ = work.pop()
        if k_ in solvers:
            continue
        solvers.append(k_)
        g_ = prog.func(k_)
        for c_ in (g_.calls() if g_ is not None else []):
            if c_.path and c_.path in pdb.bodies and pdb.bodies[c_.path].local_ty(0) == 'bool':
                work.append(c_.path)
    nsg = check_scale_guards(prog, rep, 'solver-threshold', sorted(solvers))
    rep.ok('solver-threshold', 'solver-threshold:scan', '%d solver bodies scanned, %d floating-point branches examined' % (len(solvers), nsg))
    if nfixed < 16:
        rep.viol('solver-threshold', 'solver-threshold:anchors', 'only %d of 16 solver bodies found' % nfixed)
    return {}
