"""C16 — linear interpolation reproduces knots and honours the out-of-range mode.

D1 dispatch reachability: every branch outcome that decides between in-range / left / right handling must be
   satisfiable under the loop-derived bounds of the bracketing index; every result site (push / panic) under the
   mode dispatch must be reachable.
D2 no definitely-out-of-bounds element access.
D3 the checked variant's length assert and sortedness loop dominate the call of the unchecked variant.
D4 the in-range value is r*y[k] + (1-r)*y[k-1] with r = (t - x[k-1])/(x[k] - x[k-1]) for one common k.
D5 each mode has a handler for the left and for the right side: Fill pushes both fill values, Extrapolate has two
   slope formulas anchored at the first / last knot.
Not decided: exactness at knots to the last bit."""
from ..ir import tag, show, short, subterms, is_panic_path
from ..poly import poly, psub, pconst, peq, padd, pshow
from ..bounds import counter_bounds, definitely_negative
from ..framework import site_of

LEVEL = 'other'
EXPLANATION = (
    'Trip-count abstract interpretation of the bracketing scan: the index counter is bounded by its initial value plus the trip count '
    'of the scan loop (as a polynomial in len(x)); a comparison of the counter that is unsatisfiable under this bound makes every block it '
    'dominates dead, which is reported when such a block holds a mode handler. Element accesses at index >= len are reported as definite '
    'out-of-bounds. The checked variant must reach the unchecked one only through its length assert and its adjacent-pair ordering loop; '
    'the in-range push is matched against the convex-combination form with one common k.')

K = 'functions::interpolate::interp1d_linear_unchecked'
KC = 'functions::interpolate::interp1d_linear'


def cond_status(c, v, bounds):
    """is (cond c == v) satisfiable given counter bounds? returns False if provably unsatisfiable else True"""
    if tag(c) != 'bin' or c[1] not in ('Gt', 'Ge', 'Lt', 'Le', 'Eq', 'Ne') or not isinstance(v, bool):
        return True
    op, a, b = c[1], c[2], c[3]
    for x, y, o in ((a, b, op), (b, a, {'Gt': 'Lt', 'Ge': 'Le', 'Lt': 'Gt', 'Le': 'Ge', 'Eq': 'Eq', 'Ne': 'Ne'}[op])):
        if x in bounds:
            lo, hi = bounds[x]
            py = poly(y)
            # x in [lo, hi]
            if not v:
                o = {'Gt': 'Le', 'Ge': 'Lt', 'Lt': 'Ge', 'Le': 'Gt', 'Eq': 'Ne', 'Ne': 'Eq'}[o]
            if o == 'Gt' and (definitely_negative(psub(hi, py)) or pconst(psub(hi, py)) == 0):
                return False          # max(x) <= y  ->  x > y impossible
            if o == 'Ge' and definitely_negative(psub(hi, py)):
                return False
            if o == 'Lt' and (definitely_negative(psub(py, lo)) or pconst(psub(py, lo)) == 0):
                return False
            if o == 'Le' and definitely_negative(psub(py, lo)):
                return False
            if o == 'Eq' and (definitely_negative(psub(hi, py)) or definitely_negative(psub(py, lo))):
                return False
    return True


def run(prog, rep, tier, repo):
    pdb = prog.pdb
    f = prog.func(K)
    if f is None:
        rep.viol('dispatch-reachable', 'dispatch-reachable:' + K, 'function disappeared')
        return {}
    rep.touch(K)
    # the rules below read one body: a scan for the bracket, tests on its index, and a push per outcome.  When the body pushes nothing into the
    # value it returns (the work moved into helpers behind `extend(map(..))`), none of them is read: every instance is NOT-DECIDED, no floor
    # counts idiom sites that are simply elsewhere
    _rets = f.return_values()
    _out = _rets[0] if _rets else None
    _pushes0 = [c_ for c_ in f.calls() if c_.path and short(c_.path) == 'push' and c_.args and c_.args[0] == _out]
    _pvals0 = []
    for c_ in _pushes0:
        v_ = c_.args[1]
        defs_ = [st.value for st in f.stores() if st.target == v_] if tag(v_) == 'local' else []
        _pvals0 += [prog.inline(d_) for d_ in defs_] or [prog.inline(v_)]
    UNREAD = not _pushes0 or any(tag(z) == 'call' and z[1] in pdb.bodies and pdb.bodies[z[1]].kind != 'closure' and short(z[1]) not in ('index', 'index_mut', 'len')
                                 for v_ in _pvals0 for z in subterms(v_))

    def floor_(rule, n, what):
        if UNREAD:
            have = sum(1 for o in rep.obs if o.rule == rule)
            for i_ in range(have, n):
                rep.undecided(rule, '%s:%s:unread-%d' % (rule, short(K), i_), 'results are not assembled by pushes in %s itself: %s not read' % (short(K), what), site_of(f.body), proof=False)
        rep.floor(rule, n, what)
    x = ('arg', 1, f.names.get(1))
    y = ('arg', 2, f.names.get(2))
    tgt = ('arg', 3, f.names.get(3))
    mode = ('arg', 4, f.names.get(4))
    bounds = counter_bounds(f)
    # a bracket index computed by partition_point (directly or in a straight-line helper) over a leading part of x lies in 0..=len(part)
    pp_sites = []
    for c_ in f.calls():
        if not c_.path:
            continue
        ct = ('call', c_.path, tuple(c_.args), None)
        it = ct if short(c_.path) == 'partition_point' else (prog.inline(ct) if c_.path in pdb.bodies else None)
        if it is None or tag(it) != 'call' or short(it[1]) != 'partition_point' or len(it[2]) != 2:
            continue
        vw = _view_of(it[2][0], x)
        if vw is None or vw[0] != 0:
            continue
        # the term under which conditions mention the index: the call itself, or the local it is stored into
        holders = [st.target for st in f.stores() if st.value == ct and tag(st.target) == 'local']
        for h_ in [ct] + holders:
            if h_ not in bounds:
                bounds[h_] = ({}, vw[1])
        pp_sites.append((ct, it, vw, holders))
        if c_.path in pdb.bodies:
            rep.touch(c_.path)
    # a bracket index returned by a helper that counts in a loop of its own (`while idx < n - 1 && !(x[idx] > t) { idx += 1 }`): the helper's
    # counter bounds, with its parameters replaced by the arguments, bound the call's value here
    from ..structs import subst as _subst
    for c_ in f.calls():
        if not c_.path or c_.path not in pdb.bodies or c_.path == K:
            continue
        h_ = prog.func(c_.path)
        if h_ is None:
            continue
        rv_ = h_.return_values()
        hb_ = counter_bounds(h_)
        if len(rv_) != 1 or rv_[0] not in hb_:
            continue
        mp_ = {('arg', i_ + 1, h_.names.get(i_ + 1)): a_ for i_, a_ in enumerate(c_.args)}

        def tr_poly(pl, mp_=mp_):
            # polynomials are dicts monomial -> coefficient over term atoms: translate the atoms
            out = {}
            for mono, cf in pl.items():
                mono2 = tuple(sorted((_subst(a_, mp_) for a_ in mono), key=repr))
                out[mono2] = out.get(mono2, 0) + cf
            return out
        lo_, hi_ = hb_[rv_[0]]
        ct = ('call', c_.path, tuple(c_.args), None)
        holders = [st.target for st in f.stores() if st.value == ct and tag(st.target) == 'local']
        for h2 in [ct] + holders:
            if h2 not in bounds:
                bounds[h2] = (tr_poly(lo_), tr_poly(hi_))
        rep.touch(c_.path)
    for loc, (lo, hi) in bounds.items():
        from ..poly import pshow
        rep.info('counter', 'counter:%s' % show(loc), '%s in [%s, %s]' % (show(loc), pshow(lo, show), pshow(hi, show)))
        rep.sample('counter %s ranges over [%s, %s]' % (show(loc), pshow(lo, show), pshow(hi, show)))

    # ------------------------------------------------------------------ D1 edges
    cfg = f.cfg
    dead_edges = []
    n_edges = 0
    for s, d, c, v in f.edge_conditions():
        if not any(z in bounds for z in subterms(c)):
            continue
        if f.body.blocks[s].term.kind != 'switch':
            continue
        n_edges += 1
        key = 'dispatch-reachable:%s:%s is %s' % (short(K), show(c), v)
        if cond_status(c, v, bounds):
            rep.ok('dispatch-reachable', key, 'satisfiable under the counter bounds')
        else:
            dead_edges.append((s, d, c, v))
            loc = [z for z in subterms(c) if z in bounds][0]
            from ..poly import pshow
            rep.viol('dispatch-reachable', key, 'the branch `%s` is %s can never be taken: %s is at most %s after the bracketing scan. '
                     'Targets beyond the last abscissa are therefore never recognised as out of range (the fill / panic / right-extrapolation '
                     'handlers behind this test are dead)' % (show(c), v, show(loc), pshow(bounds[loc][1], show)), site_of(f.body.blocks[s].term.span))
    if not bounds and not UNREAD:
        # no bracket counter with readable bounds (the search lives in a helper returning a tuple, `take_while(..).count()`, ..): the branch
        # outcomes on the index are not read
        for i_ in range(2):
            rep.undecided('dispatch-reachable', 'dispatch-reachable:%s:no-counter-%d' % (short(K), i_), 'no bracketing counter with readable bounds in %s' % short(K),
                          site_of(f.body), proof=False)
    floor_('dispatch-reachable', 2, 'branch outcomes on the bracketing index')
    dead_blocks = set()
    for s, d, c, v in dead_edges:
        # blocks reachable only through the dead edge: dominated by d when d has the single predecessor s
        if cfg.pred[d] == [s]:
            for b in cfg.nodes:
                if cfg.dominates(d, b):
                    dead_blocks.add(b)

    # ------------------------------------------------------------------ D5 handlers
    rets = f.return_values()
    out = rets[0] if rets else None
    raw_pushes = [c for c in f.calls() if c.path and short(c.path) == 'push' and c.args and c.args[0] == out]

    class Site:
        # a result site: the value that ends up in the output at one program point.  A push of a multi-definition local
        # (`let value = match .. {..}; out.push(value)`) contributes one site per definition of that local
        def __init__(self, v, bb, span):
            self.args = (out, v)
            self.bb = bb
            self.span = span
    pushes = []

    for c in raw_pushes:
        v = c.args[1]
        defs = [st for st in f.stores() if st.target == v] if tag(v) == 'local' else []
        if defs:
            for st in defs:
                pushes.append(Site(prog.inline(st.value), st.bb, st.span))     # formulas kept in straight-line helpers are read through
        else:
            pushes.append(Site(prog.inline(v), c.bb, c.span))
    fills = {}
    extrap = []
    inrange = []
    nlen = poly(('len', x))

    def fixed_knot(ixp):
        # a knot index fixed relative to the table: a constant (from the front) or len(x) - constant (from the back)
        return pconst(ixp) is not None or pconst(psub(ixp, nlen)) is not None
    for c in pushes:
        v = c.args[1]
        if tag(v) == 'field' and tag(v[1]) == 'downcast' and v[1][1] == mode:
            fills[v[2]] = c
            continue
        knots = [poly(z[2]) for z in subterms(v) if tag(z) == 'index' and z[1] in (x, y)]
        if knots and all(fixed_knot(p_) for p_ in knots):
            extrap.append(c)          # a formula over knots at fixed positions: an extrapolation handler
        elif knots:
            inrange.append(c)         # reads knots at a computed position: the bracketed (in-range) formula
        elif any(tag(z) == 'local' or z in bounds for z in subterms(v)):
            inrange.append(c)
        else:
            extrap.append(c)
    panics = [c for c in f.calls() if c.path and is_panic_path(c.path) and 'extrapolation mode is panic' in ''.join(str(z) for a in c.args for z in subterms(a))]

    def live(c):
        return c.bb not in dead_blocks
    sites = [('fill-left', fills.get(0)), ('fill-right', fills.get(1)), ('panic-mode', panics[0] if panics else None)]
    ex_sorted = sorted(extrap, key=lambda c: c.bb)
    sites += [('extrapolate-%d' % i, c) for i, c in enumerate(ex_sorted)]
    if len(ex_sorted) < 2:
        sites.append(('extrapolate-1', None))
    sites.append(('in-range', inrange[0] if inrange else None))
    for name, c in sites:
        key = 'handler:%s:%s' % (short(K), name)
        if c is None and any(tag(z) == 'call' and z[1] in pdb.bodies and pdb.bodies[z[1]].kind != 'closure' and short(z[1]) not in ('index', 'index_mut', 'len')
                             for c_ in pushes for z in subterms(c_.args[1])):
            rep.undecided('handler', key, 'a pushed value is computed by an in-crate helper: the %s site is not read' % name, site_of(f.body), proof=False)
        elif c is None and not raw_pushes:
            # the result is not assembled by pushes in this body (`extend(map(..))` over helpers, say): the sites are not read
            rep.undecided('handler', key, 'results are not pushed in the body of %s itself: %s site not read' % (short(K), name), site_of(f.body), proof=False)
        elif c is None:
            rep.viol('handler', key, 'no %s result site found' % name, site_of(f.body))
        elif live(c):
            rep.ok('handler', key, 'reachable result site at bb%d' % c.bb)
        else:
            rep.viol('handler', key, 'the %s handler (bb%d) is only reachable through a branch that can never be taken' % (name, c.bb), site_of(c.span))
    floor_('handler', 6, 'fill x2, panic, extrapolate x2, in-range')

    # ------------------------------------------------------------------ D2 definite OOB
    n_acc = 0
    seen = set()
    for bb in cfg.nodes:
        blk = f.body.blocks[bb]
        terms = []
        for s in blk.stmts:
            if s.kind == 'assign':
                terms.append(f.rvalue_term(s.rv, bb))
        if blk.term.kind == 'call':
            terms += [f.operand_term(a) for a in blk.term.args]
        terms += [c_.args[1] for c_ in pushes if c_.bb == bb]          # result values with helper calls read through
        for t in terms:
            for z in subterms(t):
                if tag(z) == 'index' and tag(z[1]) == 'arg' and (z, ) not in seen:
                    seen.add((z,))
                    n_acc += 1
                    d = psub(poly(z[2]), poly(('len', z[1])))
                    key = 'oob:%s:%s' % (short(K), show(z))
                    c = pconst(d)
                    if c is not None and c >= 0:
                        rep.viol('oob', key, 'element access %s is out of bounds for every input (index = len %+d)' % (show(z), c), site_of(f.body))
                    else:
                        rep.ok('oob', key, 'not definitely out of bounds')
    floor_('oob', 8, 'element accesses on the parameters')

    # ------------------------------------------------------------------ D4 convex combination
    key = 'convex:%s' % short(K)
    if not inrange:
        (rep.undecided if UNREAD else rep.viol)('convex', key, 'no in-range push found', site_of(f.body), **({'proof': False} if UNREAD else {}))
    else:
        v = inrange[0].args[1]
        ok, why = _match_convex(v, x, y, tgt)
        if ok:
            rep.ok('convex', key, 'in-range value = r*y[k] + (1-r)*y[k-1], r = (t - x[k-1])/(x[k] - x[k-1]), k = %s' % why)
        else:
            rep.viol('convex', key, 'in-range value %s is not the convex combination of the two neighbouring knots (%s)' % (show(v)[:200], why), site_of(inrange[0].span))
    floor_('convex', 1, 'in-range formula')
    # extrapolation formulas anchored at first / last segment
    for i, c in enumerate(ex_sorted[:2]):
        key = 'extrapolate-anchor:%s:%d' % (short(K), i)
        idxs = sorted({show(z[2]) for z in subterms(c.args[1]) if tag(z) == 'index' and z[1] in (x, y)})
        polys = [poly(z[2]) for z in subterms(c.args[1]) if tag(z) == 'index' and z[1] in (x, y)]
        n = poly(('len', x))
        left = all(pconst(p) in (0, 1) for p in polys)
        right = all(pconst(psub(p, n)) in (-1, -2) for p in polys)
        if not polys:
            rep.undecided('extrapolate-anchor', key, 'extrapolation value %s reads no knot directly (formula not read)' % show(c.args[1])[:60], site_of(c.span), proof=False)
        elif left or right:
            rep.ok('extrapolate-anchor', key, '%s segment: indices %s' % ('first' if left else 'last', idxs))
        else:
            rep.viol('extrapolate-anchor', key, 'extrapolation formula uses knots %s: not the first (0,1) nor the last (n-2,n-1) segment' % idxs, site_of(c.span))
    if len(ex_sorted) >= 2:
        kinds = []
        for c in ex_sorted[:2]:
            polys = [poly(z[2]) for z in subterms(c.args[1]) if tag(z) == 'index' and z[1] in (x, y)]
            kinds.append('unread' if not polys else 'left' if all(pconst(p) in (0, 1) for p in polys) else 'right')
        key = 'extrapolate-anchor:%s:both-sides' % short(K)
        if 'unread' in kinds:
            rep.undecided('extrapolate-anchor', key, 'an extrapolation value reads no knot directly (formula not read)', site_of(f.body), proof=False)
        elif set(kinds) == {'left', 'right'}:
            rep.ok('extrapolate-anchor', key, 'one formula per side')
        else:
            rep.viol('extrapolate-anchor', key, 'extrapolation formulas cover sides %s' % kinds, site_of(f.body))
    floor_('extrapolate-anchor', 2, 'left/right extrapolation formulas')

    # ------------------------------------------------------------------ D3 checked variant
    g = prog.func(KC)
    key = 'checked:%s' % short(KC)
    if g is None:
        rep.viol('checked', key, 'checked variant disappeared')
    else:
        rep.touch(KC)
        gx = ('arg', 1, g.names.get(1))
        gy = ('arg', 2, g.names.get(2))
        calls = [c for c in g.calls() if c.path == K]
        problems = []
        undec_checked = []
        if len(calls) != 1:
            problems.append('expected one call of the unchecked variant')
        else:
            c = calls[0]
            gs = g.guards().get(c.bb, [])
            conds = [('bin', 'Eq', ('len', gx), ('len', gy), 'usize'), ('bin', 'Eq', ('len', gy), ('len', gx), 'usize')]
            if not any(cn in conds and v is True for cn, v in gs):
                problems.append('length-equality assert does not dominate the call')
            if tuple(c.args[:3]) != (gx, gy, ('arg', 3, g.names.get(3))):
                problems.append('arguments are not passed through unchanged')
            # sortedness loop
            loops = [li for li in g.loop_info() if li['item'] is not None]
            good = False
            for li in loops:
                it = li['iter']
                if tag(it) != 'range' or not peq(psub(poly(it[2]), poly(it[1])), {(('len', gx),): 1, (): -1}):
                    continue
                i = li['item']
                for s, d, cn, v in g.edge_conditions():
                    if s in li['blocks'] and g.cfg.only_panics_from(d) and isinstance(v, bool):
                        reads = [z for z in subterms(cn) if tag(z) == 'index' and z[1] == gx]
                        ps = sorted(pconst(psub(poly(z[2]), poly(i))) for z in reads if pconst(psub(poly(z[2]), poly(i))) is not None)
                        if ps == [0, 1] and _orders_adjacent(cn, v, gx, i):
                            good = True
                if good and not g.cfg.dominates(li['header'], c.bb):
                    good = False
            if not good:
                # iterator form: the call is dominated by `(0..n-1).any(|i| x[i+1] - x[i] < 0.)` being false (or `.all(ordered)` being true)
                for cn, v in gs:
                    if tag(cn) == 'call' and short(cn[1]) in ('any', 'all') and len(cn[2]) == 2 and tag(cn[2][1]) == 'agg' and cn[2][1][1] == 'closure':
                        it = cn[2][0]
                        while tag(it) == 'call' and short(it[1]) in ('into_iter', 'iter', 'by_ref') and it[2]:
                            it = it[2][0]
                        h = prog.func(cn[2][1][2])
                        caps = cn[2][1][3]
                        if tag(it) == 'range' and peq(psub(poly(it[2]), poly(it[1])), {(('len', gx),): 1, (): -1}) and h is not None and len(h.return_values()) == 1:
                            rv = h.return_values()[0]
                            i_ = ('arg', 2, h.names.get(2))
                            ups = {z: caps[z[1]] for z in subterms(rv) if tag(z) == 'upvar' and z[1] < len(caps)}
                            from ..structs import subst
                            rv2 = subst(rv, ups)
                            reads = [z for z in subterms(rv2) if tag(z) == 'index' and z[1] == gx]
                            ps = sorted(pconst(psub(poly(z[2]), poly(i_))) for z in reads if pconst(psub(poly(z[2]), poly(i_))) is not None)
                            # any(descent) must be false / all(ordered) must be true
                            want_v = (short(cn[1]) == 'any')
                            if ps == [0, 1] and _orders_adjacent(rv2, want_v, gx, i_) and v is (not want_v):
                                good = True
            if not good:
                # zipped views: x[..n-1].iter().zip(&x[1..]).any(|(lo, hi)| hi - lo < 0.) -- the pairs (x[i], x[i+1]) for every i in 0..n-1
                for cn, v in gs:
                    if not (tag(cn) == 'call' and short(cn[1]) in ('any', 'all') and len(cn[2]) == 2 and tag(cn[2][1]) == 'agg' and cn[2][1][1] == 'closure'):
                        continue
                    zp = cn[2][0]
                    if not (tag(zp) == 'call' and short(zp[1]) == 'zip' and len(zp[2]) == 2):
                        continue
                    va, vb = _view_of(zp[2][0], gx), _view_of(zp[2][1], gx)
                    h = prog.func(cn[2][1][2])
                    if va is None or vb is None or h is None or len(h.return_values()) != 1:
                        continue
                    n1 = {(('len', gx),): 1, (): -1}
                    # each view: (offset, length polynomial); the zip has min(lengths) items: every adjacent pair is visited iff both >= len-1
                    full = all(peq(ln, n1) or peq(ln, {(('len', gx),): 1}) for _, ln in (va, vb))
                    i_ = ('pairidx',)
                    pair = ('arg', 2, h.names.get(2))

                    def sub_pair(n, va=va, vb=vb, pair=pair, i_=i_):
                        if tag(n) == 'field' and n[1] == pair and n[2] in (0, 1):
                            o = (va, vb)[n[2]][0]
                            return ('index', gx, ('bin', 'Add', i_, ('const', 'usize', o), 'usize') if o else i_)
                        return n
                    from ..ir import map_term
                    rv2 = map_term(h.return_values()[0], sub_pair)
                    reads = [z for z in subterms(rv2) if tag(z) == 'index' and z[1] == gx]
                    ps = sorted(pconst(psub(poly(z[2]), poly(i_))) for z in reads if pconst(psub(poly(z[2]), poly(i_))) is not None)
                    want_v = (short(cn[1]) == 'any')
                    if ps == [0, 1] and full and _orders_adjacent(rv2, want_v, gx, i_) and v is (not want_v):
                        good = True
                    elif ps == [0, 1] and full and tag(rv2) == 'bin' and isinstance(v, bool):
                        problems.append('the zipped adjacent pairs are compared as %s being %s for the call to proceed: that is not "no descent x[i+1] < x[i]"' % (
                            show(h.return_values()[0])[:60], 'false' if want_v else 'true'))
                    elif ps == [0, 1] and not full:
                        problems.append('the zipped views of x hold %s and %s items: not every adjacent pair x[i], x[i+1] (i in 0..len-1) is compared' % (pshow(va[1], show), pshow(vb[1], show)))
            if not good:
                # pair iteration: x.windows(2) visits every adjacent pair; x.chunks(2) / chunks_exact(2) visits the disjoint pairs (0,1), (2,3), ..
                # and never compares x[1] with x[2]
                for li in loops:
                    it = li['iter']
                    while tag(it) == 'call' and short(it[1]) in ('into_iter', 'iter', 'by_ref') and it[2]:
                        it = it[2][0]
                    if tag(it) == 'call' and short(it[1]) in ('windows', 'chunks', 'chunks_exact') and len(it[2]) == 2 and tag(it[2][1]) == 'const' and it[2][1][2] == 2:
                        src = it[2][0]
                        while tag(src) == 'call' and short(src[1]) in ('deref', 'as_slice') and src[2]:
                            src = src[2][0]
                        if src != gx:
                            continue
                        item = li['item']
                        panics = [(cn, v) for s_, d_, cn, v in g.edge_conditions() if s_ in li['blocks'] and g.cfg.only_panics_from(d_) and isinstance(v, bool)
                                  and any(tag(z) == 'index' and z[1] == item for z in subterms(cn))]
                        if not panics:
                            continue
                        if short(it[1]) == 'windows' and g.cfg.dominates(li['header'], c.bb):
                            good = True
                        elif short(it[1]) in ('chunks', 'chunks_exact'):
                            problems.append('the ordering check walks x.%s(2): the disjoint pairs (x[0],x[1]), (x[2],x[3]), .. -- a descent from an odd to the next even '
                                            'index (x[1] > x[2]) is never seen, so unsorted abscissae are accepted' % short(it[1]))
            if not good and not problems:
                def over_range(cn):
                    it = cn[2][0]
                    while tag(it) == 'call' and short(it[1]) in ('into_iter', 'iter', 'by_ref') and it[2]:
                        it = it[2][0]
                    return tag(it) == 'range'
                # a counting loop / any / all over an index range was read and is not the adjacent-pair check; other iterator shapes are not read
                loopish = any(tag(li['iter']) == 'range' for li in loops) or any(
                    tag(cn) == 'call' and short(cn[1]) in ('any', 'all') and len(cn[2]) == 2 and over_range(cn) for cn, _ in gs)
                if loopish:
                    problems.append('no check over 0..len(x)-1 that panics when x[i+1] < x[i] dominates the call')
                else:
                    undec_checked.append('sortedness validation idiom not read')
        if problems:
            rep.viol('checked', key, '; '.join(problems), site_of(g.body))
        elif undec_checked:
            rep.undecided('checked', key, '; '.join(undec_checked), site_of(g.body), proof=False)
        else:
            rep.ok('checked', key, 'length assert and adjacent-pair ordering check dominate the unchecked call')
    rep.floor('checked', 1, 'interp1d_linear')
    # ------------------------------------------------------------------ D6 bracketing count
    # The bracket index must be the number of knots among x[0..n-1] that are <= the target: then idx == 0 iff tgt < x[0] (a target equal
    # to the first knot is in range) and x[idx-1] <= tgt < x[idx].  Recognised: a counting scan that stops at the first knot > tgt, or
    # partition_point over x[..n-1] with that predicate.
    key = 'bracket:%s' % short(K)
    verdicts = []

    def classify(cn, v, knot_is, tgt_is):
        # returns 'le' when (cn is v) <=> knot <= target, 'lt' when knot < target, None otherwise
        if tag(cn) != 'bin' or cn[4] not in ('f64', 'f32') or not isinstance(v, bool):
            return None
        op, a, b = cn[1], cn[2], cn[3]
        if knot_is(a) and tgt_is(b):
            pass
        elif knot_is(b) and tgt_is(a):
            op = {'Gt': 'Lt', 'Ge': 'Le', 'Lt': 'Gt', 'Le': 'Ge'}.get(op)
        else:
            return None
        # now: knot op target is v
        if (op, v) in (('Le', True), ('Gt', False)):
            return 'le'
        if (op, v) in (('Lt', True), ('Ge', False)):
            return 'lt'
        return 'other'
    # (A) counting scans
    for li in f.loop_info():
        if li['item'] is None:
            continue
        j = li['item']
        incs = [st for st in f.stores() if st.bb in li['blocks'] and tag(st.target) == 'local' and st.value == ('bin', 'Add', st.target, ('const', 'usize', 1), 'usize')]
        if len(incs) != 1:
            continue
        exits = [(cn, v) for s_, d_, cn, v in f.edge_conditions() if s_ in li['blocks'] and d_ not in li['blocks'] and not (tag(cn) == 'discr')]
        for cn, v in exits:
            # leaving means "knot > target"; staying (counting) means its negation
            c = classify(cn, (not v), lambda t: tag(t) == 'index' and t[1] == x and t[2] == j, lambda t: _is_tgt_elem(t, tgt))
            if c is not None:
                verdicts.append(('scan', c, show(cn)[:50], v))
    # (B) partition_point (in this body or in a straight-line helper it calls)
    pp_calls = [(('call', c.path, tuple(c.args), None), None) for c in f.calls() if c.path and short(c.path) == 'partition_point']
    pp_calls += [(it_, vw_) for ct_, it_, vw_, _ in pp_sites if it_ != ct_]
    for it_, vw_ in pp_calls:
        cl_ = it_[2][1]
        if tag(cl_) == 'agg' and cl_[1] == 'closure':
            g = prog.func(cl_[2])
            caps = cl_[3]
            rv = g.return_values()
            xj = ('arg', 2, g.names.get(2))
            if len(rv) == 1:
                def tgt_is(t, caps=caps):
                    if tag(t) == 'upvar' and t[1] < len(caps):
                        return _is_tgt_elem(caps[t[1]], tgt)          # the target element itself is captured (helper called with tgt[i])
                    return tag(t) == 'index' and tag(t[1]) == 'upvar' and t[1][1] < len(caps) and caps[t[1][1]] == tgt
                cl = classify(rv[0], True, lambda t: t == xj or (tag(t) == 'deref' and t[1] == xj), tgt_is)
                verdicts.append(('partition_point', cl or 'other', show(rv[0])[:50], True))
    # the count must leave the last knot out (scan over 0..n-1, partition_point over x[..n-1]): counted over the whole table, a target
    # equal to x[n-1] gives idx == n, and a test of the index against n then classifies the last knot itself as beyond the table
    for ct_, it_, vw_, holders_ in pp_sites:
        if not peq(vw_[1], {(('len', x),): 1}):
            continue
        kind_ = [vd[1] for vd in verdicts if vd[0] == 'partition_point']
        if kind_ != ['le']:
            continue
        nx = ('len', x)
        hits = []
        for s_, d_, cn, v in f.edge_conditions():
            if tag(cn) == 'bin' and cn[1] in ('Eq', 'Ge', 'Ne', 'Lt') and ((cn[2] in [ct_] + holders_ and cn[3] == nx) or (cn[3] in [ct_] + holders_ and cn[2] == nx)):
                hits.append(show(cn)[:70])
        k2 = 'last-knot:%s' % short(K)
        if hits:
            rep.viol('last-knot', k2, 'the bracket index counts the knots <= target over the whole table, so a target equal to the last abscissa x[n-1] gives '
                     'index n; the test `%s` then treats the last knot itself as beyond the table (Panic mode panics, Fill returns the right fill value) '
                     'although the knot is in range' % hits[0], site_of(f.body))
        else:
            rep.undecided('last-knot', k2, 'bracket index counted over the whole table; how index n (target >= x[n-1]) is told from "above" is not read',
                          site_of(f.body), proof=False)
    # (C) (0..n-1).position(|j| x[j] > t).unwrap_or(n-1): the first knot above the target, i.e. the count of leading knots <= target
    for c in f.calls():
        if c.path and short(c.path) == 'position' and len(c.args) == 2 and tag(c.args[1]) == 'agg' and c.args[1][1] == 'closure':
            g = prog.func(c.args[1][2])
            caps = c.args[1][3]
            rv = g.return_values() if g is not None else []
            it = c.args[0]
            while tag(it) == 'call' and short(it[1]) in ('into_iter', 'by_ref') and it[2]:
                it = it[2][0]
            if len(rv) == 1 and tag(it) == 'range' and pconst(poly(it[1])) == 0:
                j_ = ('arg', 2, g.names.get(2))
                from ..structs import subst
                rv2 = subst(rv[0], {z: caps[z[1]] for z in subterms(rv[0]) if tag(z) == 'upvar' and z[1] < len(caps)})
                cl = classify(rv2, False, lambda t: tag(t) == 'index' and t[1] == x and t[2] == j_, lambda t: _is_tgt_elem(t, tgt))
                if cl is not None:
                    verdicts.append(('position', cl, show(rv2)[:50], True))
    if not verdicts:
        rep.undecided('bracket', key, 'no bracketing scan / partition_point recognised', site_of(f.body), proof=False)
    else:
        bad = [vd for vd in verdicts if vd[1] != 'le']
        if bad:
            rep.viol('bracket', key, 'the bracket index counts knots with %s: a target equal to a knot is then bracketed one segment to the left, and a target '
                     'equal to x[0] is treated as out of range (Panic mode panics, Fill returns the left fill value) [%s %s]' % (
                         'x[j] < target' if bad[0][1] == 'lt' else 'a different predicate', bad[0][0], bad[0][2]), site_of(f.body))
        else:
            rep.ok('bracket', key, 'bracket index = #{j < n-1 : x[j] <= target} (%s)' % ', '.join(vd[0] for vd in verdicts))
    floor_('bracket', 1, 'interp1d_linear_unchecked')

    # ------------------------------------------------------------------ D7 range tests are exact
    # A target is out of range exactly when it is < x[0] or > x[n-1].  Every branch that compares a target with a knot must compare the two
    # values themselves: a tolerance band (tgt - x[n-1] > eps*span) hands targets just outside the table to the in-range formula, so Fill
    # returns ~y_last instead of the fill value and Panic does not panic.
    key = 'range-test:%s' % short(K)
    conds = []
    for gl in f.guards().values():
        for cn, v in gl:
            if tag(cn) == 'bin' and len(cn) > 4 and cn[4] in ('f64', 'f32') and cn[1] in ('Lt', 'Le', 'Gt', 'Ge') and cn not in conds:
                has_t = any(_is_tgt_elem(z, tgt) for z in subterms(cn))
                has_x = any(tag(z) == 'index' and z[1] == x for z in subterms(cn))
                if has_t and has_x:
                    conds.append(cn)
    for st in f.stores():
        for z in subterms(st.value):
            if tag(z) == 'bin' and len(z) > 4 and z[4] in ('f64', 'f32') and z[1] in ('Lt', 'Le', 'Gt', 'Ge') and z not in conds:
                if any(_is_tgt_elem(q, tgt) for q in subterms(z)) and any(tag(q) == 'index' and q[1] == x for q in subterms(z)):
                    conds.append(z)
    def plain(t):
        return (tag(t) == 'index' and t[1] in (x, tgt)) or _is_tgt_elem(t, tgt)
    bad = [cn for cn in conds if not (plain(cn[2]) and plain(cn[3]))]
    if not conds:
        rep.undecided('range-test', key, 'no comparison of a target with a knot found', site_of(f.body), proof=False)
    elif bad:
        rep.viol('range-test', key, 'the range test `%s` compares a derived quantity instead of the target with the knot: targets inside the band it opens are treated '
                 'as in range although they lie outside [x[0], x[n-1]] (Fill/Panic modes are not honoured there)' % show(bad[0])[:120], site_of(f.body))
    else:
        rep.ok('range-test', key, '%d comparisons, each of a target element with a knot' % len(conds))
    floor_('range-test', 1, 'interp1d_linear_unchecked')
    # unchecked also asserts lengths
    key = 'checked:%s:len' % short(K)
    conds = [('bin', 'Eq', ('len', x), ('len', y), 'usize'), ('bin', 'Eq', ('len', y), ('len', x), 'usize')]
    if pushes and all(any(cn in conds and v is True for cn, v in f.guards().get(c.bb, [])) for c in pushes):
        rep.ok('checked', key, 'assert_eq!(x.len(), y.len()) dominates every result site')
    else:
        (rep.undecided if UNREAD else rep.viol)('checked', key, 'result sites are not dominated by the length assert', site_of(f.body), **({'proof': False} if UNREAD else {}))
    return {}


def _view_of(it, x):
    """(offset, length polynomial) of an iterator / slice term over a contiguous part of x: x, x[a..], x[..b], x[a..b], .iter(), .skip(k)"""
    skip = 0
    while tag(it) == 'call' and it[2]:
        s_ = short(it[1])
        if s_ in ('iter', 'into_iter', 'deref', 'as_slice', 'by_ref', 'copied', 'cloned'):
            it = it[2][0]
        elif s_ == 'skip' and len(it[2]) == 2 and tag(it[2][1]) == 'const':
            skip += it[2][1][2]
            it = it[2][0]
        else:
            return None
    n = {(('len', x),): 1}
    if it == x:
        return (skip, psub(n, {(): skip}) if skip else n)
    if tag(it) == 'index' and it[1] == x and tag(it[2]) == 'agg' and it[2][1] == 'adt':
        kind, comps = it[2][2], it[2][3]
        if kind == 'std::ops::RangeFrom' and tag(comps[0]) == 'const':
            a = comps[0][2]
            return (a + skip, psub(n, {(): a + skip}))
        if kind == 'std::ops::RangeTo':
            return (skip, psub(poly(comps[0]), {(): skip}) if skip else poly(comps[0]))
        if kind == 'std::ops::Range' and tag(comps[0]) == 'const':
            a = comps[0][2]
            return (a + skip, psub(poly(comps[1]), {(): a + skip}))
    return None


def _orders_adjacent(cn, v, x, i):
    """the panic condition is x[i+1] - x[i] < 0 (or x[i+1] < x[i], or x[i] > x[i+1]) being true"""
    if tag(cn) != 'bin' or cn[1] not in ('Lt', 'Gt', 'Le', 'Ge'):
        return False

    def off(z):
        return pconst(psub(poly(z[2]), poly(i))) if tag(z) == 'index' and z[1] == x else None
    a, b = cn[2], cn[3]
    op = cn[1]
    if not v:
        op = {'Lt': 'Ge', 'Ge': 'Lt', 'Gt': 'Le', 'Le': 'Gt'}[op]
    # difference form
    if tag(a) == 'bin' and a[1] == 'Sub' and tag(b) == 'const' and b[2] == 0.0:
        hi, lo = off(a[2]), off(a[3])
        if (hi, lo) == (1, 0):
            return op in ('Lt', 'Le')
        if (hi, lo) == (0, 1):
            return op in ('Gt', 'Ge')
        return False
    oa, ob = off(a), off(b)
    if (oa, ob) == (1, 0):
        return op in ('Lt', 'Le')
    if (oa, ob) == (0, 1):
        return op in ('Gt', 'Ge')
    return False


def _is_tgt_elem(t, tgt):
    """one element of the target slice: tgt[i], or the item of a loop over tgt / tgt.iter()"""
    while tag(t) in ('deref',) or (tag(t) == 'call' and short(t[1]) in ('deref', 'clone') and len(t[2]) == 1):
        t = t[1] if tag(t) == 'deref' else t[2][0]
    if tag(t) == 'index' and t[1] == tgt:
        return True
    if tag(t) == 'item':
        it = t[2]
        while tag(it) == 'call' and short(it[1]) in ('iter', 'into_iter', 'copied', 'cloned', 'deref') and it[2]:
            it = it[2][0]
        return it == tgt
    return False


def _match_convex(v, x, y, tgt):
    """v = r*y[k] + (1-r)*y[km1] (either operand order of + and *)"""
    if tag(v) != 'bin' or v[1] != 'Add':
        return False, 'not a sum'
    terms = [v[2], v[3]]

    def factors(t):
        if tag(t) == 'bin' and t[1] == 'Mul':
            return [t[2], t[3]]
        return None
    fa, fb = factors(terms[0]), factors(terms[1])
    if fa is None or fb is None:
        return False, 'summands are not products'
    for A, B in ((fa, fb), (fb, fa)):
        for r, yk in ((A[0], A[1]), (A[1], A[0])):
            for omr, ykm in ((B[0], B[1]), (B[1], B[0])):
                if tag(yk) == 'index' and yk[1] == y and tag(ykm) == 'index' and ykm[1] == y and \
                        omr == ('bin', 'Sub', ('const', 'f64', 1.0), r, 'f64'):
                    k, km = yk[2], ykm[2]
                    if pconst(psub(poly(k), poly(km))) != 1:
                        return False, 'ordinates are y[%s], y[%s]: not neighbours' % (show(k), show(km))
                    # r = (t - x[km]) / (x[k] - x[km])
                    if tag(r) == 'bin' and r[1] == 'Div' and tag(r[2]) == 'bin' and r[2][1] == 'Sub' and tag(r[3]) == 'bin' and r[3][1] == 'Sub':
                        t_, xl = r[2][2], r[2][3]
                        xh, xl2 = r[3][2], r[3][3]
                        if _is_tgt_elem(t_, tgt) and xl == ('index', x, km) and xl2 == xl and xh == ('index', x, k):
                            return True, show(k)
                        if xl == xl2 and tag(xl) == 'index' and xl[1] == x and peq(poly(xl[2]), poly(km)) and tag(xh) == 'index' and xh[1] == x and peq(poly(xh[2]), poly(k)) and _is_tgt_elem(t_, tgt):
                            return True, show(k)
                    return False, 'ratio %s is not (t - x[k-1])/(x[k] - x[k-1]) with the same k' % show(r)[:120]
    return False, 'weights are not r and 1 - r on neighbouring ordinates'
