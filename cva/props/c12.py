"""C12 — broadcast arithmetic follows NumPy semantics.

D1 classifier totality: the shape classifier and each broadcast_* dispatcher inspect operand shapes only
through equalities among {r1, c1, r2, c2, 1}; they are interpreted under all 52 set partitions of these five
symbols (an oracle answering every equality), which enumerates every behaviour.  Outcome (value / panic) must
equal the NumPy rule.  D2 result shape = element-wise maximum.  D3 operand order and operation in every arm
(element abstraction).  D5 Vector promotion to 1 x n with operand order kept.
Not decided here: the per-arm index pairing out[i][j] = m1[i|0][j|0] o m2[i|0][j|0] beyond operand order
(the element abstraction erases indices)."""
import re
from ..ir import tag, show, short
from ..paths import explore, Undecided
from ..elem import ElemEngine, show_expr, has_top, top_reasons, canon_comm, Env
from ..framework import site_of
from ..cells import arm_cells, NotRecognised

LEVEL = 'other'
EXPLANATION = (
    'Exhaustive abstract interpretation of the broadcast classifier: shapes are only compared for equality with each '
    'other and with 1, so the 52 set partitions of {r1,c1,r2,c2,1} enumerate all behaviours; each of the 4 dispatchers '
    'is path-explored under each partition (loops skipped, callee asserts followed) and the outcome value/panic plus the '
    'symbolic result shape are compared with the NumPy rule. Operand order/operation per arm and for the 48 promoted '
    'Matrix/Vector operator forms are decided with the element abstraction (shared with C04).')

SYMS = ('r1', 'c1', 'r2', 'c2', 'one')


def partitions(items):
    if not items:
        yield []
        return
    first, rest = items[0], items[1:]
    for p in partitions(rest):
        for i in range(len(p)):
            yield p[:i] + [[first] + p[i]] + p[i + 1:]
        yield [[first]] + p


class Dim:
    __slots__ = ('sym',)

    def __init__(self, sym):
        self.sym = sym

    def __repr__(self):
        return self.sym


class Mat:
    __slots__ = ('r', 'c')

    def __init__(self, r, c):
        self.r = r
        self.c = c

    def __repr__(self):
        return 'Mat(%r,%r)' % (self.r, self.c)


class Enum:
    __slots__ = ('variant', 'payload')

    def __init__(self, variant, payload):
        self.variant = variant
        self.payload = payload

    def __repr__(self):
        return 'V%d%r' % (self.variant, tuple(self.payload))


class PanicOutcome(Exception):
    pass


class NonEqualityUse(Exception):
    """a dimension is used in a branch other than through an equality: the partition domain is not exhaustive"""


class NotInvariant(Exception):
    """a branch condition takes both truth values on shapes with one and the same equality pattern"""

    def __init__(self, cond, w_true, w_false):
        Exception.__init__(self, cond)
        self.cond, self.w_true, self.w_false = cond, w_true, w_false


class PartEval:
    def __init__(self, prog, cls, binding, depth=0):
        self.prog = prog
        self.cls = cls            # sym -> class id
        self.binding = binding    # arg local -> Mat | Dim | int | None
        self.depth = depth
        self.nonequality = []
        self.bounded = []

    def same(self, a, b):
        return self.cls[a.sym] == self.cls[b.sym]

    # ---- values
    def value(self, f, t):
        k = tag(t)
        if k == 'const':
            if t[1] == 'bool':
                return bool(t[2])
            if isinstance(t[2], int):
                return Dim('one') if t[2] == 1 else t[2]
            return None
        if k == 'arg':
            return self.binding.get(t[1])
        if k == 'local':
            # multi-definition local (e.g. the result of `a || b`): the last definition along the path being explored
            trail = getattr(self, 'trail', None)
            if not trail:
                return None
            last = None
            for bb in trail:
                blk = f.body.blocks[bb]
                for s_ in blk.stmts:
                    if s_.kind == 'assign' and s_.place.is_local() and s_.place.local == t[1]:
                        last = f.rvalue_term(s_.rv, bb)
                tm = blk.term
                if tm.kind == 'call' and tm.dest.is_local() and tm.dest.local == t[1] and bb != trail[-1]:
                    last = f.call_term(tm, bb)
            if last is None or last == t:
                return None
            return self.value(f, last)
        if k == 'cast':
            return self.value(f, t[2])
        if k == 'field':
            b = t[1]
            if tag(b) == 'downcast':
                e = self.value(f, b[1])
                if isinstance(e, Enum) and e.variant == b[2] and t[2] < len(e.payload):
                    return e.payload[t[2]]
                return None
            m = self.value(f, b)
            if isinstance(m, Mat):
                if t[2] == 1:
                    return m.r
                if t[2] == 2:
                    return m.c
            if isinstance(m, list) and t[2] < len(m):
                return m[t[2]]
            return None
        if k == 'index':
            a = self.value(f, t[1])
            i = t[2]
            if isinstance(a, list) and tag(i) == 'const' and isinstance(i[2], int) and i[2] < len(a):
                return a[i[2]]
            return None
        if k == 'len' and tag(t[1]) == 'call' and len(t[1][2]) == 2 and t[1][1].startswith('<linalg::array::matrix::Matrix as std::ops::Index'):
            # a row of a Matrix (`m[i]`) has ncols elements
            m = self.value(f, t[1][2][0])
            return m.c if isinstance(m, Mat) else None
        if k == 'discr':
            e = self.value(f, t[1])
            if isinstance(e, Enum):
                return e.variant
            return None
        if k == 'un' and t[1] == 'Not':
            v = self.value(f, t[2])
            return None if v is None else (not v)
        if k == 'bin':
            op = t[1]
            a = self.value(f, t[2])
            b = self.value(f, t[3])
            if op in ('Eq', 'Ne'):
                r = self.eq(a, b)
                if r is None:
                    if t[4] in ('usize', 'u64', 'i32', 'i64', 'isize', 'u32'):
                        return self.invariant_value(f, t)
                    return None
                return r if op == 'Eq' else (not r)
            if op in ('Lt', 'Le', 'Gt', 'Ge') and (isinstance(a, Dim) or isinstance(b, Dim)):
                # the only order fact used: every dimension is >= 1 (the property quantifies over rows, cols >= 1)
                if isinstance(a, int) and not isinstance(a, bool) and a == 0 and isinstance(b, Dim):
                    return {'Lt': True, 'Le': True, 'Gt': False, 'Ge': False}[op]
                if isinstance(b, int) and not isinstance(b, bool) and b == 0 and isinstance(a, Dim):
                    return {'Lt': False, 'Le': False, 'Gt': True, 'Ge': True}[op]
                r = self.invariant_value(f, t)
                if r is None:
                    self.nonequality.append(show(t))
                return r
            if op in ('BitAnd', 'BitOr') and isinstance(a, bool) and isinstance(b, bool):
                return (a and b) if op == 'BitAnd' else (a or b)
            return None
        if k == 'agg':
            if t[1] == 'array' or t[1] == 'tuple':
                return [self.value(f, x) for x in t[3]]
            if t[1] == 'adt':
                m = re.match(r'(.*?)(#(\d+))?$', t[2])
                if m.group(1).endswith('Broadcast'):
                    return Enum(int(m.group(3) or 0), [self.value(f, x) for x in t[3]])
            return None
        if k == 'call':
            p = t[1]
            a = t[2]
            if p == 'linalg::array::matrix::Matrix::shape':
                m = self.value(f, a[0])
                if isinstance(m, Mat):
                    return [m.r, m.c]
                return None
            if p.endswith('PartialEq<[U; N]> for [T; N]>::eq') or p.endswith('PartialEq<[U; N]> for [T; N]>::ne'):
                x = self.value(f, a[0])
                y = self.value(f, a[1])
                if isinstance(x, list) and isinstance(y, list) and len(x) == len(y):
                    rs = [self.eq(u, v) for u, v in zip(x, y)]
                    if any(r is None for r in rs):
                        return None
                    r = all(rs)
                    return r if p.endswith('::eq') else (not r)
                return None
            if p == 'core::slice::<impl [T]>::contains':
                x = self.value(f, a[0])
                y = self.value(f, a[1])
                if isinstance(x, list):
                    rs = [self.eq(u, y) for u in x]
                    if any(r is None for r in rs):
                        return None
                    return any(rs)
                return None
            if p == 'linalg::array::matrix::Matrix::is_square':
                m = self.value(f, a[0])
                if isinstance(m, Mat):
                    return self.eq(m.r, m.c)
            if p in self.prog.pdb.bodies and short(p) == 'calc_broadcast_shape':
                return self.classify(p, [self.value(f, x) for x in a])
            if short(p) == 'len' and p.startswith('core::slice') and len(a) == 1 and tag(a[0]) == 'call' and len(a[0][2]) == 2 \
                    and a[0][1].startswith('<linalg::array::matrix::Matrix as std::ops::Index'):
                # a row of a Matrix (`m[i]`) has ncols elements
                m = self.value(f, a[0][2][0])
                return m.c if isinstance(m, Mat) else None
            if p in ('std::cmp::Ord::min', 'std::cmp::Ord::max', 'std::cmp::min', 'std::cmp::max') and len(a) == 2:
                x, y = self.value(f, a[0]), self.value(f, a[1])
                return x if self.eq(x, y) is True else None
            if p in self.prog.pdb.bodies or short(p) in ('clone', 'to_owned'):
                return self.matrix_value(f, t)
            return None
        return None

    def eq(self, a, b):
        if isinstance(a, Dim) and isinstance(b, Dim):
            return self.same(a, b)
        if isinstance(a, bool) or isinstance(b, bool):
            if isinstance(a, bool) and isinstance(b, bool):
                return a == b
            return None
        if isinstance(a, int) and isinstance(b, int):
            return a == b
        return None

    # ---- conditions outside the equality language: invariance on the partition by small-model enumeration
    def models(self, bound=5):
        """all assignments of r1,c1,r2,c2 in 1..bound with exactly the equality pattern of this partition"""
        import itertools
        syms = ['r1', 'c1', 'r2', 'c2']
        out = []
        for vals in itertools.product(range(1, bound + 1), repeat=4):
            env = dict(zip(syms, vals))
            env['one'] = 1
            ok = True
            for a in SYMS:
                for b in SYMS:
                    if (self.cls[a] == self.cls[b]) != (env[a] == env[b]):
                        ok = False
            if ok:
                out.append(env)
        return out

    def cint(self, f, t, env, binding=None, depth=0):
        """concrete integer / bool / list value of a shape term under env (sym -> int); None if not evaluable"""
        binding = self.binding if binding is None else binding
        k = tag(t)
        if k == 'const':
            return t[2] if isinstance(t[2], (int, bool)) else None
        if k == 'cast':
            return self.cint(f, t[2], env, binding, depth)
        if k == 'arg':
            v = binding.get(t[1])
            if isinstance(v, Mat):
                return ('mat', env[v.r.sym], env[v.c.sym])
            if isinstance(v, Dim):
                return env[v.sym]
            if isinstance(v, tuple) and v and v[0] == 'mat':
                return v
            return v if isinstance(v, int) else None
        if k == 'field':
            b = self.cint(f, t[1], env, binding, depth)
            if isinstance(b, tuple) and b and b[0] == 'mat' and t[2] in (1, 2):
                return b[t[2]]
            if isinstance(b, list) and t[2] < len(b):
                return b[t[2]]
            return None
        if k == 'index':
            b = self.cint(f, t[1], env, binding, depth)
            i = self.cint(f, t[2], env, binding, depth)
            if isinstance(b, list) and isinstance(i, int) and i < len(b):
                return b[i]
            return None
        if k == 'agg' and t[1] in ('array', 'tuple'):
            vs = [self.cint(f, x, env, binding, depth) for x in t[3]]
            return None if any(v is None for v in vs) else vs
        if k == 'bin':
            a = self.cint(f, t[2], env, binding, depth)
            b = self.cint(f, t[3], env, binding, depth)
            if a is None or b is None or isinstance(a, (list, tuple)) or isinstance(b, (list, tuple)):
                if t[1] in ('Eq', 'Ne') and isinstance(a, list) and isinstance(b, list):
                    return (a == b) if t[1] == 'Eq' else (a != b)
                return None
            op = t[1]
            try:
                if op == 'Add': return a + b
                if op == 'Sub': return a - b
                if op == 'Mul': return a * b
                if op == 'Div': return a // b if b else None
                if op == 'Rem': return a % b if b else None
                if op == 'Eq': return a == b
                if op == 'Ne': return a != b
                if op == 'Lt': return a < b
                if op == 'Le': return a <= b
                if op == 'Gt': return a > b
                if op == 'Ge': return a >= b
                if op == 'BitAnd': return bool(a) and bool(b)
                if op == 'BitOr': return bool(a) or bool(b)
            except Exception:
                return None
            return None
        if k == 'un' and t[1] == 'Not':
            a = self.cint(f, t[2], env, binding, depth)
            return None if a is None else (not a)
        if k == 'call' and depth < 3:
            p = t[1]
            if p == 'linalg::array::matrix::Matrix::shape':
                m = self.cint(f, t[2][0], env, binding, depth)
                return [m[1], m[2]] if isinstance(m, tuple) else None
            if p in self.prog.pdb.bodies:
                g = self.prog.func(p)
                rv = g.return_values()
                if len(rv) == 1 and not g.loop_info():
                    b2 = {}
                    for i, x in enumerate(t[2]):
                        b2[i + 1] = self.cint(f, x, env, binding, depth)
                    return self.cint(g, rv[0], env, b2, depth + 1)
            if short(p) in ('clone', 'deref', 'borrow', 'to_owned') and t[2]:
                return self.cint(f, t[2][0], env, binding, depth)
        return None

    def invariant_value(self, f, t):
        """truth value of condition t when it is the same for every small shape with this equality pattern; NotInvariant when two
        such shapes disagree (then no function of the equality pattern -- in particular not the NumPy rule -- agrees with the code)"""
        seen = {}
        for env in self.models():
            v = self.cint(f, t, env)
            if not isinstance(v, bool):
                return None
            seen.setdefault(v, env)
            if len(seen) == 2:
                def shp(e):
                    return '%dx%d vs %dx%d' % (e['r1'], e['c1'], e['r2'], e['c2'])
                raise NotInvariant(show(t)[:120], shp(seen[True]), shp(seen[False]))
        if len(seen) == 1:
            self.bounded.append(show(t)[:80])
            return next(iter(seen))
        return None

    # ---- matrices
    def matrix_value(self, f, t):
        """shape of a Matrix-valued term, or None"""
        k = tag(t)
        if k == 'arg':
            v = self.binding.get(t[1])
            return v if isinstance(v, Mat) else None
        if k == 'call':
            p = t[1]
            a = t[2]
            if short(p) in ('clone', 'to_owned') and a:
                return self.matrix_value(f, a[0])
            if p == 'linalg::array::matrix::Matrix::new':
                r = self.value(f, a[1])
                c = self.value(f, a[2])
                if isinstance(r, Dim) and isinstance(c, Dim):
                    return Mat(r, c)
                return None
            if p in self.prog.pdb.bodies and self.depth < 4:
                g = self.prog.func(p)
                binding = {}
                for i, x in enumerate(a):
                    v = self.value(f, x)
                    if v is None:
                        v = self.matrix_value(f, x)
                    binding[i + 1] = v
                sub = PartEval(self.prog, self.cls, binding, self.depth + 1)
                shapes = []
                try:
                    for o in explore(g, sub):
                        if o['kind'] == 'return' and o['ret'] is not None:
                            shapes.append(sub.matrix_value(g, o['ret']))
                except Undecided:
                    return None
                self.nonequality += sub.nonequality
                shapes = [s for s in shapes]
                if shapes and all(isinstance(s, Mat) for s in shapes):
                    s0 = shapes[0]
                    if all(self.same(s.r, s0.r) and self.same(s.c, s0.c) for s in shapes):
                        return s0
                return None
        return None

    # ---- calls on a path
    def call(self, f, bb, t):
        fn = t.callee
        if fn is None:
            return None
        p = fn.path
        if p in self.prog.pdb.bodies and self.depth < 3:
            g = self.prog.func(p)
            # only follow callees whose arguments are shapes we know
            binding = {}
            known = False
            for i, x in enumerate(t.args):
                xt = f.operand_term(x)
                v = self.value(f, xt)
                if v is None:
                    v = self.matrix_value(f, xt)
                if v is not None:
                    known = True
                binding[i + 1] = v
            if not known:
                return None
            if short(p) == 'calc_broadcast_shape':
                try:
                    self.classify(p, [binding.get(i + 1) for i in range(len(t.args))])
                except PanicOutcome:
                    return 'panic'
                return None
            sub = PartEval(self.prog, self.cls, binding, self.depth + 1)
            try:
                outs = explore(g, sub)
            except Undecided:
                return None
            self.nonequality += sub.nonequality
            kinds = {o['kind'] for o in outs}
            if kinds == {'panic'}:
                return 'panic'
        return None

    def classify(self, path, args):
        g = self.prog.func(path)
        binding = {i + 1: v for i, v in enumerate(args)}
        sub = PartEval(self.prog, self.cls, binding, self.depth + 1)
        outs = explore(g, sub)
        self.nonequality += sub.nonequality
        if any(o['fuzzy'] for o in outs) or len(outs) != 1:
            raise Undecided('classifier has %d paths under a total oracle (fuzzy=%s)' % (len(outs), [o['fuzzy'] for o in outs]))
        o = outs[0]
        if o['kind'] != 'return':
            raise PanicOutcome()
        v = sub.value(g, o['ret'])
        if not (isinstance(v, list) and all(isinstance(x, Enum) for x in v)):
            raise Undecided('classifier result not understood: %s' % show(o['ret']))
        return v


def _show_cells(F):
    if F[0] == 'cell':
        return '%s[%s][%s]' % (F[1], F[2], F[3])
    if F[0] == 'op':
        return '%s o %s' % (_show_cells(F[2]), _show_cells(F[3]))
    return repr(F)


def numpy_rule(cls):
    def same(a, b):
        return cls[a] == cls[b]
    rows_ok = same('r1', 'r2') or same('r1', 'one') or same('r2', 'one')
    cols_ok = same('c1', 'c2') or same('c1', 'one') or same('c2', 'one')
    if not (rows_ok and cols_ok):
        return None
    r = 'r1' if (same('r1', 'r2') or same('r2', 'one')) else 'r2'
    c = 'c1' if (same('c1', 'c2') or same('c2', 'one')) else 'c2'
    return (r, c)


def run(prog, rep, tier, repo):
    pdb = prog.pdb
    parts = list(partitions(list(SYMS)))
    assert len(parts) == 52
    fns = [k for k in sorted(pdb.bodies) if re.match(r'linalg::array::broadcast::broadcast_(add|sub|mul|div)$', k)]
    rep.touch('linalg::array::broadcast::calc_broadcast_shape')
    n_val = n_pan = 0
    for fk in fns:
        f = prog.func(fk)
        rep.touch(fk)
        for p in parts:
            cls = {}
            for i, blk in enumerate(p):
                for s in blk:
                    cls[s] = i
            pname = '|'.join(''.join(sorted(b)) if False else ','.join(sorted(b)) for b in sorted(p))
            key = 'partition:%s:{%s}' % (short(fk), pname)
            want = numpy_rule(cls)

            def dependents_undecided(why, want=want, fk=fk, pname=pname):
                # keep the dependent rules' instance counts: the anchor exists, it is just not decided
                if want is not None:
                    rep.undecided('result-shape', 'result-shape:%s:{%s}' % (short(fk), pname), why, proof=False)
                    rep.undecided('arm-cells', 'arm-cells:%s:{%s}' % (short(fk), pname), why, proof=False)
            ev = PartEval(prog, cls, {1: Mat(Dim('r1'), Dim('c1')), 2: Mat(Dim('r2'), Dim('c2'))})
            try:
                outs = explore(f, ev)
            except Undecided as e:
                rep.undecided('classifier-total', key, 'cannot enumerate paths: %s' % e, site_of(f.body))
                dependents_undecided('dispatch not decided')
                continue
            except PanicOutcome:
                outs = [{'kind': 'panic', 'fuzzy': False, 'ret': None, 'bb': 0}]
            except NotInvariant as e:
                rep.viol('classifier-total', key, 'the branch condition %s is not determined by the equality pattern of the shapes: it is true for %s and false for %s, '
                         'two pairs with the same pattern {%s}; the NumPy rule gives both pairs the same verdict, so the code is wrong for one of them' % (
                             e.cond, e.w_true, e.w_false, pname), site_of(f.body))
                dependents_undecided('dispatch not a function of the equality pattern')
                continue
            if ev.nonequality:
                rep.undecided('classifier-total', key, 'a dimension is used through a non-equality test (%s): the partition '
                              'domain is not exhaustive for this code' % ev.nonequality[0], site_of(f.body))
                dependents_undecided('dispatch not decided')
                continue
            kinds = {o['kind'] for o in outs}
            if len(outs) != 1 or any(o['fuzzy'] for o in outs) or 'loop' in kinds:
                rep.undecided('classifier-total', key, 'dispatch not deterministic under a total oracle: %d paths' % len(outs), site_of(f.body))
                dependents_undecided('dispatch not decided')
                continue
            o = outs[0]
            if want is None:
                if o['kind'] == 'panic':
                    n_pan += 1
                    rep.ok('classifier-total', key, 'incompatible shapes are rejected by a panic')
                else:
                    sh = ev.matrix_value(f, o['ret']) if o['ret'] is not None else None
                    rep.viol('classifier-total', key, 'shapes with classes {%s} are not broadcast-compatible but a value is '
                             'returned (%s, shape %s)' % (pname, show(o['ret']) if o['ret'] else '?', sh), site_of(f.body))
                continue
            if o['kind'] == 'panic':
                rep.viol('classifier-total', key, 'shapes with classes {%s} are broadcast-compatible (expected result %s x %s) '
                         'but the call panics at bb%s' % (pname, want[0], want[1], o['bb']), site_of(f.body))
                continue
            n_val += 1
            rep.ok('classifier-total', key, 'compatible shapes yield a value')
            sh = ev.matrix_value(f, o['ret']) if o['ret'] is not None else None
            key2 = 'result-shape:%s:{%s}' % (short(fk), pname)
            if not isinstance(sh, Mat):
                rep.undecided('result-shape', key2, 'cannot derive the shape of %s' % (show(o['ret']) if o['ret'] else None), site_of(f.body))
            elif cls[sh.r.sym] == cls[want[0]] and cls[sh.c.sym] == cls[want[1]]:
                rep.ok('result-shape', key2, 'result %s x %s = element-wise max' % (sh.r, sh.c))
                if len(rep.samples) < 12:
                    rep.sample('%s under {%s}: value of shape (%s, %s) via %s' % (short(fk), pname, sh.r, sh.c, show(o['ret'])[:60]))
            else:
                rep.viol('result-shape', key2, 'result has shape (%s, %s) but the element-wise maximum is (%s, %s)' % (
                    sh.r, sh.c, want[0], want[1]), site_of(f.body))
                continue
            # ---- D4 index pairing of the arm that runs under this partition
            key3 = 'arm-cells:%s:{%s}' % (short(fk), pname)
            try:
                ac = arm_cells(prog, f, ev, o['blocks'], o['ret'])
            except NotRecognised as e:
                rep.undecided('arm-cells', key3, 'arm idiom not recognised: %s' % e, site_of(f.body))
                continue
            probs = []
            F = ac['F']
            if not (isinstance(F, tuple) and F[0] == 'op' and all(isinstance(x, tuple) and x[0] == 'cell' for x in F[2:4])
                    and sorted(x[1] for x in F[2:4]) == ['m1', 'm2']):
                probs.append('out[I][J] = %r is not one element of each operand combined once' % (F,))
            else:
                for cell in F[2:4]:
                    nm, ri, ci = cell[1], cell[2], cell[3]
                    rm, cm = ('r1', 'c1') if nm == 'm1' else ('r2', 'c2')
                    okr = (ri == 'I' and cls[rm] == cls[want[0]]) or (ri == '0' and cls[rm] == cls['one'])
                    okc = (ci == 'J' and cls[cm] == cls[want[1]]) or (ci == '0' and cls[cm] == cls['one'])
                    if not okr:
                        probs.append('%s is read at row %s but has %s rows where the result has %s' % (nm, ri, rm, want[0]))
                    if not okc:
                        probs.append('%s is read at column %s but has %s columns where the result has %s' % (nm, ci, cm, want[1]))
            rws, cl = ac['rows'], ac['cols']
            if not (rws == 'all' or (isinstance(rws, Dim) and cls[rws.sym] == cls[want[0]])):
                probs.append('the row loop runs over %s, not over the %s rows of the result' % (rws, want[0]))
            if isinstance(cl, tuple) and cl[0] == 'zip':
                cm = 'c1' if ac and cl[1] == ('arg', 1, f.names.get(1)) else 'c2'
                if cls[cm] != cls[want[1]]:
                    probs.append('the row zip stops after %s columns, the result has %s' % (cm, want[1]))
            elif not (cl in ('all', 'row-of-out') or (isinstance(cl, Dim) and cls[cl.sym] == cls[want[1]])):
                probs.append('the column loop runs over %s, not over the %s columns of the result' % (cl, want[1]))
            ck_ = ac.get('chunk')
            if ck_ is not None and not (isinstance(ck_, Dim) and cls[ck_.sym] == cls[want[1]]):
                probs.append('the result is walked in pieces of %s elements, but its rows have %s elements: the pieces are not the rows' % (ck_, want[1]))
            st_ = ac.get('stride')
            if st_ is not None and not (isinstance(st_, Dim) and cls[st_.sym] == cls[want[1]]):
                probs.append('flat write uses row stride %s but the result has %s columns' % (st_, want[1]))
            if probs:
                rep.viol('arm-cells', key3, '; '.join(probs), site_of(f.body))
            else:
                rep.ok('arm-cells', key3, '%s arm: out[I][J] = %s over %s x %s' % (ac['kind'], _show_cells(F), want[0], want[1]))
    rep.floor('classifier-total', 52 * 4, '52 partitions x 4 dispatchers')
    rep.floor('result-shape', 4 * 25, '25 compatible partitions x 4 dispatchers')
    rep.floor('arm-cells', 4 * 25, '25 compatible partitions x 4 dispatchers')

    # ------------------------------------------------------------------ D3 operand order / operation in every arm
    eng = ElemEngine(prog)
    M1 = frozenset([('sym', 'M1')])
    M2 = frozenset([('sym', 'M2')])
    opname = {'add': 'Add', 'sub': 'Sub', 'mul': 'Mul', 'div': 'Div'}
    for fk in fns:
        f = prog.func(fk)
        op = opname[fk.rsplit('_', 1)[1]]
        want = canon_comm(frozenset([('b', op, ('sym', 'M1'), ('sym', 'M2'))]))
        env = Env(f, {1: M1, 2: M2}, {})
        rets = f.return_values()
        for i, rt in enumerate(rets):
            key = 'arm-order:%s:arm%d' % (short(fk), i)
            got = eng.ev(env, rt)
            got = canon_comm(got) if not isinstance(got, tuple) else got
            if isinstance(got, tuple) or has_top(got):
                rep.undecided('arm-order', key, 'cannot evaluate arm returning %s' % show(rt)[:80], site_of(f.body))
            elif got == want:
                rep.ok('arm-order', key, 'arm returning %s: every element is %s' % (show(rt)[:50], show_expr(got)))
            elif not got or any(e in (('int',), ('uninit',)) or e[0] in ('int', 'uninit', 'ci', 'len') for e in got):
                # nothing read, or integer / uninitialised placeholders among the element expressions: the arm builds its result in a way the
                # element abstraction only partly follows (a helper filling a fresh buffer, a closure called in place) -- not read
                rep.undecided('arm-order', key, 'elements of the arm returning %s are only partly read (%s)' % (show(rt)[:50], show_expr(got)[:60]), site_of(f.body), proof=False)
            else:
                rep.viol('arm-order', key, 'arm returning %s yields elements %s, expected exactly %s' % (
                    show(rt)[:60], show_expr(got), show_expr(want)), site_of(f.body))
        rep.sample('%s: %d arms, each => %s' % (fk, len(rets), show_expr(want)))
    for k in eng.visited:
        rep.touch(k)
    rep.floor('arm-order', 4 * 9, '9 value-returning arms x 4 dispatchers')

    # ------------------------------------------------------------------ D5 Vector promotion
    n = 0
    for k, b in sorted(pdb.bodies.items()):
        if b.kind != 'assoc' or not b.impl or not b.impl['trait']:
            continue
        m = re.match(r'std::ops::(Add|Sub|Mul|Div)<(.*)>$', b.impl['trait'])
        if not m:
            continue
        st, rhs = b.impl['self_ty'], m.group(2)
        mv = 'Matrix' in st and 'Vector' in rhs
        vm = 'Vector' in st and 'Matrix' in rhs
        if not (mv or vm):
            continue
        n += 1
        f = prog.func(k)
        rep.touch(k)
        key = 'promotion:%s' % k
        calls = [c for c in f.calls() if c.path and re.match(r'linalg::array::broadcast::broadcast_(add|sub|mul|div)$', c.path)]
        if len(calls) != 1:
            rep.undecided('promotion', key, 'expected exactly one broadcast_* call, found %d' % len(calls), site_of(b))
            continue
        c = calls[0]
        if opname[c.path.rsplit('_', 1)[1]] != m.group(1):
            rep.viol('promotion', key, '%s %s %s dispatches to %s' % (st, m.group(1), rhs, c.path), site_of(b))
            continue
        vec_pos = 1 if mv else 0
        mat_pos = 1 - vec_pos
        a_vec = _strip_owned(c.args[vec_pos])
        a_mat = c.args[mat_pos]
        self_arg = ('arg', 1, f.names.get(1))
        rhs_arg = ('arg', 2, f.names.get(2))
        want_vec = rhs_arg if mv else self_arg
        want_mat = self_arg if mv else rhs_arg
        okv = tag(a_vec) == 'call' and a_vec[1] == 'linalg::array::vec::Vector::to_matrix' and _strip_owned(a_vec[2][0]) == want_vec
        okm = _strip_owned(a_mat) == want_mat
        if okv and okm:
            rep.ok('promotion', key, 'vector side promoted with to_matrix (1 x n), operand order kept')
        else:
            rep.viol('promotion', key, 'broadcast call is %s(%s, %s): expected the %s operand promoted by to_matrix in position %d and the '
                     'matrix operand in position %d' % (short(c.path), show(c.args[0])[:50], show(c.args[1])[:50],
                                                         'right' if mv else 'left', vec_pos, mat_pos), site_of(b))
    rep.floor('promotion', 32, 'Matrix o Vector and Vector o Matrix impls')
    _matvec_witnesses(prog, rep)
    # to_matrix builds 1 x n
    tm = prog.func('linalg::array::vec::Vector::to_matrix')
    key = 'promotion:to_matrix-shape'
    if tm is None:
        rep.viol('promotion', key, 'Vector::to_matrix disappeared')
    else:
        rep.touch(tm.body.key)
        news = [c for c in tm.calls() if c.path == 'linalg::array::matrix::Matrix::new']
        ok = False
        if len(news) == 1:
            a = news[0].args
            r = a[1]
            c = a[2]
            while tag(c) == 'cast':
                c = c[2]
            me_tm = ('arg', 1, tm.names.get(1))
            data_tm = _strip_owned(a[0])
            # the data is the vector itself or its only field (`let Vector { v } = self`), the width the length of either
            is_self = data_tm == me_tm or (tag(data_tm) == 'field' and data_tm[1] == me_tm and data_tm[2] == 0)
            len_of = _strip_owned(c[1]) if tag(c) == 'len' else None
            ok = tag(r) == 'const' and r[2] == 1 and is_self and len_of is not None and \
                (len_of == me_tm or (tag(len_of) == 'field' and len_of[1] == me_tm and len_of[2] == 0))
        if ok:
            rep.ok('promotion', key, 'to_matrix = Matrix::new(self, 1, len)')
        else:
            rep.viol('promotion', key, 'to_matrix does not build a 1 x len(self) matrix', site_of(tm.body))
    return {'exhaustive': True,
            'coverage': {'partitions': 52, 'value_outcomes': n_val, 'panic_outcomes': n_pan,
                         'states': 52 * 4, 'explanation': EXPLANATION}}


def _strip_owned(t):
    while tag(t) == 'call' and short(t[1]) in ('to_owned', 'clone', 'deref', 'borrow') and t[2]:
        t = t[2][0]
    return t


def _matvec_witnesses(prog, rep):
    """Matrix o Vector and Vector o Matrix on exact shape witnesses (matrix r x c with r, c in 1..3, vector of length 1..3, read as a
    single row): a compatible pair (c == n, c == 1 or n == 1) must be able to return.  The conditions on the way -- through promotion,
    fast paths, helper constructors and the broadcast dispatch -- are evaluated by the witness evaluator; a witness on which every path
    ends in a panic is the violation ("no compatible pair panics").  Conditions that cannot be evaluated decide nothing."""
    from ..precond import NC, Frame, _nk
    import itertools
    pdb = prog.pdb
    ncx = NC(prog, max_depth=5)
    n = 0
    for k, b in sorted(pdb.bodies.items()):
        if b.kind != 'assoc' or not b.impl or not b.impl['trait']:
            continue
        m = re.match(r'std::ops::(Add|Sub|Mul|Div)<(.*)>$', b.impl['trait'])
        if not m:
            continue
        st, rhs = b.impl['self_ty'], m.group(2)
        mv = 'Matrix' in st and 'Vector' in rhs
        vm = 'Vector' in st and 'Matrix' in rhs
        if not (mv or vm):
            continue
        f = prog.func(k)
        if f is None:
            continue
        n += 1
        key = 'compatible-returns:%s' % k
        mat_i, vec_i = (1, 2) if mv else (2, 1)
        bad = None
        tried = 0
        for r, c, ln in itertools.product((1, 2, 3), repeat=3):
            if not (c == ln or c == 1 or ln == 1):
                continue
            a, v = ('arg', mat_i, None), ('arg', vec_i, None)
            env = {_nk(('field', a, 1, None)): r, _nk(('field', a, 2, None)): c,
                   _nk(('len', ('field', a, 0, None))): r * c, _nk(('len', ('field', ('field', a, 0, None), 0, None))): r * c,
                   _nk(('len', v)): ln, _nk(('len', ('field', v, 0, None))): ln}
            tried += 1
            why = []
            try:
                dead = ncx.cannot_return(f, Frame(f, env=env, ncx=ncx), why)
            except RecursionError:
                dead = False
            if dead:
                from ..precond import show_guard
                cmp_ = [w for w in why if w[1] != k] or [w for w in why if w[0][0] == 'cmp'] or why      # the callee's failing test first
                bad = (r, c, ln, show_guard(cmp_[-1][0])[:90] if cmp_ else 'no return reachable', short(cmp_[-1][1]) if cmp_ else '')
                break
        for kk in ncx.visited:
            rep.touch(kk)
        if bad:
            rep.viol('compatible-returns', key, 'a %dx%d matrix %s a vector of length %d (a 1x%d row) is a compatible pair, but the operator cannot return: `%s`%s '
                     'fails on every path -- the call panics' % (bad[0], bad[1], m.group(1).lower(), bad[2], bad[2], bad[3], (' [in %s]' % bad[4]) if bad[4] else ''), site_of(b))
        else:
            rep.ok('compatible-returns', key, 'not refuted on %d compatible shape witnesses' % tried)
    rep.floor('compatible-returns', 32, 'Matrix o Vector and Vector o Matrix impls')
