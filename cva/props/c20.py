"""C20 — covariance kernels are valid positive-definite kernels, scalar and matrix form.

D1 monotone & positive (E-ABS): the scalar form, as a function of the squared distance r = (x-y)^2 >= 0 under the
   constructor invariants, is positive, non-increasing in r, and equals the output variance at r = 0.
D2 symmetry: x and y enter the scalar form only through (x-y)^2; the matrix form only through
   |x|^2 (column) + |y|^2 (row) - 2 x y^T.
D3 homogeneity: x, y, length_scale : X; var : V; alpha : 1; result : V.
D4 scalar/matrix sibling: both forms are the same operator tree over the squared-distance leaf.
D5 shape of the matrix form: (n_x x 1) (+) (1 x n_y) -> n_x x n_y.
D6 constructor guards: var, alpha, length_scale > 0.
Not decided: positive semi-definiteness of Gram matrices beyond the analytic form (a theorem about the formula)."""
import re
from ..ir import tag, show, short, subterms, map_term, is_f64_method, f64_method_name
from ..absint import AbsEval, Iv, Val, TOPIV, INF
from ..structs import StructModel, canon_guard
from ..elem import ElemEngine, show_expr, has_top
from ..sym import SymInfer, Ty, unit
from ..framework import site_of

LEVEL = 'other'
EXPLANATION = (
    'The scalar closed form of each kernel is evaluated in an interval+monotonicity abstract domain with the squared distance as the designated '
    'variable (r in [0, inf)) under the constructor invariants: positive, non-increasing, equal to var at r = 0. Symmetry follows from x, y '
    'occurring only inside the distance subterm; the matrix forms are normalised (operator impls on Matrix mapped to their scalar operation) and '
    'compared with the scalar operator tree over the distance leaf; reshape arguments give the n_x x n_y shape; scale types are inferred. '
    'PSD-ness of Gram matrices is a property of the analytic formula and is not decided.')

KS = 'predict::gps::kernels::'
KERNELS = {'RBFKernel': ['var', 'length_scale'], 'RationalQuadraticKernel': ['var', 'alpha', 'length_scale']}


def run(prog, rep, tier, repo):
    pdb = prog.pdb
    n_fw = 0
    scalar_trees = {}
    for kn, fields in KERNELS.items():
        path = KS + kn
        sm = StructModel(prog, path)
        # ---- D6 constructor guards
        inv = {}
        if sm.new is None or sm.inits is None:
            rep.undecided('ctor-guard', 'ctor-guard:%s' % kn, 'constructor not understood')
        else:
            rep.touch(sm.new.body.key)
            for fi, al in sm.param_of.items():
                na = sm.new_arg(al)
                key = 'ctor-guard:%s::%s' % (kn, sm.fname(fi))
                ok = any(g[0] == 'cmp' and g[1] == 'Lt' and tag(g[2]) == 'const' and g[2][2] == 0.0 and g[3] == na and g[4] is True for g in sm.new_guards)
                if ok:
                    inv[fi] = Iv(0.0, INF, True, True)
                    rep.ok('ctor-guard', key, 'assert!(%s > 0.)' % sm.fname(fi))
                else:
                    rep.viol('ctor-guard', key, '%s::new does not require %s > 0' % (kn, sm.fname(fi)), site_of(sm.new.body))
        # ---- scalar forms
        for k, b in sorted(pdb.bodies.items()):
            if not (b.impl and b.impl['self_ty'] == path and b.impl['trait'] and b.impl['trait'].startswith(KS + 'Kernel<')):
                continue
            n_fw += 1
            f = prog.func(k)
            rep.touch(k)
            m = re.match(r'.*Kernel<(.*), (.*)>$', b.impl['trait'])
            argty, outty = m.group(1), m.group(2)
            me = ('arg', 1, f.names.get(1))
            x = ('arg', 2, f.names.get(2))
            y = ('arg', 3, f.names.get(3))
            rets = f.return_values()
            tagk = '%s<%s>' % (kn, argty.replace('linalg::array::', '').replace('vec::', '').replace('matrix::', ''))
            if len(rets) != 1:
                rep.undecided('kernel-form', 'kernel-form:%s' % tagk, 'several return values')
                continue
            t = prog.inline(rets[0], only=lambda p_: p_.startswith(KS))          # the closed form may live in a straight-line helper of the kernel module
            from ..objstate import fold as _fold_lit
            t = _fold_lit(t)                                                      # components of a tuple a helper returns are read as the components
            # a helper of the kernel module that builds a value from its arguments and then overwrites entries of it in place
            patched = []
            for z in list(subterms(t)):
                if tag(z) == 'call' and z[1].startswith(KS) and z[1] in pdb.bodies and not prog.straight_line(prog.func(z[1])):
                    h = prog.func(z[1])
                    rv = h.return_values()
                    if len(rv) != 1 or any(tag(q) in ('local', 'item') for q in subterms(rv[0])):
                        continue
                    consts = []
                    for st_ in h.stores():
                        tg = st_.target
                        base = tg
                        while tag(base) in ('index', 'field') or (tag(base) == 'call' and short(base[1]) in ('index_mut', 'deref_mut') and base[2]):
                            base = base[1] if tag(base) in ('index', 'field') else base[2][0]
                        if tag(tg) != 'local' and base == rv[0] and tag(st_.value) == 'const' and \
                                any(tag(q) == 'arg' for q in subterms(rv[0])):
                            consts.append(st_)
                    if consts:
                        rep.touch(z[1])
                        patched.append((z, h, rv[0], consts))
            if patched:
                z, h, e_, consts = patched[0]
                rep.viol('symmetry', 'symmetry:%s' % tagk, '%s builds %s from the two point sets and then overwrites entries of it with the constant %s at positions chosen '
                         'by index (%s): those covariances no longer depend on the points they belong to' % (
                             short(z[1]), show(e_)[:80], show(consts[0].value), show(consts[0].target)[-60:]), site_of(h.body))
                continue
            if outty == 'f64':
                dist = ('call', 'std::f64::<impl f64>::powi', (('bin', 'Sub', x, y, 'f64'), ('const', 'i32', 2)), None)
                dist2 = ('call', 'std::f64::<impl f64>::powi', (('bin', 'Sub', y, x, 'f64'), ('const', 'i32', 2)), None)
                R = ('arg', 99, 'r')
                tt = map_term(t, lambda n: R if n in (dist, dist2) else n)
                # D2 symmetry
                key = 'symmetry:%s' % tagk
                if any(z in (x, y) for z in subterms(tt)):
                    rep.viol('symmetry', key, 'x or y occurs outside the squared distance (x - y)^2 in %s: the kernel need not be symmetric' % show(t)[:160], site_of(b))
                elif R not in list(subterms(tt)):
                    rep.viol('symmetry', key, 'the kernel does not depend on (x - y)^2: %s' % show(t)[:160], site_of(b))
                else:
                    rep.ok('symmetry', key, 'x, y enter only through (x - y)^2')
                scalar_trees.setdefault(kn, optree(tt, me, R))
                # D1 monotone / positive / value at zero
                key = 'monotone:%s' % tagk

                def leaf(z, inv=inv, r_iv=Iv(0.0, INF, False, True)):
                    if z == R:
                        return r_iv
                    if tag(z) == 'field' and z[1] == me and z[2] in inv:
                        return inv[z[2]]
                    return None
                ev = AbsEval(leaf, wrt=R)
                val = ev.ev(tt)
                if ev.unknown:
                    rep.undecided('monotone', key, 'cannot evaluate %s: %s' % (show(tt)[:100], ev.unknown[:2]))
                elif val.dir in ('dec', 'const') and val.iv.is_pos():
                    rep.ok('monotone', key, 'k(r) = %s is positive (%r) and non-increasing in r = (x-y)^2' % (show(tt)[:100], val.iv))
                    rep.sample('%s: k(r) = %s, range %r, direction %s' % (tagk, show(tt)[:120], val.iv, val.dir))
                else:
                    what = []
                    if val.dir == 'inc':
                        what.append('it is non-DEcreasing in the distance: points further apart are MORE correlated and k(x,y) exceeds k(x,x)')
                    elif val.dir not in ('dec', 'const'):
                        what.append('monotonicity in the distance is not established (%s)' % val.dir)
                    if not val.iv.is_pos():
                        what.append('positivity not established (range %r)' % val.iv)
                    (rep.viol if val.dir == 'inc' else rep.undecided)('monotone', key, 'k(r) = %s under var, alpha, length_scale > 0: %s' % (show(tt)[:140], '; '.join(what)), site_of(b))
                # value at zero distance
                key = 'at-zero:%s' % tagk
                var_i = [i for i, fl in enumerate(sm.fields) if fl['name'] == 'var']
                if var_i:
                    vi = var_i[0]

                    def leaf0(z, inv=inv, vi=vi):
                        if z == R:
                            return Iv.point(0.0)
                        if tag(z) == 'field' and z[1] == me and z[2] == vi:
                            return Iv.point(7.0)
                        if tag(z) == 'field' and z[1] == me and z[2] in inv:
                            return inv[z[2]]
                        return None
                    ev0 = AbsEval(leaf0)
                    v0 = ev0.ev(tt)
                    if v0.iv.lo == v0.iv.hi == 7.0:
                        rep.ok('at-zero', key, 'k at zero distance equals var (evaluated symbolically with var := 7)')
                    elif v0.iv.lo <= 7.0 <= v0.iv.hi and v0.iv.lo != v0.iv.hi:
                        # an enclosure that contains var but is not a point: part of the expression is not read (a helper returning a tuple, say)
                        rep.undecided('at-zero', key, 'value at zero distance only enclosed in %r for var = 7 (expression partly unread)' % v0.iv, site_of(b), proof=False)
                    else:
                        rep.viol('at-zero', key, 'at zero distance the kernel evaluates to %r for var = 7, not to var' % v0.iv, site_of(b))
            else:
                # matrix form
                key = 'symmetry:%s' % tagk
                d = distance_matrix(t, x, y)
                if d is None:
                    why_ = 'the squared-distance matrix |x|^2 (column) + |y|^2 (row) - 2 x.y^T is not found in %s' % show(t)[:160]
                    rep.undecided('symmetry', key, why_, site_of(b), proof=False)
                    rep.undecided('shape', 'shape:%s' % tagk, why_, site_of(b), proof=False)
                    rep.undecided('sibling', 'sibling:%s' % tagk, why_, site_of(b), proof=False)
                    continue
                dterm, shape_ok, why = d
                D = ('arg', 99, 'r')
                tt = map_term(t, lambda n: D if n == dterm else n)
                if any(z in (x, y) for z in subterms(tt)):
                    rep.viol('symmetry', key, 'x or y occurs outside the distance matrix in %s' % show(t)[:160], site_of(b))
                else:
                    rep.ok('symmetry', key, 'x, y enter only through the squared-distance matrix')
                key = 'shape:%s' % tagk
                (rep.ok if shape_ok else rep.viol)('shape', key, 'column (n_x x 1) + row (1 x n_y) - 2 x.y^T : n_x x n_y' if shape_ok else why, site_of(b))
                key = 'sibling:%s' % tagk
                mt = optree(tt, me, D)
                st = scalar_trees.get(kn)
                if st is None:
                    rep.undecided('sibling', key, 'scalar form not available')
                elif mt == st:
                    rep.ok('sibling', key, 'matrix form == scalar form over the distance leaf: %s' % st)
                else:
                    rep.viol('sibling', key, 'matrix form computes %s but the scalar form computes %s' % (mt, st), site_of(b))
    rep.floor('ctor-guard', 5, 'kernel parameters')
    rep.floor('symmetry', 12, 'Kernel::forward impls')
    rep.floor('monotone', 4, 'scalar forms')
    rep.floor('at-zero', 4, 'scalar forms')
    rep.floor('sibling', 8, 'matrix forms')
    rep.floor('shape', 8, 'matrix forms')

    # ---- D3 homogeneity of the scalar forms
    eng = ElemEngine(prog)
    SELF = frozenset([('sym', 'SELF')])
    XX = frozenset([('sym', 'X')])
    YY = frozenset([('sym', 'Y')])
    for kn, fields in KERNELS.items():
        path = KS + kn
        fl = pdb.adts[path]['variants'][0]['fields']
        seeds = {('sym', 'X'): Ty(unit('X', 1)), ('sym', 'Y'): Ty(unit('X', 1))}
        params = {}
        for i, f_ in enumerate(fl):
            e = ('fld', ('sym', 'SELF'), i)
            if f_['name'] == 'var':
                seeds[e] = Ty(unit('V', 1))
            elif f_['name'] == 'length_scale':
                seeds[e] = Ty(unit('X', 1))
            else:
                seeds[e] = Ty()
                params[e] = f_['name']
        for k, b in sorted(pdb.bodies.items()):
            if b.impl and b.impl['self_ty'] == path and b.impl['trait'] and b.impl['trait'].endswith('Kernel<f64, f64>'):
                ret, _ = eng.result_of(k, {1: SELF, 2: XX, 3: YY})
                key = 'homogeneity:%s' % kn
                if has_top(ret):
                    rep.undecided('homogeneity', key, 'closed form not extracted', proof=False)
                    continue
                inf = SymInfer(seeds, params)
                t = inf.infer_set(ret)
                if inf.problems:
                    rep.viol('homogeneity', key, '%s::forward is not homogeneous: %s' % (kn, '; '.join(inf.problems)[:300]), site_of(b))
                elif t is None:
                    rep.undecided('homogeneity', key, 'not inferred: %s' % inf.unknown[:2], proof=False)
                elif t.dim != unit('V', 1):
                    rep.viol('homogeneity', key, '%s::forward has scale type [%s], expected [V] (x, y, length_scale : X; var : V)' % (kn, t), site_of(b))
                else:
                    rep.ok('homogeneity', key, '%s::forward : [%s]' % (kn, t))
    rep.floor('homogeneity', 2, 'scalar forms')
    return {}


OPMAP = {'add': 'Add', 'sub': 'Sub', 'mul': 'Mul', 'div': 'Div', 'neg': 'Neg'}


def optree(t, me, leaf):
    """operator tree as a string; Matrix operator impls / maps are mapped to their scalar operation"""
    k = tag(t)
    if t == leaf:
        return 'D'
    if k == 'const':
        return repr(float(t[2])) if isinstance(t[2], (int, float)) and not isinstance(t[2], bool) and t[1] in ('f64',) else repr(t[2])
    if k == 'field' and t[1] == me:
        return 'p%d' % t[2]
    if k == 'bin':
        return '%s(%s,%s)' % (t[1], optree(t[2], me, leaf), optree(t[3], me, leaf))
    if k == 'un':
        return '%s(%s)' % (t[1], optree(t[2], me, leaf))
    if k == 'call':
        p = t[1]
        s = short(p)
        if is_f64_method(p):
            return '%s(%s)' % (f64_method_name(p), ','.join(optree(a, me, leaf) for a in t[2]))
        if 'std::ops::' in p and s in OPMAP:
            return '%s(%s)' % (OPMAP[s], ','.join(optree(a, me, leaf) for a in t[2]))
        if p.startswith('linalg::array::matrix::Matrix::') or p.startswith('linalg::array::vec::Vector::'):
            return '%s(%s)' % (s, ','.join(optree(a, me, leaf) for a in t[2]))
    return '?' + show(t)[:40]


def distance_matrix(t, x, y):
    """find sub(add(reshape(powi(X,2),-1,1), reshape(powi(Y,2),1,-1)), mul(2, dot_t(X, Y))) with X = reshape(x,-1,1), Y = reshape(y,-1,1)"""
    def is_reshape(z, r, c):
        return tag(z) == 'call' and short(z[1]) == 'reshape' and len(z[2]) == 3 and tag(z[2][1]) == 'const' and tag(z[2][2]) == 'const' and (z[2][1][2], z[2][2][2]) == (r, c)

    def is_sq(z, base):
        return tag(z) == 'call' and short(z[1]) == 'powi' and z[2][0] == base and tag(z[2][1]) == 'const' and z[2][1][2] == 2
    for z in subterms(t):
        if tag(z) == 'call' and 'std::ops::Sub' in z[1] and len(z[2]) == 2:
            a, b = z[2]
            if tag(a) == 'call' and 'std::ops::Add' in a[1] and tag(b) == 'call' and 'std::ops::Mul' in b[1]:
                p, q = a[2]
                two, prod = b[2]
                if not (tag(two) == 'const' and two[2] == 2.0 and tag(prod) == 'call' and short(prod[1]) == 'dot_t'):
                    continue
                X_, Y_ = prod[2]
                okx = is_reshape(X_, -1, 1) and X_[2][0] == x
                oky = is_reshape(Y_, -1, 1) and Y_[2][0] == y
                col = is_reshape(p, -1, 1) and is_sq(p[2][0], X_)
                row = is_reshape(q, 1, -1) and is_sq(q[2][0], Y_)
                if okx and oky and is_sq(p[2][0] if tag(p) == 'call' and p[2] else None, X_) and is_sq(q[2][0] if tag(q) == 'call' and q[2] else None, Y_):
                    shape_ok = col and row
                    why = '' if shape_ok else 'the squared norms are reshaped as %s / %s instead of a column (-1,1) for x and a row (1,-1) for y: the result is not n_x x n_y' % (
                        [show(v) for v in p[2][1:]], [show(v) for v in q[2][1:]])
                    return z, shape_ok, why
    # difference form: (X - Y)^2 elementwise with X = x as a column (-1,1) and Y = y as a row (1,-1) (broadcast to n_x x n_y)
    for z in subterms(t):
        if tag(z) == 'call' and short(z[1]) == 'powi' and len(z[2]) == 2 and tag(z[2][1]) == 'const' and z[2][1][2] == 2 and \
                tag(z[2][0]) == 'call' and 'std::ops::Sub' in z[2][0][1] and len(z[2][0][2]) == 2:
            a, b = z[2][0][2]

            def rs(v):
                # (operand, rows, cols) through a chain of reshapes: the outermost reshape decides
                if tag(v) == 'call' and short(v[1]) == 'reshape' and len(v[2]) == 3 and tag(v[2][1]) == 'const' and tag(v[2][2]) == 'const':
                    inner = v[2][0]
                    while tag(inner) == 'call' and short(inner[1]) == 'reshape' and inner[2]:
                        inner = inner[2][0]
                    return inner, v[2][1][2], v[2][2][2]
                return None
            ra, rb = rs(a), rs(b)
            if ra is None or rb is None:
                continue
            if {ra[0], rb[0]} != {x, y}:
                continue
            rx, ry = (ra, rb) if ra[0] == x else (rb, ra)
            shape_ok = (rx[1], rx[2]) == (-1, 1) and (ry[1], ry[2]) == (1, -1)
            why = '' if shape_ok else 'x is laid out as (%d,%d) and y as (%d,%d) before the broadcast difference: rows then follow %s and columns %s, the result is not n_x x n_y' % (
                rx[1], rx[2], ry[1], ry[2], 'y' if (ry[1], ry[2]) == (-1, 1) else '?', 'x' if (rx[1], rx[2]) == (1, -1) else '?')
            return z, shape_ok, why
    return None
