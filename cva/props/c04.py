"""C04 — element-wise arithmetic and maps are exact at every length and operand form.

Decided clauses (DESIGN 4.4): D1 wiring of all operator forms (element abstraction), D2 kernel
coverage + element-wise index discipline (unrolled-loop lemma), D3 name identity of the unary maps,
D4 mismatch rejection asserts, D5 max-shift of the log-domain reductions, D7 shape preservation,
reduction wiring.  Not decided: rounding bounds of the reductions."""
import re
from ..elem import ElemEngine, show_expr, has_top, top_reasons, canon_comm
from ..kernels import analyse_kernel
from ..ir import tag, show, short, subterms
from ..framework import site_of

LEVEL = 'other'
EXPLANATION = (
    'Static proof of the element-wise clause: (1) every Add/Sub/Mul/Div/*Assign/Neg impl on Vector/Matrix is '
    'abstractly interpreted over the element abstraction (arrays = set of element expressions, indices erased) '
    'through the resolved call graph, closures and std iterator adaptors; the result must be exactly '
    '{op(elem(self), elem(rhs))} with operands in order; (2) each of the unrolled kernels is matched against the '
    'W-way unroll + remainder idiom and the coverage lemma of DESIGN appendix A (every index in 0..n written '
    'exactly once, all W+1 lanes the same expression of the elements at their own index); (3) unary map wrappers '
    'apply the f64 method of their own name; (4) length/shape asserts dominate; (5) exp arguments of the '
    'log-domain reductions are shifted by the maximum; (6) Matrix results are built with the receiver\'s shape. '
    'Rounding-error bounds of sum/dot/norm are NOT decided (numerical, not structural).')

OPS = {'Add': 'Add', 'Sub': 'Sub', 'Mul': 'Mul', 'Div': 'Div'}
ARR = ('linalg::array::vec::Vector', 'linalg::array::matrix::Matrix')
S = frozenset([('sym', 'SELF')])
R = frozenset([('sym', 'RHS')])

UNARY = ['ln', 'ln_1p', 'log10', 'log2', 'exp', 'exp2', 'exp_m1', 'sin', 'cos', 'tan', 'sinh', 'cosh', 'tanh', 'asin',
         'acos', 'atan', 'asinh', 'acosh', 'atanh', 'sqrt', 'cbrt', 'abs', 'floor', 'ceil', 'to_radians', 'to_degrees',
         'recip', 'round', 'signum']


def operator_impls(pdb):
    """(body, op, assign, form) for every Add/Sub/Mul/Div[Assign]/Neg impl whose self or rhs is Vector/Matrix"""
    out = []
    for k, b in sorted(pdb.bodies.items()):
        if b.kind != 'assoc' or not b.impl or not b.impl['trait']:
            continue
        tr = b.impl['trait']
        m = re.match(r'std::ops::(Add|Sub|Mul|Div)(Assign)?(<(.*)>)?$', tr)
        if m:
            st = b.impl['self_ty']
            rhs = m.group(4) or st
            if not any(a in st or a in rhs for a in ARR):
                continue
            out.append((b, m.group(1), bool(m.group(2)), '%s %s %s' % (st, m.group(1) + ('=' if m.group(2) else ''), rhs)))
        elif tr == 'std::ops::Neg' and any(a in b.impl['self_ty'] for a in ARR):
            out.append((b, 'Neg', False, 'Neg %s' % b.impl['self_ty']))
    return out


def expected_binary(op):
    e = ('b', op, ('sym', 'SELF'), ('sym', 'RHS'))
    return frozenset([canon_comm(e)])


def run(prog, rep, tier, repo):
    pdb = prog.pdb
    eng = ElemEngine(prog)

    # ------------------------------------------------------------------ D1 wiring of operator forms
    impls = operator_impls(pdb)
    nbin = nass = nneg = 0
    for b, op, assign, form in impls:
        rep.touch(b.key)
        ret, eff = eng.result_of(b.key, {1: S, 2: R})
        key = 'wire:%s' % b.key
        if op == 'Neg':
            nneg += 1
            got = canon_comm(ret) if not isinstance(ret, tuple) else ret
            # -1.0 * x (either order) is IEEE-exactly -x, including the sign of zero; 0.0 - x is not (it loses -0.0 -> +0.0)
            if isinstance(got, frozenset):
                def _negform(e):
                    if isinstance(e, tuple) and e[0] == 'b' and e[1] == 'Mul':
                        for u, v in ((e[2], e[3]), (e[3], e[2])):
                            if u == ('c', -1.0):
                                return ('neg', v)
                    return e
                got = frozenset(_negform(e) for e in got)
            want = frozenset([('neg', ('sym', 'SELF'))])
            rule = 'wire-neg'
        elif assign:
            nass += 1
            got = canon_comm(eff.get(1, frozenset()))
            want = expected_binary(op)
            rule = 'wire-assign'
            if 2 in eff:
                rep.viol('operands-unchanged', 'operands-unchanged:%s' % b.key,
                         'compound assignment writes to its right operand: %s' % show_expr(eff[2]), site_of(b))
        else:
            nbin += 1
            got = canon_comm(ret) if not isinstance(ret, tuple) else ret
            want = expected_binary(op)
            rule = 'wire-binary'
            for i, e in eff.items():
                rep.viol('operands-unchanged', 'operands-unchanged:%s' % b.key,
                         'operator form writes to operand %d: %s' % (i, show_expr(e)), site_of(b))
        if isinstance(got, tuple) or has_top(got):
            rep.undecided(rule, key, 'cannot evaluate %s: %s' % (form, sorted(top_reasons(got)) if not isinstance(got, tuple) else 'tuple result'), site_of(b))
        elif not got:
            # no element expression at all: the writes go through a path the element abstraction does not follow (nested iterator pipelines
            # over chunks of the receiver, say) -- not read, rather than "writes nothing"
            rep.undecided(rule, key, 'no element written by %s was read' % form, site_of(b), proof=False)
        elif got == want:
            rep.ok(rule, key, '%s => %s' % (form, show_expr(got)))
            rep.sample('%s  =>  every result element is %s' % (b.key, show_expr(got)))
        else:
            rep.viol(rule, key, '%s: result elements are %s, expected exactly %s (operand order and operation)' % (
                form, show_expr(got), show_expr(want)), site_of(b))
    rep.floor('wire-binary', 96, 'Add/Sub/Mul/Div impls on Vector/Matrix')
    rep.floor('wire-assign', 24, 'compound-assignment impls')
    rep.floor('wire-neg', 2, 'Neg impls')
    for k in eng.visited:
        rep.touch(k)

    # ------------------------------------------------------------------ D2 kernels
    kernels = [b for k, b in sorted(pdb.bodies.items())
               if b.kind == 'fn' and (b.parent == 'linalg::array::vops' or k in ('linalg::utils::sum', 'linalg::utils::dot'))]
    kshape = {}
    power_ok = False
    for b in kernels:
        f = prog.func(b.key)
        rep.touch(b.key)
        is_powi = any(c.path and c.path.endswith('::powi') for c in f.calls())
        Rk = analyse_kernel(f, allow_power_lanes=is_powi)
        aspects = ['chunks', 'unrolled-lanes', 'remainder-range', 'buffer-len', 'lane-shape', 'elementwise']
        for a in aspects:
            key = 'kernel-cover:%s:%s' % (b.key, a)
            rule = 'elementwise' if a == 'elementwise' else 'kernel-cover'
            bad = [d for x, d in Rk.bad if x == a]
            und = [d for x, d in Rk.und if x in (a, 'idiom')]
            good = [d for x, d in Rk.ok if x == a]
            if bad:
                rep.viol(rule, key, '; '.join(bad), site_of(b))
            elif und or not good:
                rep.undecided(rule, key, '; '.join(und) or 'aspect not established (idiom not recognised)', site_of(b))
            else:
                rep.ok(rule, key, '; '.join(good))
        if Rk.shape is not None and not Rk.bad and not Rk.und:
            kshape[b.key] = Rk
            rep.sample('%s: %d-way unroll + remainder, every lane computes %s' % (b.key, Rk.W, show(Rk.shape)))
            if is_powi and any('product of' in d for _, d in Rk.ok):
                power_ok = True
        # inputs cannot be modified: non-output params are shared slices / scalars
        ins = b.sig['inputs'] if b.sig else []
        muts = [t for t in ins if t.startswith('&mut')]
        # the in-place kernels are the ones named *_mut (macro naming convention of vops.rs); recognition of the loop idiom is not needed here
        want_mut = 1 if (Rk.kind == 'inplace' or b.key.endswith('_mut')) else 0
        key = 'operands-unchanged:%s' % b.key
        if len(muts) == want_mut:
            rep.ok('operands-unchanged', key, 'signature %s: inputs other than the in-place target are shared borrows' % ins)
        else:
            rep.viol('operands-unchanged', key, 'kernel takes %d &mut parameters, expected %d' % (len(muts), want_mut), site_of(b))
    rep.floor('kernel-cover', 53 * 5, '51 vops kernels + sum + dot, 5 coverage aspects each')
    rep.floor('elementwise', 53, 'one per kernel')

    # set_len sites must all be in recognised kernels (or the listed exceptions)
    SETLEN_OK = {'linalg::array::vec::Vector::empty_n': 'documented "garbage values" constructor; contents are unspecified by contract',
                 'linalg::decomposition::substitution::forward_substitution': 'x[i] is written before any read of x[..i] (C11 D5)',
                 'linalg::decomposition::substitution::backward_substitution': 'x[i] is written before any read of x[i+1..] (C11 D5)'}
    for k, b in sorted(pdb.bodies.items()):
        f = prog.func(k)
        for c in f.calls():
            if c.path and short(c.path) == 'set_len':
                key = 'set-len:%s' % k
                if k in kshape:
                    rep.ok('set-len', key, 'uninitialised buffer is fully written by a recognised kernel')
                elif k in SETLEN_OK:
                    rep.ok('set-len', key, 'listed exception: ' + SETLEN_OK[k])
                else:
                    # not a refutation: the loops of this function are outside the unroll+remainder idiom the coverage lemma reads
                    rep.undecided('set-len', key, 'set_len on an uninitialised buffer; full coverage of the buffer by the following writes is not derived '
                                  '(loop idiom outside the coverage lemma)', site_of(c.span), proof=False)
    # the number of set_len sites is not a condition of the property (a kernel rewritten to build its result with push / extend has none):
    # the scan itself is the anchor
    rep.ok('set-len', 'set-len:scan', 'every set_len call site in the crate examined')
    rep.floor('set-len', 1, 'scan of set_len call sites')

    # ------------------------------------------------------------------ D3 name identity of unary maps
    for ty, tname in (('linalg::array::vec::Vector', 'Vector'), ('linalg::array::matrix::Matrix', 'Matrix')):
        for name in UNARY + ['powi', 'powf']:
            k = '%s::%s' % (ty, name)
            key = 'name-identity:%s' % k
            if k not in pdb.bodies:
                rep.viol('name-identity', key, 'map %s.%s() no longer exists' % (tname, name))
                continue
            rep.touch(k)
            ret, eff = eng.result_of(k, {1: S, 2: R})
            got = canon_comm(ret)
            if name in ('powi', 'powf'):
                want = frozenset([('m', name, ('sym', 'SELF'), ('sym', 'RHS'))])
                if name == 'powi':
                    want = frozenset([('m', name, ('sym', 'SELF'), ('int',))])
                    got = frozenset(('m', 'powi', e[2], ('int',)) if (e[0] == 'm' and e[1] == 'powi') else e for e in got)
                    extra = frozenset([canon_comm(('b', 'Mul', ('sym', 'SELF'), ('sym', 'SELF'))),
                                       canon_comm(('b', 'Mul', ('b', 'Mul', ('sym', 'SELF'), ('sym', 'SELF')), ('sym', 'SELF')))])
                    if power_ok:
                        got = got - extra
            else:
                want = frozenset([('m', name, ('sym', 'SELF'))])
            if has_top(got):
                rep.undecided('name-identity', key, 'cannot evaluate: %s' % sorted(top_reasons(got)))
            elif name == 'powi' and not power_ok and not eff and want <= got and (got - want) <= extra:
                # x*x / x*x*x special cases next to powi: correct iff they are selected by the exponent being 2 / 3, which the kernel rule
                # establishes only for the unrolled idiom it reads
                rep.undecided('name-identity', key, 'powi with product special cases; their selection by the exponent is not derived for this loop idiom', site_of(pdb.bodies[k]), proof=False)
            elif got == want and not eff:
                rep.ok('name-identity', key, '%s::%s => %s' % (tname, name, show_expr(got)))
            else:
                rep.viol('name-identity', key, '%s::%s computes %s, expected f64::%s of each element%s' % (
                    tname, name, show_expr(got), name, ' (and mutates its receiver)' if eff else ''), site_of(pdb.bodies[k]))
    rep.floor('name-identity', 62, '31 maps x Vector, Matrix')

    # ------------------------------------------------------------------ D4 mismatch rejection
    two_array = [b for b in kernels if b.sig and sum(1 for t in b.sig['inputs'] if '[f64]' in t) == 2]
    for b in two_array:
        f = prog.func(b.key)
        names = f.names
        a1 = ('arg', 1, names.get(1))
        a2 = ('arg', 2, names.get(2))
        conds = [('bin', 'Eq', ('len', a1), ('len', a2), 'usize'), ('bin', 'Eq', ('len', a2), ('len', a1), 'usize')]
        g = f.guards()
        bad = []
        for s in f.stores():
            if tag(s.target) == 'index' or any(tag(x) == 'index' for x in subterms(s.value)):
                if not any(c in conds and v is True for c, v in g.get(s.bb, [])):
                    bad.append(s.bb)
        key = 'len-assert:%s' % b.key
        if bad:
            rep.viol('len-assert', key, 'element accesses at blocks %s are not dominated by assert_eq!(len, len)' % sorted(set(bad)), site_of(b))
        else:
            rep.ok('len-assert', key, 'assert_eq!(v1.len(), v2.len()) dominates every element access')
    rep.floor('len-assert', 9, '8 two-vector kernels + dot')

    for b, op, assign, form in impls:
        if not assign or 'Matrix' not in b.impl['self_ty']:
            continue
        m = re.match(r'std::ops::\w+<(.*)>$', b.impl['trait'])
        rhs = m.group(1) if m else b.impl['self_ty']
        if 'Matrix' not in rhs:
            continue
        f = prog.func(b.key)
        key = 'shape-assert:%s' % b.key
        ok = True
        nk = 0
        for c in f.calls():
            if c.path in pdb.bodies and pdb.bodies[c.path].parent == 'linalg::array::vops':
                nk += 1
                gs = f.guards().get(c.bb, [])
                if not any(_is_shape_eq(cnd, v) for cnd, v in gs):
                    ok = False
        if nk and ok:
            rep.ok('shape-assert', key, 'assert_eq!(self.shape(), other.shape()) dominates the kernel call')
        elif nk == 0:
            rep.undecided('shape-assert', key, 'no kernel call found in %s' % form, site_of(b))
        else:
            # the assert may sit in an in-crate helper that is given both operands, can panic and runs before the kernel (`paired_data_mut(self,
            # other)` returning the two buffers): its test is not read here
            me_, ot_ = ('arg', 1, f.names.get(1)), ('arg', 2, f.names.get(2))
            kcalls = [c for c in f.calls() if c.path in pdb.bodies and pdb.bodies[c.path].parent == 'linalg::array::vops']
            helper = None
            for c in f.calls():
                if c.path in pdb.bodies and pdb.bodies[c.path].parent != 'linalg::array::vops' and prog.func(c.path) is not None and prog.func(c.path).cfg.panics:
                    at_ = {z for a_ in c.args for z in subterms(a_)}
                    if me_ in at_ and ot_ in at_ and all(f.cfg.dominates(c.bb, kc.bb) for kc in kcalls):
                        helper = c.path
            if helper:
                rep.undecided('shape-assert', key, 'no shape assert in %s itself; %s receives both operands and can panic (its test is not read)' % (form, short(helper)),
                              site_of(b), proof=False)
            else:
                rep.viol('shape-assert', key, '%s reaches its kernel without a dominating shape-equality assert' % form, site_of(b))
    rep.floor('shape-assert', 8, 'Matrix op= Matrix impls')

    # ------------------------------------------------------------------ D5 log-domain reductions
    mx, _ = eng.result_of('statistics::order::max', {1: S})
    for name in ('logsumexp', 'logmeanexp'):
        k = 'linalg::utils::' + name
        key = 'max-shift:%s' % k
        if k not in pdb.bodies:
            rep.viol('max-shift', key, 'function disappeared')
            continue
        rep.touch(k)
        ret, _ = eng.result_of(k, {1: S})
        exps = [e for r in ret for e in _subexprs(r) if e[0] == 'm' and e[1] == 'exp']
        if has_top(ret) or not exps:
            rep.undecided('max-shift', key, 'cannot find the exponentials in %s' % show_expr(ret))
            continue
        bad = [e for e in exps if not (e[2][0] == 'b' and e[2][1] == 'Sub' and e[2][2] == ('sym', 'SELF') and frozenset([e[2][3]]) == mx)]
        outer_ok = all(r[0] == 'b' and r[1] == 'Add' and (frozenset([r[3]]) == mx or frozenset([r[2]]) == mx) for r in ret)
        if bad:
            rep.viol('max-shift', key, 'exp is applied to %s, not to (element - max(x)): large inputs overflow' % show_expr(bad[0][2]), site_of(pdb.bodies[k]))
        elif not outer_ok:
            rep.viol('max-shift', key, 'the maximum is not added back: result is %s' % show_expr(ret), site_of(pdb.bodies[k]))
        else:
            rep.ok('max-shift', key, '%s => %s' % (name, show_expr(ret)))
            rep.sample('%s => %s' % (k, show_expr(ret)))
    rep.floor('max-shift', 2, 'logsumexp, logmeanexp')

    # ------------------------------------------------------------------ D7 shape preservation
    nshape = 0
    for k, b in sorted(pdb.bodies.items()):
        if b.kind != 'assoc':
            continue
        is_map = b.parent_kind.startswith('Impl') and b.impl and b.impl['self_ty'] == 'linalg::array::matrix::Matrix' \
            and not b.impl['trait'] and b.name in UNARY + ['powi', 'powf']
        is_scalar_op = False
        recv = 1
        if b.impl and b.impl['trait']:
            m = re.match(r'std::ops::(Add|Sub|Mul|Div)<(.*)>$', b.impl['trait'])
            if m and ((b.impl['self_ty'].endswith('Matrix') and m.group(2) == 'f64') or
                      (b.impl['self_ty'] == 'f64' and m.group(2).endswith('Matrix'))):
                is_scalar_op = True
                recv = 1 if b.impl['self_ty'].endswith('Matrix') else 2
            if b.impl['trait'] == 'std::ops::Neg' and b.impl['self_ty'].endswith('Matrix'):
                is_scalar_op = True
        if not (is_map or is_scalar_op):
            continue
        f = prog.func(k)
        key = 'shape-preserved:%s' % k
        news = [c for c in f.calls() if c.path == 'linalg::array::matrix::Matrix::new']
        nshape += 1
        if len(news) != 1:
            rep.undecided('shape-preserved', key, 'expected one Matrix::new call, found %d' % len(news), site_of(b))
            continue
        c = news[0]
        recv_t = ('arg', recv, f.names.get(recv))
        want_r = [('field', recv_t, 1, 'usize'), ('field', recv_t, 2, 'usize')]

        def dim(t):
            while tag(t) == 'cast':
                t = t[2]
            return t
        if dim(c.args[1]) == want_r[0] and dim(c.args[2]) == want_r[1]:
            rep.ok('shape-preserved', key, 'result built with (receiver.nrows, receiver.ncols)')
        else:
            rep.viol('shape-preserved', key, 'result shape is (%s, %s), not the receiver\'s (nrows, ncols)' % (show(c.args[1]), show(c.args[2])), site_of(c.span))
    rep.floor('shape-preserved', 31 + 16 + 1, 'Matrix maps, scalar forms, Neg')

    # ------------------------------------------------------------------ reduction wiring
    def same_as(method, free, args=None):
        key = 'reduction-wiring:%s' % method
        if method not in pdb.bodies or free not in pdb.bodies:
            rep.viol('reduction-wiring', key, 'missing %s or %s' % (method, free))
            return
        a, _ = eng.result_of(method, {1: S})
        b2, _ = eng.result_of(free, {1: S})
        rep.touch(method, free)
        if has_top(a) or has_top(b2):
            rep.undecided('reduction-wiring', key, 'cannot evaluate (%s)' % sorted(top_reasons(a) | top_reasons(b2)))
        elif a == b2:
            rep.ok('reduction-wiring', key, '%s == %s' % (method, free))
        else:
            rep.viol('reduction-wiring', key, '%s computes %s but %s computes %s' % (method, show_expr(a), free, show_expr(b2)), site_of(pdb.bodies[method]))
    for nm in ('norm', 'sum', 'prod', 'logsumexp', 'logmeanexp'):
        same_as('linalg::array::vec::Vector::' + nm, 'linalg::utils::' + nm)
    for nm in ('norm', 'sum', 'prod'):
        same_as('linalg::array::matrix::Matrix::' + nm, 'linalg::utils::' + nm)
    # norm = sqrt(dot(x, x)); prod = product of the elements
    d, _ = eng.result_of('linalg::utils::dot', {1: S, 2: S})
    nrm, _ = eng.result_of('linalg::utils::norm', {1: S})
    key = 'reduction-wiring:linalg::utils::norm:def'
    if nrm == frozenset(('m', 'sqrt', x) for x in d) and not has_top(d):
        rep.ok('reduction-wiring', key, 'norm(x) = sqrt(dot(x, x))')
    elif '.sqrt()' not in show_expr(nrm) or has_top(d):
        (rep.undecided if has_top(d) or has_top(nrm) else rep.viol)('reduction-wiring', key, 'norm computes %s, expected sqrt(dot(x,x))' % show_expr(nrm)[:200],
                                                                    site_of(pdb.bodies.get('linalg::utils::norm')))
    else:
        rep.undecided('reduction-wiring', key, 'norm is a square root of something not read as dot(x, x): %s' % show_expr(nrm)[:120],
                      site_of(pdb.bodies.get('linalg::utils::norm')), proof=False)
    # norm on constant-vector witnesses: the closed form is evaluated for x = (v, .., v) of length n -- every reduction applies its one-element
    # update n times from its seed -- and compared with |v| sqrt(n).  The all-zero vector is the witness that matters: a norm that scales by
    # the largest magnitude first divides 0 by 0 there
    key = 'reduction-wiring:linalg::utils::norm:witness'
    import math as _m
    bad_, used_ = None, 0
    if not has_top(nrm) and len(nrm) == 1:
        for v_, n_ in ((0.0, 3), (3.0, 4), (-2.0, 9), (1e-200, 2), (1e200, 2)):
            try:
                got_ = _const_vector_eval(next(iter(nrm)), v_, n_)
            except _Unread:
                continue
            used_ += 1
            want_ = abs(v_) * _m.sqrt(n_)
            if _m.isinf(got_) and abs(v_) > 1e150:
                continue          # overflow of the plain sum of squares for huge entries is not judged here
            if abs(v_) < 1e-150 and got_ == 0.0:
                continue          # nor its underflow for tiny ones
            if got_ != got_ or abs(got_ - want_) > 1e-9 * max(1.0, abs(want_)):
                bad_ = (v_, n_, got_, want_)
                break
    if bad_:
        rep.viol('reduction-wiring', key, 'norm of the vector of %d entries all equal to %r evaluates to %r; the Euclidean norm is %r' % (bad_[1], bad_[0], bad_[2], bad_[3]),
                 site_of(pdb.bodies.get('linalg::utils::norm')))
    elif used_:
        rep.ok('reduction-wiring', key, 'norm of constant vectors (the zero vector included) equals |v| sqrt(n) on %d witnesses' % used_)
    else:
        rep.undecided('reduction-wiring', key, 'closed form of norm not evaluated on constant vectors', site_of(pdb.bodies.get('linalg::utils::norm')), proof=False)
    pr, _ = eng.result_of('linalg::utils::prod', {1: S})
    key = 'reduction-wiring:linalg::utils::prod:def'
    if pr == frozenset([('red', 'product', S)]):
        rep.ok('reduction-wiring', key, 'prod(x) = product of the elements')
    else:
        rep.viol('reduction-wiring', key, 'prod computes %s' % show_expr(pr), site_of(pdb.bodies.get('linalg::utils::prod')))
    # infinity norm: max over rows of the sum of absolute values (both implementations)
    for k in ('linalg::utils::inf_norm', 'linalg::array::matrix::Matrix::inf_norm'):
        key = 'reduction-wiring:%s:def' % k
        r, _ = eng.result_of(k, {1: S})
        rep.touch(k)
        ok = len(r) == 1 and _is_max_of_abs_sums(next(iter(r)))
        if has_top(r):
            rep.undecided('reduction-wiring', key, 'cannot evaluate: %s' % sorted(top_reasons(r)))
        elif ok:
            rep.ok('reduction-wiring', key, 'inf_norm = max over rows of sum |x|: %s' % show_expr(r)[:160])
        else:
            # definite only when an ingredient is missing altogether (no absolute value, or no maximum); a sum / maximum written as a fold in
            # a shape the matcher does not know is not read
            txt = show_expr(r)
            if '.abs()' not in txt or '.max(' not in txt:
                rep.viol('reduction-wiring', key, 'inf_norm computes %s' % txt[:300], site_of(pdb.bodies[k]))
            else:
                rep.undecided('reduction-wiring', key, 'inf_norm has |x|, a sum and a maximum but not in a form read as max over rows of sum |x|: %s' % txt[:120],
                              site_of(pdb.bodies[k]), proof=False)
    rep.floor('reduction-wiring', 12, 'delegation + definitions of norm/prod/inf_norm')
    rep.trusted.append('IEEE-754 commutativity of f64 + and * (operand order canonicalised for Add/Mul only)')
    rep.assumptions.append('Rust f64 operators and std f64 methods have no fast-math latitude')
    return {}


def _is_shape_eq(c, v):
    if v is not True:
        return False
    if tag(c) == 'call' and c[1].endswith('::eq') and len(c[2]) == 2:
        a, b = c[2]
        return tag(a) == 'call' and a[1].endswith('Matrix::shape') and tag(b) == 'call' and b[1].endswith('Matrix::shape') \
            and a[2] != b[2]
    return False


def _subexprs(e):
    if isinstance(e, frozenset):
        for x in e:
            yield from _subexprs(x)
        return
    if not isinstance(e, tuple):
        return
    yield e
    for x in e[1:]:
        if isinstance(x, (tuple, frozenset)):
            yield from _subexprs(x)


def _is_max_of_abs_sums(e):
    """fold{acc.max(<sum of abs(elem)>)}: every leaf element occurrence is wrapped in abs and only Add combines them"""
    if not (e[0] == 'red' and e[1] == 'fold'):
        return False
    maxes = [x for x in e[2] if x[0] == 'm' and x[1] == 'max']
    if len(maxes) != 1:
        return False
    inner = maxes[0][3] if len(maxes[0]) > 3 else None
    if inner is None:
        return False

    def sum_of_abs(x):
        if x[0] == 'red' and x[1] in ('acc', 'sum', 'fold'):
            return all(sum_of_abs(y) for y in x[2])
        if x[0] == 'b' and x[1] == 'Add':
            return sum_of_abs(x[2]) and sum_of_abs(x[3])
        if x == ('sym', 'acc') or (x[0] == 'c' and x[1] == 0.0):
            return True
        if x[0] == 'm' and x[1] == 'abs' and x[2] == ('sym', 'SELF'):
            return True
        return False
    return sum_of_abs(inner)


class _Unread(Exception):
    pass


def _const_vector_eval(e, v, n):
    """value of an element-abstraction closed form when every element of the input is v and there are n of them: a reduction starts from
    its constant seed (0 for a sum without one) and applies its smallest one-element update n times"""
    import math

    def ev(x, acc=None):
        k = x[0]
        if k == 'sym':
            if x[1] == 'acc':
                if acc is None:
                    raise _Unread('acc outside a reduction')
                return acc
            return v
        if k == 'c':
            return float(x[1])
        if k == 'cast':
            return float(ev(x[1], acc))
        if k == 'len':
            return float(n)
        if k == 'neg':
            return -ev(x[1], acc)
        if k == 'b':
            a, b = ev(x[2], acc), ev(x[3], acc)
            try:
                if x[1] == 'Add':
                    return a + b
                if x[1] == 'Sub':
                    return a - b
                if x[1] == 'Mul':
                    return a * b
                if x[1] == 'Div':
                    if b == 0.0:
                        return float('nan') if (a == 0.0 or a != a) else math.copysign(float('inf'), a) * math.copysign(1.0, b)
                    return a / b
            except OverflowError:
                return float('inf')
            raise _Unread('op ' + x[1])
        if k == 'm':
            args = [ev(a_, acc) for a_ in x[2:]]
            nm = x[1]
            try:
                if nm == 'sqrt':
                    return math.sqrt(args[0]) if args[0] >= 0 else float('nan')
                if nm == 'abs':
                    return abs(args[0])
                if nm == 'max':
                    return max(args) if not any(a_ != a_ for a_ in args) else [a_ for a_ in args if a_ == a_][0] if any(a_ == a_ for a_ in args) else float('nan')
                if nm == 'min':
                    return min(args) if not any(a_ != a_ for a_ in args) else [a_ for a_ in args if a_ == a_][0] if any(a_ == a_ for a_ in args) else float('nan')
                if nm == 'powi':
                    return args[0] ** int(args[1])
                if nm == 'exp':
                    return math.exp(args[0])
                if nm == 'ln':
                    return math.log(args[0]) if args[0] > 0 else (float('-inf') if args[0] == 0 else float('nan'))
            except (OverflowError, ValueError):
                return float('inf')
            raise _Unread('method ' + nm)
        if k == 'red':
            forms = list(x[2])
            seeds = [f_ for f_ in forms if f_[0] == 'c']
            ups = [f_ for f_ in forms if f_[0] != 'c']
            if x[1] == 'sum':
                tot = 0.0
                if len(ups) != 1 and not (len(forms) == 1):
                    raise _Unread('sum of several forms')
                term = ev(forms[0] if len(forms) == 1 else ups[0], None)
                for _ in range(n):
                    tot += term
                return tot
            if x[1] == 'product':
                tot = 1.0
                term = ev(forms[0], None)
                for _ in range(n):
                    tot *= term
                return tot
            ups = [u for u in ups if _mentions_acc(u)]
            if not ups or len(seeds) > 1:
                raise _Unread('reduction without an update')
            one = min(ups, key=lambda u: len(repr(u)))
            a_ = ev(seeds[0]) if seeds else 0.0
            for _ in range(n):
                a_ = ev(one, a_)
            return a_
        raise _Unread('node ' + str(k))
    return ev(e)


def _mentions_acc(u):
    if u == ('sym', 'acc'):
        return True
    return isinstance(u, tuple) and any(_mentions_acc(y) for y in u[1:] if isinstance(y, tuple))
