"""C03 — samplers draw from the distribution they describe, in every parameter regime.

The law itself (DKW band) is a runtime statistical statement and is NOT decided.  Decided necessary conditions:
D1 Ziggurat tables: X[i] = W[i]*2^24 increasing, Y[0] = 1, Y[i] = exp(-X[i-1]^2/2), K[0] = 0, K[i] = floor(2^24 X[i-1]/X[i]),
   X[126] = R, equal layer areas (E-TAB on the evaluated consts).
D2 domain of partial operations (sqrt / ln / powf base) in every sampler body under constructor invariants and dominating
   guards (interval domain); a violation is reported only with a concrete witness parameter.
D3 degenerate-bounds precondition of the RNG call (shared with C19).
D4 bulk sampling returns exactly the requested number / shape of draws.
D5 scale type of sample() for the location/scale/rate families (E-SYM).
D6 every loop that draws from the RNG has an exit whose condition depends on a draw made inside the loop.
D7 discrete samplers return integer-valued floats (casts of integers, floor, integer literals, sums/differences).
"""
import math
from ..ir import tag, show, short, subterms, is_f64_method, f64_method_name, is_panic_path
from ..elem import ElemEngine, show_expr, has_top, top_reasons
from ..sym import SymInfer, Ty, unit
from ..structs import StructModel, canon_guard
from ..absint import AbsEval, Iv, Val, TOPIV, INF
from ..poly import poly, peq, pmul, pconst
from ..framework import site_of
from . import c02, c19

LEVEL = 'other'
EXPLANATION = (
    'Necessary conditions of the sampling property decided statically: algebraic relations of the 3x128 Ziggurat literals; interval '
    'evaluation of every sqrt/ln/powf argument of the sampler bodies under the invariants established by all writers of the struct and the '
    'guards dominating the use (a violation needs a concrete witness parameter); RNG precondition vs invariant; symbolic counts/shapes of the '
    'bulk helpers; scale types of sample(); dependence of every RNG loop exit on a draw made in the loop (termination with probability 1 is '
    'impossible otherwise); integrality of the discrete samplers\' return values. Conformance of the empirical law is NOT decided.')

DS = 'distributions::'
S = frozenset([('sym', 'SELF')])


def run(prog, rep, tier, repo):
    pdb = prog.pdb
    d1_tables(prog, rep)
    d2_domains(prog, rep)
    c19.check_rng_precondition(prog, rep)
    rep.floor('precondition', 1, 'DiscreteUniform::sample')
    d4_bulk(prog, rep)
    d5_scale(prog, rep)
    d6_loops(prog, rep)
    d8_regimes(prog, rep)
    d9_param_truncation(prog, rep)
    d10_mvn(prog, rep)
    d7_integral(prog, rep)
    # ---- D9 ln(Gamma(x)) with an unbounded argument: Gamma overflows above 171.6 while its logarithm does not; an acceptance test
    # `.. <= .. - gamma(k + 1).ln()` is then always false for k >= 171 and those candidates can never be returned
    nlg = 0
    for k_, b_ in sorted(pdb.bodies.items()):
        if not (k_.startswith(DS) or k_.startswith('<' + DS)):
            continue
        f_ = prog.func(k_)
        pool = [c for gl in f_.guards().values() for c, _ in gl] + [st.value for st in f_.stores()] + list(f_.return_values())
        seen_ = set()
        for t_ in pool:
            for z in subterms(t_):
                if tag(z) == 'call' and is_f64_method(z[1]) and f64_method_name(z[1]) == 'ln' and tag(z[2][0]) == 'call' and z[2][0][1] == 'functions::gamma::gamma' and z not in seen_:
                    seen_.add(z)
                    nlg += 1
                    arg = z[2][0][2][0]
                    bounded = tag(arg) == 'const'
                    key_ = 'ln-of-gamma:%s' % short(k_)
                    if bounded:
                        rep.ok('ln-of-gamma', key_, 'constant argument')
                    else:
                        rep.viol('ln-of-gamma', key_, 'ln(Gamma(%s)) is formed by taking the logarithm of gamma(): for arguments above 171.6 Gamma is +inf, the logarithm is +inf and any test '
                                 'against it degenerates (PTRS then rejects every candidate k >= 171 that needs the log test: Poisson(160) draws have mean 158.97); '
                                 'use the log-gamma function' % show(arg)[:40], site_of(f_.body))
    rep.ok('ln-of-gamma', 'ln-of-gamma:scan', '%d ln(gamma(.)) compositions in distributions::' % nlg)
    from ..chunks import check_chunk_remainder
    check_chunk_remainder(prog, rep, 'chunk-remainder', lambda k: 'distributions::' in k)
    rep.trusted.append('alea::f64() lies in [0, 1)')
    d11_total(prog, rep)
    d12_uniform_support(prog, rep)
    # a sampler that builds a shifted twin of its object with struct-update syntax must not carry derived constants of the old parameters
    from . import c18
    c18.check_literals(prog, rep, 'literal-coherent')
    rep.floor('literal-coherent', 1, 'scan of distributions::')
    return {}


# valid parameter settings per constructor (the regimes the property names are inside: equal bounds, p in {0, 1})
VALID = {
    'bernoulli::Bernoulli': lambda a: 0. <= a['p'] <= 1.,
    'beta::Beta': lambda a: a['alpha'] > 0 and a['beta'] > 0,
    'binomial::Binomial': lambda a: a['n'] >= 1 and 0. <= a['p'] <= 1.,
    'chi_squared::ChiSquared': lambda a: a['dof'] >= 1,
    'discreteuniform::DiscreteUniform': lambda a: a['lower'] <= a['upper'],
    'exponential::Exponential': lambda a: a['lambda'] > 0,
    'gamma::Gamma': lambda a: a['alpha'] > 0 and a['beta'] > 0,
    'gumbel::Gumbel': lambda a: a['beta'] > 0,
    'normal::Normal': lambda a: a['sigma'] > 0,
    'pareto::Pareto': lambda a: a['alpha'] > 0 and a['minval'] > 0,
    'poisson::Poisson': lambda a: a['lambda'] > 0,
    't::T': lambda a: a['dof'] > 0,
    'uniform::Uniform': lambda a: a['lower'] <= a['upper'],
}


def d12_uniform_support(prog, rep):
    """every draw of Uniform(lower, upper) lies in [lower, upper], decided on exact witnesses: the expression `sample` returns is evaluated
    in IEEE double arithmetic with the generator's value u read as a number of [0, 1), for the degenerate laws lower == upper the property
    names (where the only point of the support must come out bit for bit) and for a few ordinary intervals with u away from the ends."""
    from ..precond import tev, Frame, Uneval, NC, _nk
    k = '<%suniform::Uniform as %sDistribution>::sample' % (DS, DS)
    f = prog.func(k)
    key = 'support-witness:Uniform'
    if f is None:
        rep.viol('support-witness', key, 'Uniform::sample disappeared')
        rep.floor('support-witness', 1, 'Uniform::sample')
        return
    rep.touch(k)
    adt = prog.pdb.adts.get(DS + 'uniform::Uniform')
    fnames = [fl['name'] for fl in adt['variants'][0]['fields']] if adt else []
    if 'lower' not in fnames or 'upper' not in fnames:
        rep.undecided('support-witness', key, 'fields lower / upper not found', site_of(f.body), proof=False)
        rep.floor('support-witness', 1, 'Uniform::sample')
        return
    il, iu = fnames.index('lower'), fnames.index('upper')
    me = ('arg', 1, None)
    ncx = NC(prog)
    us = [0.0, 0.1, 0.2, 0.3, 0.37, 0.5, 0.6, 0.7, 0.77, 0.9, 0.99, 1.0 - 2.0 ** -53]
    pts = [(a, a) for a in (0.1, 0.3, 1.0 / 3.0, 0.7, 1.1, 2.9, -0.1, -1.3, 1e-3, 1e3 + 0.1, 5e-324, 1.7976931348623157e308)]
    pts += [(-1.3, 2.9), (0.0, 1.0), (0.4, 0.95), (-5.0, -1.0)]
    bad, used = None, 0
    rets = f.return_values()
    for lo, hi in pts:
        for u in us:
            if lo != hi and not (0.05 < u < 0.95):
                continue          # ordinary intervals: rounding at the very ends is not judged here
            env = {_nk(('field', me, il, None)): lo, _nk(('field', me, iu, None)): hi,
                   '__fn__': {'alea::f64': (lambda u=u: u), 'alea::f64_in_range': (lambda a, b, u=u: a + (b - a) * u)}}
            ctx = Frame(f, env=env, ncx=ncx)
            try:
                vals = [tev(r, ctx) for r in rets]
            except Uneval:
                continue
            used += 1
            for v in vals:
                if not (isinstance(v, float) and lo <= v <= hi):
                    bad = (lo, hi, u, v)
                    break
            if bad:
                break
        if bad:
            break
    for kk in ncx.visited:
        rep.touch(kk)
    if bad:
        rep.viol('support-witness', key, 'Uniform(%r, %r).sample() returns %r when the generator yields u = %r: outside the support [%r, %r]%s' % (
            bad[0], bad[1], bad[3], bad[2], bad[0], bad[1], ' (the degenerate law must return its only point)' if bad[0] == bad[1] else ''), site_of(f.body))
    elif used:
        rep.ok('support-witness', key, 'the returned expression stays in [lower, upper] on %d exact (bounds, u) witnesses, degenerate bounds included' % used)
    else:
        rep.undecided('support-witness', key, 'returned expression not evaluated on any witness', site_of(f.body), proof=False)
    rep.floor('support-witness', 1, 'Uniform::sample')


def d11_total(prog, rep):
    """every valid parameter setting is accepted and can be sampled: no witness inside the valid region on which the constructor cannot
    return (a bound check turned strict rejects the degenerate equal-bounds laws), and none admitted by the constructor on which
    `sample` cannot return (a callee precondition the parameters do not guarantee)"""
    from ..precond import check_returns, NC
    pdb = prog.pdb
    ncx = NC(prog)
    n = 0
    for d, valid in sorted(VALID.items()):
        k = DS + d + '::new'
        f = prog.func(k)
        if f is None:
            continue

        def dom(env, at, valid=valid, f=f):
            byname = {}
            for nkey, val in env.items():
                t = at[nkey][1]
                if tag(t) == 'arg' and t[2]:
                    byname[t[2]] = val
            try:
                return bool(valid(byname))
            except KeyError:
                return False          # a parameter the table does not know: no witness is claimed valid
        n += check_returns(prog, rep, 'total', [k], domain=dom, ncx=ncx, what='although the parameters are a valid setting of the law')
        sk = '<%s as %sDistribution>::sample' % (DS + d, DS)
        if sk in pdb.bodies:
            n += check_returns(prog, rep, 'total', [sk], ncx=ncx, what='for an object its constructor admits')
    rep.floor('total', 26, 'new and sample of the 13 laws')


# =============================================================================== D1
def d1_tables(prog, rep):
    pdb = prog.pdb
    N = 'distributions::normal::'
    K, W, Y, R = (pdb.const_value(N + n) for n in ('K', 'W', 'Y', 'R'))
    if not (K and W and Y and R is not None) or not (len(K) == len(W) == len(Y) == 128):
        rep.undecided('ziggurat', 'ziggurat:tables', 'tables K/W/Y/R not found as 128-entry consts')
        return
    X = [w * 2.0 ** 24 for w in W]

    def rel(a, b):
        return abs(a - b) / max(abs(a), abs(b), 1e-300)
    n = 0
    for i in range(128):
        key = 'ziggurat:X-increasing:%d' % i
        if i == 0 or X[i] > X[i - 1] > 0:
            rep.ok('ziggurat', key, 'X[%d] = %g' % (i, X[i]))
        else:
            rep.viol('ziggurat', key, 'X[%d] = W[%d]*2^24 = %r is not above X[%d] = %r' % (i, i, X[i], i - 1, X[i - 1]), site_of(pdb.consts[N + 'W']['span']))
        key = 'ziggurat:Y:%d' % i
        want = 1.0 if i == 0 else math.exp(-X[i - 1] ** 2 / 2)
        if rel(Y[i], want) < 1e-9:
            rep.ok('ziggurat', key, 'Y[%d] = exp(-X[%d]^2/2)' % (i, i - 1) if i else 'Y[0] = 1')
        else:
            rep.viol('ziggurat', key, 'Y[%d] = %r but exp(-X[%d]^2/2) = %r: the rejection test under layer %d uses a wrong density bound' % (i, Y[i], i - 1, want, i),
                     site_of(pdb.consts[N + 'Y']['span']))
        key = 'ziggurat:K:%d' % i
        wantk = 0 if i == 0 else int(2.0 ** 24 * X[i - 1] / X[i])
        if K[i] == wantk:
            rep.ok('ziggurat', key, 'K[%d] = floor(2^24 X[%d]/X[%d])' % (i, i - 1, i) if i else 'K[0] = 0')
        else:
            rep.viol('ziggurat', key, 'K[%d] = %d but floor(2^24*X[%d]/X[%d]) = %d: the fast-accept threshold of layer %d does not match the rectangle below it' % (
                i, K[i], i - 1, i, wantk, i), site_of(pdb.consts[N + 'K']['span']))
    key = 'ziggurat:R'
    if rel(X[126], R) < 1e-9:
        rep.ok('ziggurat', key, 'X[126] = R = %r (start of the tail)' % R)
    else:
        rep.viol('ziggurat', key, 'R = %r but X[126] = %r' % (R, X[126]), site_of(pdb.consts[N + 'R']['span']))
    areas = [X[i] * (Y[i] - Y[i + 1]) for i in range(127)]
    key = 'ziggurat:equal-areas'
    if max(areas) - min(areas) < 1e-8 * max(areas):
        rep.ok('ziggurat', key, 'all 127 layers have area %.12g' % areas[0])
    else:
        rep.viol('ziggurat', key, 'layer areas range from %r to %r' % (min(areas), max(areas)))
    rep.floor('ziggurat', 128 * 3 + 2, '3 x 128 table entries, R, areas')
    rep.sample('ziggurat: X[0]=%g..X[127]=%g, Y[127]=%g, K[1]=%d' % (X[0], X[127], Y[127], K[1]))
    # the sampler must read the tables with one common layer index
    f = prog.func('<%snormal::Normal as %sDistribution>::sample' % (DS, DS))
    key = 'ziggurat:layer-index'
    if f is not None:
        rep.touch(f.body.key)
        idxs = {}
        for t in [c for c in f.calls()] and []:
            pass
        terms = [s.value for s in f.stores()] + [a for c in f.calls() for a in c.args] + [cn for gl in f.guards().values() for cn, v in gl] + f.return_values()
        for t in terms:
            for z in subterms(t):
                if tag(z) == 'index' and tag(z[1]) == 'constx' and z[1][3] in (N + 'K', N + 'W', N + 'Y'):
                    idxs.setdefault(short(z[1][3]), set()).add(z[2])
        ok = bool(idxs.get('K')) and bool(idxs.get('W')) and len(idxs.get('K', ())) == 1 and idxs.get('W') == idxs.get('K')
        base = next(iter(idxs['K'])) if idxs.get('K') else None
        oky = base is not None and all(pconst({m: c for m, c in _psub(poly(z), poly(base)).items()}) in (0, 1) for z in idxs.get('Y', ()))
        if ok and oky:
            rep.ok('ziggurat', key, 'K, W are read at layer i and Y at i, i+1 with one common i = %s' % show(base)[:50])
        else:
            rep.viol('ziggurat', key, 'tables are read at different layers: %s' % {k: [show(x)[:40] for x in v] for k, v in idxs.items()}, site_of(f.body))


def _psub(a, b):
    from ..poly import psub
    return psub(a, b)


# =============================================================================== D2
def d2_domains(prog, rep):
    pdb = prog.pdb
    n = 0
    for d in c02.ALL:
        path = DS + d
        sk = '<%s as %sDistribution>::sample' % (path, DS)
        f = prog.func(sk)
        if f is None:
            rep.viol('domain', 'domain:%s' % sk, 'sample disappeared')
            continue
        rep.touch(sk)
        sm = StructModel(prog, path)
        inv = _field_intervals(sm)
        me = ('arg', 1, f.names.get(1))
        for c in f.calls():
            if not (c.path and is_f64_method(c.path)):
                continue
            name = f64_method_name(c.path)
            if name not in ('sqrt', 'ln', 'powf'):
                continue
            if name == 'powf' and tag(c.args[1]) == 'const':
                continue
            n += 1
            arg = c.args[0]
            key = 'domain:%s:%s(%s)' % (d.split('::')[1], name, show(arg)[:60])
            giv = _guard_intervals(f, c.bb, me, sm)
            merged = dict(inv)
            for k2, v2 in giv.items():
                merged[k2] = _meet(merged.get(k2, Iv()), v2)

            def leaf(t, merged=merged):
                if tag(t) == 'field' and t[1] == me and t[2] in merged:
                    return merged[t[2]]
                if tag(t) == 'call' and t[1] == 'alea::f64':
                    return Iv(0.0, 1.0, False, True)
                return None
            ev = AbsEval(leaf, const_value=lambda t: pdb.const_value(t[3]) if t[3] else None, call_hook=_sample_hook(prog, me, merged))
            val = ev.ev(arg)
            if val.iv.is_nonneg():
                rep.ok('domain', key, '%s argument in %r under %s' % (name, val.iv, {sm.fname(i): repr(v) for i, v in merged.items()}))
                continue
            # witness: argument affine in one field
            w = _witness(arg, me, merged, sm)
            if w is not None:
                fi, value, at = w
                rep.viol('domain', key, '%s::sample takes %s(%s); for the valid parameter %s = %s this argument is %g < 0, so the result is NaN '
                         '(a NaN in an acceptance test makes the rejection loop spin forever)' % (d.split('::')[1], name, show(arg)[:80], sm.fname(fi), value, at), site_of(c.span))
            else:
                rep.undecided('domain', key, 'not proved non-negative (interval %r); no single-parameter witness' % val.iv, site_of(c.span), proof=False)
    rep.floor('domain', 6, 'sqrt/ln/powf sites in sampler bodies')


def _sample_hook(prog, me, merged):
    def hook(ev, t):
        p = t[1]
        if p.endswith('Distribution>::sample') and p in prog.pdb.bodies:
            # a nested sampler: value range by law (Uniform(0,1) -> [0,1), Normal -> R, Gamma -> (0, inf))
            if 'uniform::Uniform' in p:
                return Val(Iv(0.0, 1.0, False, True), '?')
            if 'gamma::Gamma' in p or 'exponential::Exponential' in p or 'chi_squared' in p:
                return Val(Iv(0.0, INF, False, True), '?')
            return Val(TOPIV, '?')
        return None
    return hook


def _meet(a, b):
    lo, lo_open = (a.lo, a.lo_open) if (a.lo > b.lo or (a.lo == b.lo and a.lo_open)) else (b.lo, b.lo_open)
    hi, hi_open = (a.hi, a.hi_open) if (a.hi < b.hi or (a.hi == b.hi and a.hi_open)) else (b.hi, b.hi_open)
    return Iv(lo, hi, lo_open, hi_open)


def _field_intervals(sm):
    inv = {}
    if sm.new is None:
        return inv
    for g in sm.new_guards:
        if g[0] == 'cond' and tag(g[1]) == 'call' and g[1][1].endswith('RangeInclusive::<Idx>::contains') and g[2] is True:
            rng, a = g[1][2]
            if tag(a) == 'arg' and tag(rng) == 'constx' and str(rng[2]).startswith('bytes:'):
                import struct
                lo, hi = struct.unpack('<dd', bytes.fromhex(rng[2][6:])[:16])
                for fi, al in sm.param_of.items():
                    if al == a[1]:
                        inv[fi] = Iv(lo, hi, False, False)
            continue
        if g[0] != 'cmp':
            continue
        for fi, al in sm.param_of.items():
            na = sm.new_arg(al)
            iv = _cmp_interval(g, na)
            if iv is not None:
                inv[fi] = _meet(inv.get(fi, Iv()), iv)
    for i, fl in enumerate(sm.fields):
        if fl['ty'] in ('usize', 'u64', 'u32'):
            inv[i] = _meet(inv.get(i, Iv()), Iv(0.0, INF, False, True))
    return inv


def _cmp_interval(g, leaf):
    op, a, b, truth = g[1], g[2], g[3], g[4]
    if a == leaf and tag(b) == 'const' and isinstance(b[2], (int, float)) and not isinstance(b[2], bool):
        c = float(b[2])
        if op == 'Lt':
            return Iv(-INF, c, True, True) if truth else Iv(c, INF, False, True)
        if op == 'Le':
            return Iv(-INF, c, True, False) if truth else Iv(c, INF, True, True)
    if b == leaf and tag(a) == 'const' and isinstance(a[2], (int, float)) and not isinstance(a[2], bool):
        c = float(a[2])
        if op == 'Lt':
            return Iv(c, INF, True, True) if truth else Iv(-INF, c, True, False)
        if op == 'Le':
            return Iv(c, INF, False, True) if truth else Iv(-INF, c, True, True)
    return None


def _guard_intervals(f, bb, me, sm):
    out = {}
    for cn, v in f.guards().get(bb, []):
        g = canon_guard(cn, v)
        if g[0] != 'cmp':
            continue
        for i in range(sm.nfields):
            leaf = ('field', me, i, sm.fields[i]['ty'])
            iv = _cmp_interval(g, leaf)
            if iv is not None:
                out[i] = _meet(out.get(i, Iv()), iv)
    return out


def _witness(arg, me, merged, sm):
    """arg is an affine function a*field + b of one field with numeric a, b: find a field value inside its interval
    where arg < 0"""
    from fractions import Fraction
    fields = {z for z in subterms(arg) if tag(z) == 'field' and z[1] == me}
    if len(fields) != 1:
        return None
    fld = next(iter(fields))

    def aff(t):
        k = tag(t)
        if t == fld:
            return (Fraction(1), Fraction(0))
        if k == 'const' and isinstance(t[2], (int, float)):
            return (Fraction(0), Fraction(t[2]).limit_denominator(10 ** 12))
        if k == 'bin' and t[4] == 'f64':
            a, b = aff(t[2]), aff(t[3])
            if a is None or b is None:
                return None
            if t[1] == 'Add':
                return (a[0] + b[0], a[1] + b[1])
            if t[1] == 'Sub':
                return (a[0] - b[0], a[1] - b[1])
            if t[1] == 'Mul':
                if a[0] == 0:
                    return (a[1] * b[0], a[1] * b[1])
                if b[0] == 0:
                    return (a[0] * b[1], a[1] * b[1])
                return None
            if t[1] == 'Div' and b[0] == 0 and b[1] != 0:
                return (a[0] / b[1], a[1] / b[1])
        return None
    r = aff(arg)
    if r is None or r[0] == 0:
        return None
    a, b = r
    iv = merged.get(fld[2], Iv())
    root = -b / a          # arg(root) = 0
    # pick a point strictly inside the interval on the negative side
    if a > 0:
        lo = iv.lo
        if lo == -INF:
            cand = root - 1
        else:
            if Fraction(lo) >= root:
                return None
            cand = (Fraction(lo) + root) / 2
            if cand == Fraction(lo) and iv.lo_open:
                return None
    else:
        hi = iv.hi
        if hi == INF:
            cand = root + 1
        else:
            if Fraction(hi) <= root:
                return None
            cand = (Fraction(hi) + root) / 2
    val = a * cand + b
    if val >= 0:
        return None
    return fld[2], str(cand), float(val)


# =============================================================================== D4
def d4_bulk(prog, rep):
    """bulk helpers return exactly the requested number / shape of draws, each a fresh self.sample().  Lengths come from the
    counting-loop abstraction (cva/counts.py): iterator pipelines over 0..n, for loops and while-counter loops are all read"""
    from ..counts import trip_count, loops_of, appends
    from ..idx import strip_casts
    eng = ElemEngine(prog)
    SAMPLE = DS + 'Distribution::sample'

    def pipeline_len(t):
        """length of collect(map(range / iter))"""
        if tag(t) == 'call' and short(t[1]) == 'collect':
            t = t[2][0]
            if tag(t) == 'call' and short(t[1]) == 'map':
                it = t[2][0]
                while tag(it) == 'call' and short(it[1]) in ('into_iter', 'iter'):
                    it = it[2][0]
                if tag(it) == 'range':
                    return psub_(poly(it[2]), poly(it[1]))
        return None

    def filled_len(f, vec, per_item=None):
        """number of appends to vec over the whole body: one unconditional append per iteration of one counting loop"""
        for li in loops_of(f):
            aps = appends(f, vec, li)
            if not aps:
                continue
            if len(aps) != 1 or not aps[0][1]:
                return None, aps
            tc = trip_count(f, li)
            return tc, aps
        return None, []

    # ---- Distribution1D::sample_n
    k = DS + 'Distribution1D::sample_n'
    f = prog.func(k)
    key = 'bulk:sample_n'
    if f is None:
        rep.viol('bulk', key, 'default sample_n disappeared')
    else:
        rep.touch(k)
        n = ('arg', 2, f.names.get(2))
        rets = f.return_values()
        ret, _ = eng.result_of(k, {1: S})
        def is_draw(e):
            # the trait method has no body in the default implementation: the element abstraction reports it as an unknown callee
            return isinstance(e, tuple) and ((e[0] == 'call' and e[1] == SAMPLE) or (e[0] == 'top' and e[1] == 'std callee ' + SAMPLE))
        elems_ok = isinstance(ret, frozenset) and bool(ret) and all(is_draw(e) for e in ret)
        if elems_ok:
            ret = frozenset([('sym', 'draw')])
        ln = None
        if len(rets) == 1:
            ln = pipeline_len(rets[0])
            if ln is None:
                v = rets[0]
                while tag(v) == 'call' and v[1].endswith('Vector::new') or (tag(v) == 'call' and short(v[1]) in ('from', 'into')):
                    v = v[2][0]
                ln, _aps = filled_len(f, v)
        if ln is not None and not peq(ln, poly(n)):
            rep.viol('bulk', key, 'sample_n(n) returns %s draws, not n' % pshow_(ln), site_of(f.body))
        elif isinstance(ret, frozenset) and not has_top(ret) and not elems_ok:
            rep.viol('bulk', key, 'sample_n returns elements %s that are not fresh self.sample() draws' % show_expr(ret)[:120], site_of(f.body))
        elif ln is not None and elems_ok:
            rep.ok('bulk', key, 'sample_n(n): n elements, each a fresh self.sample()')
        else:
            rep.undecided('bulk', key, 'length or elements of the result not derived (%s)' % [show(r)[:60] for r in rets], site_of(f.body), proof=False)
    # ---- sample_matrix
    k = DS + 'Distribution1D::sample_matrix'
    f = prog.func(k)
    key = 'bulk:sample_matrix'
    if f is not None:
        rep.touch(k)
        me = ('arg', 1, f.names.get(1))
        r, c = ('arg', 2, f.names.get(2)), ('arg', 3, f.names.get(3))
        rets = f.return_values()
        if len(rets) == 1 and tag(rets[0]) == 'call' and rets[0][1].endswith('Matrix::new'):
            data, a1, a2 = rets[0][2]
            shape_ok = strip_casts(a1) == r and strip_casts(a2) == c
            if tag(data) == 'call' and short(data[1]) == 'sample_n' and data[2][0] == me:
                cnt_ok = peq(poly(data[2][1]), pmul(poly(r), poly(c)))
                if shape_ok and cnt_ok:
                    rep.ok('bulk', key, 'sample_matrix(r, c) = Matrix::new(sample_n(r*c), r, c)')
                else:
                    rep.viol('bulk', key, 'sample_matrix(r, c) builds Matrix::new(sample_n(%s), %s, %s)' % (show(data[2][1])[:40], show(a1)[:20], show(a2)[:20]), site_of(f.body))
            else:
                rep.undecided('bulk', key, 'data of the matrix is %s' % show(data)[:60], site_of(f.body), proof=False)
        else:
            rep.undecided('bulk', key, 'sample_matrix is %s' % [show(x)[:80] for x in rets], site_of(f.body), proof=False)
    # ---- DistributionND::sample_n
    k = DS + 'DistributionND::sample_n'
    f = prog.func(k)
    key = 'bulk:DistributionND::sample_n'
    if f is not None:
        rep.touch(k)
        me = ('arg', 1, f.names.get(1))
        n = ('arg', 2, f.names.get(2))
        rets = f.return_values()
        if len(rets) == 1 and tag(rets[0]) == 'call' and rets[0][1].endswith('Matrix::new'):
            data, a1, a2 = rets[0][2]
            tc, aps = filled_len(f, data)
            shape_ok = strip_casts(a1) == n and _is_get_dim(strip_casts(a2), me)
            draw_ok = bool(aps) and tag(aps[0][0].args[1]) == 'call' and aps[0][0].args[1][1] == SAMPLE
            if tc is not None and aps and (not peq(tc, poly(n)) or not shape_ok or not draw_ok):
                rep.viol('bulk', key, 'DistributionND::sample_n appends %s per iteration over %s iterations into a matrix declared %s x %s (expected one draw per row, n x dim)' % (
                    show(aps[0][0].args[1])[:40], pshow_(tc), show(a1)[:20], show(a2)[:30]), site_of(f.body))
            elif tc is not None and aps:
                rep.ok('bulk', key, 'n draws appended, Matrix::new(data, n, dim)')
            else:
                rep.undecided('bulk', key, 'fill loop of the data buffer not recognised', site_of(f.body), proof=False)
        else:
            rep.undecided('bulk', key, 'result is %s' % [show(x)[:60] for x in rets], site_of(f.body), proof=False)
    rep.floor('bulk', 3, 'sample_n, sample_matrix, DistributionND::sample_n')


def psub_(a, b):
    from ..poly import psub
    return psub(a, b)


def pshow_(p):
    from ..poly import pshow
    return pshow(p, show) or '0'


def _is_get_dim(t, me):
    return tag(t) == 'call' and t[1] == DS + 'DistributionND::get_dim' and t[2] == (me,)


# =============================================================================== D5
def d5_scale(prog, rep):
    pdb = prog.pdb
    eng = ElemEngine(prog)
    for d in ('normal::Normal', 'gamma::Gamma', 'exponential::Exponential', 'uniform::Uniform', 'pareto::Pareto', 'gumbel::Gumbel'):
        path = DS + d
        k = '<%s as %sDistribution>::sample' % (path, DS)
        name = d.split('::')[1]
        key = 'sample-scale:%s' % name
        if k not in pdb.bodies:
            rep.viol('sample-scale', key, 'sample disappeared')
            continue
        fl = pdb.adts[path]['variants'][0]['fields']
        seeds, params = {}, {}
        for i, f in enumerate(fl):
            e = ('fld', ('sym', 'SELF'), i)
            if f['name'] in c02.SEEDS[d]:
                p = c02.SEEDS[d][f['name']]
                seeds[e] = Ty(unit('X', p) if p else {})
                if p == 0:
                    params[e] = f['name']
            else:
                # embedded samplers (normal_gen, uniform_gen, rng): standard laws, dimensionless; their fields are numbers
                seeds[e] = Ty()
                for j in range(4):
                    seeds[('fld', e, j)] = Ty()
        ret, _ = eng.result_of(k, {1: S})
        if has_top(ret):
            rep.undecided('sample-scale', key, 'closed form not extracted: %s' % sorted(top_reasons(ret))[:2], proof=False)
            continue
        inf = SymInfer(seeds, params)
        t = inf.infer_set(ret)
        want = unit('X', 1)
        if inf.problems:
            rep.viol('sample-scale', key, '%s::sample is not homogeneous: %s' % (name, '; '.join(inf.problems)[:300]), site_of(pdb.bodies[k]))
        elif t is None:
            rep.undecided('sample-scale', key, 'type not inferred: %s' % inf.unknown[:2], proof=False)
        elif t.dim != want and not t.poly:
            rep.viol('sample-scale', key, '%s::sample() has scale type [%s], a draw from this law has [X]' % (name, t), site_of(pdb.bodies[k]))
        else:
            rep.ok('sample-scale', key, '%s::sample : [%s]' % (name, t))
    for kk in eng.visited:
        rep.touch(kk)
    rep.floor('sample-scale', 6, 'location/scale/rate families')


# =============================================================================== D6
def d6_loops(prog, rep):
    pdb = prog.pdb
    n = 0
    impure = pdb.impure_fns()
    for k, b in sorted(pdb.bodies.items()):
        if not (k.startswith(DS) or k.startswith('<' + DS)):
            continue
        f = prog.func(k)
        loops = f.cfg.loops()
        if not loops:
            continue
        for h, blocks in sorted(loops.items()):
            # draws inside the loop
            draws = []
            for bi in blocks:
                t = f.body.blocks[bi].term
                if t.kind == 'call' and t.callee is not None and (t.callee.path.startswith('alea::') or t.callee.path in impure or t.callee.decl in impure):
                    draws.append(f.call_term(t, bi))
            if not draws:
                continue
            # iterator-driven loops terminate by their range
            if any(li['header'] == h and li['item'] is not None for li in f.loop_info()):
                continue
            # while-loops on a counter terminate by their bound as well
            from ..counts import trip_count
            if trip_count(f, {'header': h, 'blocks': blocks, 'item': None, 'iter': None}) is not None:
                continue
            n += 1
            key = 'rng-loop:%s:bb%d' % (k, h) if False else 'rng-loop:%s:%d' % (k, sorted(loops).index(h))
            rep.touch(k)
            exits = []
            for s, d, cn, v in f.edge_conditions():
                if s in blocks and d not in blocks:
                    exits.append(cn)
            # return edges inside the loop: blocks from which a return is reachable without re-entering the header
            dep = False
            for cn in exits:
                if _depends_on(f, cn, draws, blocks):
                    dep = True
            int_exit = [cn for cn in exits if tag(cn) == 'bin' and len(cn) > 4 and cn[4] in ('usize', 'u64', 'u32', 'i64', 'i32', 'isize') and
                        any(tag(z) == 'local' for z in subterms(cn))]
            if dep:
                rep.ok('rng-loop', key, 'an exit condition of the rejection loop depends on a draw made in the same loop')
            elif int_exit:
                # a loop that leaves on an integer test of a local (a countdown `while remaining > 0 { ..; remaining -= 1 }`) is a counting loop
                # in a form the trip-count reader does not know: not a rejection loop
                rep.undecided('rng-loop', key, 'loop with draws leaves on the integer test %s: counting loop in a form not read' % show(int_exit[0])[:40], site_of(b), proof=False)
            elif not exits:
                rep.viol('rng-loop', key, 'loop at %s draws random numbers but has no exit edge' % site_of(b), site_of(b))
            else:
                rep.viol('rng-loop', key, 'no exit condition of this random loop depends on a value drawn inside it: it either exits at once or never', site_of(b))
    rep.floor('rng-loop', 4, 'rejection loops')


def _depends_on(f, cond, draws, blocks, depth=0):
    """does term `cond` (transitively through locals assigned in the loop) contain one of the draw terms?"""
    seen = set()
    work = [cond]
    stores = {}
    for s in f.stores():
        if s.bb in blocks:
            stores.setdefault(s.target, []).append(s.value)
    while work:
        t = work.pop()
        for z in subterms(t):
            if z in draws:
                return True
            if tag(z) == 'call' and z[3] is not None and any(z[1] == d[1] for d in draws if tag(d) == 'call'):
                return True
            if tag(z) == 'local' and z not in seen:
                seen.add(z)
                work.extend(stores.get(z, []))
    return False


# =============================================================================== D7
def d7_integral(prog, rep):
    pdb = prog.pdb
    for d in ('bernoulli::Bernoulli', 'binomial::Binomial', 'poisson::Poisson', 'discreteuniform::DiscreteUniform'):
        path = DS + d
        k = '<%s as %sDistribution>::sample' % (path, DS)
        f = prog.func(k)
        key = 'integral:%s' % d.split('::')[1]
        if f is None:
            rep.viol('integral', key, 'sample disappeared')
            continue
        rep.touch(k)
        bad = []
        seen = set()
        inprog = set()

        memo = {}

        def integral(fn, t, depth=0):
            """True: provably integer valued; False: provably a non-integer-valued construction (continuous draw, division, transcendental,
            real parameter); None: not decided"""
            kk = tag(t)
            if kk == 'const':
                return isinstance(t[2], (int, float)) and float(t[2]) == int(t[2])
            if kk == 'cast' and t[1] == 'IntToFloat':
                return True
            if kk == 'cast':
                return integral(fn, t[2], depth)
            if kk == 'bin' and t[4] == 'f64' and t[1] in ('Add', 'Sub', 'Mul'):
                a, b = integral(fn, t[2], depth), integral(fn, t[3], depth)
                if a is True and b is True:
                    return True
                if a is False or b is False:
                    return False
                return None
            if kk == 'bin' and t[4] == 'f64' and t[1] == 'Div':
                return False
            if kk == 'un' and t[1] == 'Neg':
                return integral(fn, t[2], depth)
            if kk == 'field' and t[3] in ('f64', '&f64'):
                root = t
                while tag(root) in ('field', 'deref', 'ref'):
                    root = root[1]
                if tag(root) == 'arg':
                    return False             # a real-valued parameter
                if tag(t[1]) == 'downcast' and tag(t[1][1]) == 'call' and t[1][1][1] in pdb.bodies and depth < 3:
                    # the payload of an enum value a helper returns: every payload the helper builds for that variant
                    g = prog.func(t[1][1][1])
                    rep.touch(t[1][1][1])
                    rs = []
                    for r in g.return_values():
                        if tag(r) == 'agg' and r[1] == 'adt':
                            vi = int(r[2].split('#')[1]) if '#' in r[2] else 0
                            if vi == t[1][2] and t[2] < len(r[3]):
                                rs.append(integral(g, r[3][t[2]], depth + 1))
                        else:
                            rs.append(None)
                    return True if rs and all(r is True for r in rs) else (False if any(r is False for r in rs) else None)
                return None
            if kk == 'call':
                p = t[1]
                if 'convert::From<' in p and p.endswith('for f64>::from') and any(('From<%s>' % it) in p for it in ('u8', 'u16', 'u32', 'i8', 'i16', 'i32', 'bool')):
                    return True
                if is_f64_method(p):
                    return True if f64_method_name(p) in ('floor', 'ceil', 'round', 'trunc') else False
                if p.startswith('alea::f64') or p.startswith('alea::f32'):
                    return False
                if p in pdb.bodies and depth < 3:
                    if p not in memo:
                        memo[p] = None
                        g = prog.func(p)
                        rep.touch(p)
                        rs = [integral(g, r, depth + 1) for r in g.return_values()]
                        memo[p] = True if rs and all(r is True for r in rs) else (False if any(r is False for r in rs) else None)
                    return memo[p]
                return None
            if kk == 'local':
                key2 = (fn.body.key, t)
                if key2 in inprog:
                    return True        # inductive hypothesis for loop-carried counters
                inprog.add(key2)
                try:
                    vals = [s.value for s in fn.stores() if s.target == t]
                    rs = [integral(fn, v, depth) for v in vals]
                    return True if rs and all(r is True for r in rs) else (False if any(r is False for r in rs) else None)
                finally:
                    inprog.discard(key2)
            return None
        und = []
        for r in f.return_values():
            iv_ = integral(f, r)
            if iv_ is False:
                bad.append(r)
            elif iv_ is None:
                und.append(r)
        if bad:
            rep.viol('integral', key, 'the discrete sampler can return %s, which is not built from integer casts / floor / integer literals: draws need not be integers' % show(bad[0])[:120], site_of(f.body))
        elif und:
            rep.undecided('integral', key, 'integrality of %s not derived' % show(und[0])[:80], site_of(f.body), proof=False)
        else:
            rep.ok('integral', key, 'every returned value is integer-valued by construction')
    rep.floor('integral', 4, 'Bernoulli, Binomial, Poisson, DiscreteUniform')


# =============================================================================== D8
def _iv_subset(a, b):
    lo_ok = a.lo > b.lo or (a.lo == b.lo and (a.lo_open or not b.lo_open))
    hi_ok = a.hi < b.hi or (a.hi == b.hi and (a.hi_open or not b.hi_open))
    return lo_ok and hi_ok


def _iv_join(a, b):
    if a is None:
        return b
    lo, lo_open = (a.lo, a.lo_open) if (a.lo < b.lo or (a.lo == b.lo and not a.lo_open)) else (b.lo, b.lo_open)
    hi, hi_open = (a.hi, a.hi_open) if (a.hi > b.hi or (a.hi == b.hi and not a.hi_open)) else (b.hi, b.hi_open)
    return Iv(lo, hi, lo_open, hi_open)


def helper_regimes(prog, hk):
    """Fold contradiction (Engler): a helper that folds a parameter p into r = (p <= c ? p : g(p)) and afterwards still
    computes with the raw p is only consistent where the fold is the identity.  Returns {param_local: (Iv, why)}."""
    f = prog.func(hk)
    out = {}
    if f is None:
        return out
    for ai in range(1, f.body.arg_count + 1):
        if f.body.local_ty(ai) not in ('f64', 'f32'):
            continue
        pa = ('arg', ai, f.names.get(ai))
        bylocal = {}
        for st in f.stores():
            if tag(st.target) == 'local':
                bylocal.setdefault(st.target, []).append(st)
        for loc, sts in bylocal.items():
            if len(sts) != 2:
                continue
            ident = [st for st in sts if st.value == pa]
            other = [st for st in sts if st.value != pa and pa in subterms(st.value)]
            if len(ident) != 1 or len(other) != 1:
                continue
            region = Iv()
            got = False
            for cn, v in f.guards().get(ident[0].bb, []):
                g = canon_guard(cn, v)
                if g[0] == 'cmp':
                    iv = _cmp_interval(g, pa)
                    if iv is not None:
                        region = _meet(region, iv)
                        got = True
            if not got:
                continue
            # raw uses of p outside guards and outside the fold's own definitions
            raw = []
            for st in f.stores():
                if st in sts:
                    continue
                if pa in subterms(st.value):
                    raw.append('%s := %s' % (show(st.target)[:20], show(st.value)[:60]))
            for c in f.calls():
                for a in c.args:
                    if a == pa or (tag(a) != 'local' and pa in subterms(a) and not any(pa in subterms(st.value) and a == st.value for st in sts)):
                        raw.append('%s(.. %s ..)' % (short(c.path or '?'), show(a)[:50]))
            for r in f.return_values():
                if pa in subterms(r):
                    raw.append('return %s' % show(r)[:60])
            # single-def temps are inlined into the stores above; multi-def stores whose value mentions p are the fold itself
            if raw:
                out[ai] = (region, 'folds %s into %s (identity for %s in %r) but still computes with the raw parameter: %s' % (
                    f.names.get(ai), show(loc), f.names.get(ai), region, raw[0]))
    return out


def d10_mvn(prog, rep):
    """MVN draws are mean + L z with z standard normal of the model's dimension and L the lower Cholesky factor of the covariance
    (L L^T = Sigma): the factor stored by the constructor is cholesky(covariance), the cached inverse / determinant are of the same matrix,
    and sample() multiplies by L itself -- a transposed product (t_dot) gives draws with covariance L^T L"""
    pdb = prog.pdb
    MV = DS + 'multivariatenormal::MVN'
    adt = pdb.adts.get(MV)
    if adt is None:
        rep.viol('mvn-sample', 'mvn-sample:MVN', 'MVN disappeared')
        rep.floor('mvn-sample', 2, 'MVN constructor and sample')
        return
    fidx = {fl['name']: i for i, fl in enumerate(adt['variants'][0]['fields'])}
    # constructor
    f = prog.func(MV + '::new')
    key = 'mvn-sample:new'
    if f is None:
        rep.undecided('mvn-sample', key, 'constructor not found', proof=False)
    else:
        rep.touch(f.body.key)
        rv = [prog.inline(r, only=lambda p_: p_.startswith(MV)) for r in f.return_values()]
        if len(rv) == 1 and tag(rv[0]) == 'agg' and rv[0][1] == 'adt' and rv[0][2] == MV:
            comps = rv[0][3]
            cov = comps[fidx['covariance_matrix']]

            def strip(t):
                while tag(t) == 'call' and short(t[1]) in ('into', 'clone', 'deref', 'borrow', 'to_owned') and t[2]:
                    t = t[2][0]
                return t
            problems, unread = [], []
            for fld, meth in (('decomposed_covariance_matrix', 'cholesky'), ('inverse_covariance_matrix', 'inv'), ('covariance_determinant', 'det')):
                v = comps[fidx[fld]]
                if tag(v) == 'call' and v[1].startswith('linalg::array::matrix::Matrix::') and v[2]:
                    if short(v[1]) != meth:
                        problems.append('`%s` is computed by %s, expected %s' % (fld, short(v[1]), meth))
                    elif strip(v[2][0]) != strip(cov):
                        problems.append('`%s` is %s of %s, not of the covariance matrix' % (fld, meth, show(v[2][0])[:30]))
                else:
                    unread.append('%s := %s' % (fld, show(v)[:40]))
            if problems:
                rep.viol('mvn-sample', key, '; '.join(problems), site_of(f.body))
            elif unread:
                rep.undecided('mvn-sample', key, 'cached quantities not read: %s' % '; '.join(unread), site_of(f.body), proof=False)
            else:
                rep.ok('mvn-sample', key, 'L = cholesky(Sigma), Sigma^-1 = inv(Sigma), det = det(Sigma) of the same matrix')
        else:
            rep.undecided('mvn-sample', key, 'constructor does not return one struct literal', site_of(f.body), proof=False)
    # sample
    ks = [k for k, b in pdb.bodies.items() if b.impl and b.impl['self_ty'].endswith('multivariatenormal::MVN') and b.impl['trait'] == DS + 'Distribution'
          and b.name == 'sample' and b.kind != 'closure']
    key = 'mvn-sample:sample'
    if not ks:
        rep.undecided('mvn-sample', key, 'sample not found', proof=False)
    else:
        f = prog.func(ks[0])
        rep.touch(ks[0])
        me = ('arg', 1, f.names.get(1))
        rv = [prog.inline(r, only=lambda p_: p_.startswith(MV) or p_.startswith('<' + MV)) for r in f.return_values()]
        L = ('field', me, fidx['decomposed_covariance_matrix'], 'linalg::array::matrix::Matrix')
        prods = [z for r in rv for z in subterms(r) if tag(z) == 'call' and 'Dot<' in z[1] and len(z[2]) == 2 and
                 any(q == L for a in z[2] for q in subterms(a))]
        if len(rv) != 1 or len(prods) != 1:
            rep.undecided('mvn-sample', key, 'product with the Cholesky factor not read (%d products)' % len(prods), site_of(f.body), proof=False)
        else:
            pr = prods[0]
            lhs_is_L = any(q == L for q in subterms(pr[2][0]))
            meth = short(pr[1])
            zterm = pr[2][1] if lhs_is_L else pr[2][0]
            is_std_normal = any(tag(q) == 'call' and short(q[1]) in ('sample_n', 'sample') and
                                any(tag(w) == 'call' and 'normal::Normal' in w[1] and short(w[1]) == 'default' for w in subterms(q)) for q in subterms(zterm))
            addm = [z for z in subterms(rv[0]) if tag(z) == 'call' and 'std::ops::Add' in z[1] and
                    any(q == ('field', me, fidx['mean'], 'linalg::array::vec::Vector') for a in z[2] for q in subterms(a))]
            if lhs_is_L and meth == 'dot' and is_std_normal and addm:
                rep.ok('mvn-sample', key, 'sample = mean + L.dot(z), z standard normal')
            elif lhs_is_L and meth in ('t_dot', 't_dot_t'):
                rep.viol('mvn-sample', key, 'sample multiplies z by the transposed factor (L.%s(z)): the draws have covariance L^T L, not L L^T = Sigma' % meth, site_of(f.body))
            elif not lhs_is_L and meth in ('dot', 'dot_t') and is_std_normal:
                rep.viol('mvn-sample', key, 'sample forms z.%s(L), a row vector times L: the draws have covariance L^T L, not Sigma' % meth, site_of(f.body))
            elif not addm:
                # only when the product itself is what comes back, and nothing in the body writes into a value afterwards (the mean added in
                # place, coordinate by coordinate, is not read)
                inplace = any(tag(st.target) != 'local' for st in f.stores()) or any(str(ty).startswith('&mut') for c_ in f.calls() for ty in (c_.argtys or ()))
                if lhs_is_L and meth == 'dot' and not inplace:
                    rep.viol('mvn-sample', key, 'the mean is not added to L z', site_of(f.body))
                else:
                    rep.undecided('mvn-sample', key, 'sample expression not read (no `mean + ..` term; values are written in place)', site_of(f.body), proof=False)
            else:
                rep.undecided('mvn-sample', key, 'sample expression not read (product %s, standard normal z: %s)' % (meth, is_std_normal), site_of(f.body), proof=False)
    rep.floor('mvn-sample', 2, 'MVN constructor and sample')


def d9_param_truncation(prog, rep):
    """a sampler draws from the law of the *current real-valued* parameters: a float field of the distribution (or a float parameter of a
    sampling helper that receives one) converted to an integer before it reaches a constructor or helper argument drops its fractional
    part, so the draws follow another member of the family (T with dof 2.5 sampled as dof 2); a parameter in (0, 1) even becomes 0"""
    pdb = prog.pdb
    n = 0
    for d in c02.ALL:
        path = DS + d
        sk = '<%s as %sDistribution>::sample' % (path, DS)
        f0 = prog.func(sk)
        if f0 is None:
            continue
        n += 1
        key = 'param-truncation:%s' % d.split('::')[1]
        bad = []
        for kk in sorted(prog.closure(sk)):
            f = prog.func(kk)
            if f is None or not kk.startswith(('<' + DS, DS)):
                continue
            rep.touch(kk)
            me = ('arg', 1, f.names.get(1))
            fparams = {('arg', i + 1, f.names.get(i + 1)) for i in range(f.body.arg_count) if f.body.local_ty(i + 1) in ('f64', 'f32')}
            for c in f.calls():
                if not (c.path and c.path in pdb.bodies):
                    continue
                for a in c.args:
                    for z in subterms(a):
                        if tag(z) == 'cast' and z[1] == 'FloatToInt':
                            src = z[2]
                            whole = (tag(src) == 'field' and src[1] == me and kk == sk) or (src in fparams and kk != sk)
                            if whole:
                                bad.append((kk, c, z))
        if bad:
            kk, c, z = bad[0]
            rep.viol('param-truncation', key, '%s passes %s to %s: the real-valued parameter is truncated to an integer, so the draws follow the law for '
                     'the truncated value (and a value below 1 becomes 0)' % (short(kk), show(z)[:40], short(c.path)), site_of(c.span))
        else:
            rep.ok('param-truncation', key, 'no float parameter is truncated on its way into a constructor or sampling helper')
    rep.floor('param-truncation', 13, 'sample bodies')


def d8_regimes(prog, rep):
    pdb = prog.pdb
    n = 0
    for d in c02.ALL:
        path = DS + d
        sk = '<%s as %sDistribution>::sample' % (path, DS)
        f = prog.func(sk)
        if f is None:
            continue
        sm = None
        me = ('arg', 1, f.names.get(1))
        for c in f.calls():
            if not (c.path and c.path.startswith(DS) and c.path in pdb.bodies and '::' in c.path and not c.path.endswith('::sample')):
                continue
            regs = helper_regimes(prog, c.path)
            if not regs:
                continue
            if sm is None:
                sm = StructModel(prog, path)
                inv = _field_intervals(sm)
            for ai, (region, why) in sorted(regs.items()):
                n += 1
                arg = c.args[ai - 1]
                key = 'regime:%s->%s:%s' % (d.split('::')[1], short(c.path), pdb.bodies[c.path].names().get(ai, ai))
                # value sets of the argument: each defining store under its own guards, else the term under the call's guards
                cases = []
                if tag(arg) == 'local':
                    for st in f.stores():
                        if st.target == arg:
                            cases.append((st.value, st.bb))
                if not cases:
                    cases = [(arg, c.bb)]
                total = None
                unknown = []
                for val, bb in cases:
                    merged = dict(inv)
                    for bb2 in (bb, c.bb):
                        for k2, v2 in _guard_intervals(f, bb2, me, sm).items():
                            merged[k2] = _meet(merged.get(k2, Iv()), v2)

                    def leaf(t, merged=merged):
                        if tag(t) == 'field' and t[1] == me and t[2] in merged:
                            return merged[t[2]]
                        return None
                    ev = AbsEval(leaf, const_value=lambda t: pdb.const_value(t[3]) if t[3] else None)
                    r = ev.ev(val)
                    unknown += ev.unknown
                    total = _iv_join(total, r.iv)
                if total is not None and _iv_subset(total, region):
                    rep.ok('regime', key, 'argument in %r, inside the regime %r the helper is consistent in (%s)' % (total, region, why[:120]))
                else:
                    rep.viol('regime', key, '%s; the call passes %s whose value set %r is not inside that regime, so the helper runs with an inconsistent '
                             'mixture of the folded and the raw parameter' % (why, show(arg)[:40], total), site_of(c.span))
    if n == 0:
        # the anchor (a sampler helper that folds its parameter, reached from a sample body) exists but the call is made where this
        # rule does not read it (inside a closure, through another helper): the obligation stays open
        for d in c02.ALL:
            sk = '<%s%s as %sDistribution>::sample' % (DS, d, DS)
            if sk not in pdb.bodies:
                continue
            for hk in prog.closure(sk):
                if hk != sk and hk.startswith(DS) and pdb.bodies[hk].kind != 'closure' and helper_regimes(prog, hk):
                    rep.undecided('regime', 'regime:%s->%s' % (d.split('::')[1], short(hk)),
                                  'the call of %s is not made directly in the sample body: argument value set not read' % short(hk), proof=False)
                    n += 1
    if not any(o.rule == 'regime' for o in rep.obs):
        # the helper that folds its parameter (binomial_btpe) was restructured so that its regime is not read: the anchor (Binomial::sample calling a
        # sampling helper) is still there, the obligation is open
        rep.undecided('regime', 'regime:Binomial->?', 'no sampling helper with a folded-parameter regime was read', proof=False)
    rep.floor('regime', 1, 'Binomial::sample -> binomial_btpe(p)')

    # fold <-> reflect pairing: a draw made with the folded parameter g(theta) must be mapped back, and only then
    nr = 0
    for d in c02.ALL:
        path = DS + d
        sk = '<%s as %sDistribution>::sample' % (path, DS)
        f = prog.func(sk)
        if f is None:
            continue
        me = ('arg', 1, f.names.get(1))
        bylocal = {}
        for st in f.stores():
            if tag(st.target) == 'local' and st.target[1] != 0:
                bylocal.setdefault(st.target, []).append(st)
        for loc, sts in sorted(bylocal.items(), key=lambda kv: repr(kv[0])):
            if len(sts) != 2:
                continue
            ident = [st for st in sts if tag(st.value) == 'field' and st.value[1] == me]
            if len(ident) != 1:
                continue
            fld = ident[0].value
            other = [st for st in sts if st is not ident[0] and fld in subterms(st.value) and st.value != fld]
            if len(other) != 1:
                continue
            gi = set(f.guards().get(ident[0].bb, []))
            go = set(f.guards().get(other[0].bb, []))
            fold = go - gi
            if len(fold) != 1:
                continue
            fc, fv = next(iter(fold))
            if (fc, (not fv) if isinstance(fv, bool) else None) not in gi:
                continue
            # is the folded local used as a helper argument?
            users = [c for c in f.calls() if loc in c.args and c.path and c.path in pdb.bodies]
            if not users:
                continue
            nr += 1
            # fold <-> dispatch: once the parameter is folded and the folded value is what the samplers receive, the test that chooses
            # among those samplers must be about the folded value too: a test that still reads the raw field (directly or through a
            # method of self that reads it) sends the regime folded away (theta > c) to the sampler chosen for its mirror image
            keyd = 'fold-dispatch:%s:%s' % (d.split('::')[1], show(loc))
            rawreads = []
            for c_ in users:
                for cn_, v_ in f.guards().get(c_.bb, []):
                    if (cn_, v_) in gi or (cn_, v_) in go:
                        continue
                    cn2 = prog.inline(cn_, only=lambda p_: p_.startswith('<' + path) or p_.startswith(path))
                    if any(z == fld or (tag(z) == 'field' and tag(fld) == 'field' and z[1] == fld[1] and z[2] == fld[2]) for z in subterms(cn2)):
                        rawreads.append((c_, cn_))
            if len(users) < 2:
                rep.ok('fold-dispatch', keyd, 'one sampler receives the folded value: no dispatch')
            elif rawreads:
                c_, cn_ = rawreads[0]
                rep.viol('fold-dispatch', keyd, 'the samplers receive the folded parameter %s (= %s when %s is %s) but %s is chosen by `%s`, which reads the unfolded field %s: '
                         'for the folded-away regime the sampler is picked for the wrong value' % (
                             show(loc), show(other[0].value)[:30], show(fc)[:30], fv, short(c_.path), show(cn_)[:60], show(fld)), site_of(c_.span))
            else:
                rep.ok('fold-dispatch', keyd, 'the sampler is chosen by tests on the folded value %s only' % show(loc))
            key = 'reflect:%s:%s' % (d.split('::')[1], show(loc))
            draws = set()
            for st in f.stores():
                if tag(st.value) == 'call' and st.value[1] in [c.path for c in users]:
                    draws.add(st.target)
            rets_fold = [st for st in f.stores() if st.target[:2] == ('local', 0) and (fc, fv) in f.guards().get(st.bb, [])]
            rets_id = [st for st in f.stores() if st.target[:2] == ('local', 0) and (fc, not fv) in f.guards().get(st.bb, [])]

            def strip(t):
                while tag(t) == 'cast':
                    t = t[2]
                return t
            ok_id = bool(rets_id) and all(strip(st.value) in draws for st in rets_id)
            ok_fold = bool(rets_fold) and all(strip(st.value) not in draws and any(x in draws for x in subterms(st.value)) for st in rets_fold)
            if ok_id and ok_fold:
                rep.ok('reflect', key, 'draw made with %s is mapped back (%s) exactly when %s is %s' % (
                    show(other[0].value)[:30], show(rets_fold[0].value)[:40], show(fc)[:30], fv))
            else:
                rep.viol('reflect', key, 'the parameter is folded (%s := %s) when %s is %s, but the result is %s on that path and %s on the other: '
                         'a draw made with the folded parameter must be reflected back exactly on the folded path' % (
                             show(loc), show(other[0].value)[:30], show(fc)[:30], fv, [show(st.value)[:40] for st in rets_fold],
                             [show(st.value)[:40] for st in rets_id]), site_of(other[0].span))
    if nr == 0:
        # no folded local found: if a sample body still reaches a folding helper, the fold is expressed some other way (two call sites of
        # a closure, a helper): reflection and dispatch stay open
        for d in c02.ALL:
            sk = '<%s%s as %sDistribution>::sample' % (DS, d, DS)
            if sk not in pdb.bodies:
                continue
            if any(hk != sk and hk.startswith(DS) and pdb.bodies[hk].kind != 'closure' and helper_regimes(prog, hk) for hk in prog.closure(sk)):
                nm = d.split('::')[1]
                rep.undecided('reflect', 'reflect:%s' % nm, 'parameter fold not read as a two-definition local', proof=False)
                rep.undecided('fold-dispatch', 'fold-dispatch:%s' % nm, 'parameter fold not read as a two-definition local', proof=False)
    rep.floor('reflect', 1, 'Binomial::sample p <-> 1-p')
    rep.floor('fold-dispatch', 1, 'Binomial::sample inversion / BTPE choice')
