"""C19 — resampling never invents, loses or unpairs data.

D1 provenance: every f64 in the outputs is a copy of an input element (element abstraction: result == {elem(data)}).
D2 permutation by construction: after to_vec the only mutation of the buffers is slice::swap; shuffle_two gives both
   swaps the same two index values and asserts equal lengths first.
D3 counts: bootstrap pushes once per iteration of 0..n_bootstrap a vector collected from sample_n(len(data));
   jackknife pushes once per i in 0..len(data) the vector front(i) ++ rest(i) with (front, back) = split_at(i),
   rest = split_first(back).1.
D4 index range: indices are drawn from DiscreteUniform::new(0, len-1).
D5 precondition: the sampler's RNG call must be defined for every state the constructor admits (lower == upper
   arises for length-1 data).
Not decided: that every position is equally likely."""
from ..ir import tag, show, short, subterms
from ..elem import ElemEngine, show_expr, has_top, top_reasons
from ..structs import StructModel, canon_guard, requirement_holds, show_guard, unname
from ..poly import poly, peq, psub, pconst
from ..framework import site_of

LEVEL = 'other'
EXPLANATION = (
    'Provenance and effect analysis on MIR: outputs of bootstrap/jackknife/shuffle/shuffle_two contain only copies of input '
    'elements (element abstraction); the only mutation applied to the shuffled buffers is slice::swap (a transposition), '
    'with identical index operands for the paired arrays; loop ranges, push counts, split points and the index distribution '
    'bounds are matched symbolically; the RNG call of DiscreteUniform::sample is checked against the precondition quoted from '
    'alea 0.2.2 under the field invariant established by all writers of the struct. Uniformity of the draws is not decided.')

RS = 'validation::resample::'
S = frozenset([('sym', 'SELF')])
R = frozenset([('sym', 'RHS')])

# callee -> (operator, arg index a, arg index b, quoted source)
RNG_PRECONDITIONS = {
    'alea::i64_in_range': ('Gt', 1, 0, 'alea 0.2.2 src/lib.rs:155 assert!(max > min, "max must be greater than min")'),
    'alea::u64_in_range': ('Gt', 1, 0, 'alea 0.2.2 src/lib.rs:131 assert!(max > min)'),
    'alea::f64_in_range': ('Gt', 1, 0, 'alea 0.2.2 src/lib.rs:143 assert!(max > min)'),
}


def check_rng_precondition(prog, rep, rule='precondition'):
    """shared with C03: DiscreteUniform::sample"""
    pdb = prog.pdb
    path = 'distributions::discreteuniform::DiscreteUniform'
    sk = '<%s as distributions::Distribution>::sample' % path
    f = prog.func(sk)
    key = '%s:%s' % (rule, sk)
    if f is None:
        rep.viol(rule, key, 'DiscreteUniform::sample disappeared')
        return
    rep.touch(sk)
    sm = StructModel(prog, path)
    # field invariant = guards of new, re-established by every setter (checked in C18 setter-agree)
    inv = []
    mapping = {}
    for fi, al in sm.param_of.items():
        mapping[unname(sm.new_arg(al))] = ('field', ('arg', 1, None), fi, sm.fields[fi]['ty'])
    from ..structs import subst
    for g in sm.new_guards:
        if g[0] == 'cmp':
            inv.append(('cmp', g[1], subst(unname(g[2]), mapping), subst(unname(g[3]), mapping), g[4], g[5]))
    n = 0
    for c in f.calls():
        if c.path in RNG_PRECONDITIONS:
            n += 1
            op, ia, ib, quote = RNG_PRECONDITIONS[c.path]
            a = unname(c.args[ia])
            b = unname(c.args[ib])
            local = [canon_guard(cn, v) for cn, v in f.guards().get(c.bb, [])]
            local = [('cmp', g[1], unname(g[2]), unname(g[3]), g[4], g[5]) for g in local if g[0] == 'cmp']
            holds, bad = requirement_holds(inv + local, op, a, b)
            if holds:
                rep.ok(rule, key, '%s: %s %s %s follows from the field invariant {%s}' % (
                    c.path, show(a), op, show(b), '; '.join(show_guard(g) for g in inv + local)))
            else:
                rep.viol(rule, key, 'sample() calls %s(%s), which requires %s (%s); the invariant kept by new() and the setters is {%s}, '
                         'which also admits %s = %s: the call panics for degenerate bounds (e.g. resampling a length-1 array)' % (
                             c.path, ', '.join(show(x) for x in c.args), 'max > min', quote,
                             '; '.join(show_guard(g) for g in inv) or 'none', show(a), show(b)), site_of(c.span))
    if n == 0:
        # no call with a precondition: every reachable alea entry point is total
        ext = prog.std_callees(prog.closure(sk))
        rng = sorted(p for p in ext if p.startswith('alea::'))
        if rng:
            rep.ok(rule, key, 'sample() uses %s, which have no argument precondition' % rng)
        else:
            rep.undecided(rule, key, 'no RNG call found in DiscreteUniform::sample')


def run(prog, rep, tier, repo):
    pdb = prog.pdb
    eng = ElemEngine(prog)

    # ---------------------------------------------------------------- D1 provenance
    for name, nargs in (('bootstrap', 1), ('jackknife', 1), ('shuffle', 1), ('shuffle_two', 2)):
        k = RS + name
        key = 'provenance:%s' % k
        if k not in pdb.bodies:
            rep.viol('provenance', key, 'function disappeared')
            continue
        rep.touch(k)
        args = {1: S, 2: R} if nargs == 2 else {1: S, 2: frozenset([('int',)])}
        ret, eff = eng.result_of(k, args)
        if isinstance(ret, tuple) and ret[0] == 'tuple':
            comps = list(ret[1])
            want = [S, R]
        else:
            comps = [ret]
            want = [S]
        if any(has_top(c) for c in comps):
            rep.undecided('provenance', key, 'cannot evaluate: %s' % sorted(set().union(*[top_reasons(c) for c in comps])))
        elif comps == want and not eff:
            rep.ok('provenance', key, '%s: output elements are exactly %s' % (name, ' / '.join(show_expr(c) for c in comps)))
            rep.sample('%s => elements %s' % (k, ' / '.join(show_expr(c) for c in comps)))
        else:
            rep.viol('provenance', key, '%s: output elements are %s (expected only copies of the input elements%s)' % (
                name, ' / '.join(show_expr(c) for c in comps), ', inputs unchanged' if eff else ''), site_of(pdb.bodies[k]))
    rep.floor('provenance', 4, 'resampling functions')

    # ---------------------------------------------------------------- D2 swap-only
    for name in ('shuffle', 'shuffle_two'):
        k = RS + name
        f = prog.func(k)
        if f is None:
            continue
        key = 'swap-only:%s' % k
        bufs = [t for t in _ret_components(f) if tag(t) == 'call' and short(t[1]) == 'to_vec']
        if not bufs or len(bufs) != (2 if name == 'shuffle_two' else 1):
            rep.undecided('swap-only', key, 'returned buffers are not to_vec copies of the inputs: %s' % [show(x) for x in _ret_components(f)], site_of(f.body), proof=False)
            if name == 'shuffle_two':
                # dependent rules keep their anchor counts
                rep.undecided('paired-swap', 'paired-swap:%s' % k, 'shuffle idiom not read', site_of(f.body), proof=False)
                rep.undecided('len-assert', 'len-assert:%s' % k, 'shuffle idiom not read', site_of(f.body), proof=False)
            continue
        srcs = [b[2][0] for b in bufs]
        want_src = [('arg', i + 1, f.names.get(i + 1)) for i in range(len(bufs))]
        if srcs != want_src:
            rep.viol('swap-only', key, 'buffers are copies of %s, expected %s in order' % ([show(s) for s in srcs], [show(s) for s in want_src]), site_of(f.body))
            continue
        bad = []
        swaps = {i: [] for i in range(len(bufs))}
        for s in f.stores():
            for i, b in enumerate(bufs):
                if _views(s.target, b):
                    bad.append('store %s := %s' % (show(s.target), show(s.value)))
        for c in f.calls():
            for i, b in enumerate(bufs):
                for ai, a in enumerate(c.args):
                    if _views(a, b) and ai < len(c.argtys) and c.argtys[ai].startswith('&mut'):
                        if c.path == 'core::slice::<impl [T]>::swap':
                            swaps[i].append(c)
                        elif short(c.path) in ('deref_mut',):
                            pass
                        else:
                            bad.append('call %s' % c.path)
        if bad:
            rep.viol('swap-only', key, 'the shuffled buffer is mutated by something other than slice::swap: %s' % bad[:3], site_of(f.body))
        elif any(not v for v in swaps.values()):
            rep.viol('swap-only', key, 'a buffer is never swapped (returned unshuffled)', site_of(f.body))
        else:
            rep.ok('swap-only', key, 'only mutation of %s is slice::swap (%s calls): the result is a permutation of the input' % (
                [show(b) for b in bufs], [len(v) for v in swaps.values()]))
        if name == 'shuffle_two':
            key2 = 'paired-swap:%s' % k
            s1, s2 = swaps[0], swaps[1]
            if len(s1) == 1 and len(s2) == 1 and s1[0].args[1:] == s2[0].args[1:] and s1[0].args[1] != s1[0].args[2] \
                    and f.cfg.dominates(s1[0].bb, s2[0].bb):
                rep.ok('paired-swap', key2, 'both arrays are swapped at the same two index values %s' % [show(x)[:50] for x in s1[0].args[1:]])
            else:
                rep.viol('paired-swap', key2, 'the two swaps do not receive the same pair of indices: %s vs %s' % (
                    [show(x)[:60] for c in s1 for x in c.args[1:]], [show(x)[:60] for c in s2 for x in c.args[1:]]), site_of(f.body))
            key3 = 'len-assert:%s' % k
            a1, a2 = want_src
            conds = [('bin', 'Eq', ('len', a1), ('len', a2), 'usize'), ('bin', 'Eq', ('len', a2), ('len', a1), 'usize')]
            ok = all(any(cn in conds and v is True for cn, v in f.guards().get(c.bb, [])) for c in s1 + s2)
            if ok and s1:
                rep.ok('len-assert', key3, 'assert_eq!(arr1.len(), arr2.len()) dominates the swaps')
            else:
                rep.viol('len-assert', key3, 'swaps are not dominated by the length-equality assert', site_of(f.body))
    rep.floor('swap-only', 2, 'shuffle, shuffle_two')
    rep.floor('paired-swap', 1, 'shuffle_two')

    # ---------------------------------------------------------------- D3 counts
    f = prog.func(RS + 'bootstrap')
    if f is not None:
        key = 'counts:%sbootstrap' % RS
        data = ('arg', 1, f.names.get(1))
        nb = ('arg', 2, f.names.get(2))
        rets = f.return_values()
        pushes = [c for c in f.calls() if c.path and short(c.path) == 'push' and c.args and rets and c.args[0] == rets[0]]
        loops = [li for li in f.loop_info() if li['item'] is not None]
        problems = []
        undec = []
        from ..counts import trip_count, loops_of, appends
        from ..poly import pshow
        outer = [(li, appends(f, rets[0], li)) for li in loops_of(f)] if rets else []
        outer = [(li, ap) for li, ap in outer if ap]
        if len(outer) != 1 or len(outer[0][1]) != 1 or not outer[0][1][0][1]:
            undec.append('no single unconditional push per iteration of one loop')
        else:
            li, ap = outer[0]
            tc = trip_count(f, li)
            if tc is None:
                undec.append('trip count of the resampling loop not derived')
            elif not peq(tc, poly(nb)):
                problems.append('the resampling loop runs %s times, not n_bootstrap' % (pshow(tc, show) or '0'))
            v = ap[0][0].args[1]
            sn = [x for x in subterms(v) if tag(x) == 'call' and short(x[1]) == 'sample_n']
            length = None
            if len(sn) == 1:
                length = sn[0][2][1]
                if not _is_map_collect_over(v, sn[0]):
                    undec.append('pushed vector not read as one element per sampled index')
            elif tag(v) == 'call' and v[1] in pdb.bodies:
                # a helper builds the resample: its sample_n argument must be a parameter that the call binds to len(data), and it must
                # push one data element per drawn index
                h = prog.func(v[1])
                hs = [c for c in h.calls() if c.path and short(c.path) == 'sample_n']
                if len(hs) == 1 and tag(hs[0].args[1]) == 'arg' and hs[0].args[1][1] - 1 < len(v[2]):
                    length = v[2][hs[0].args[1][1] - 1]
                    rep.touch(v[1])
                else:
                    undec.append('helper %s not read' % short(v[1]))
            else:
                undec.append('no sample_n in the pushed value')
            if length is not None:
                ln = length
                while tag(ln) == 'cast':
                    ln = ln[2]
                if not (ln == ('len', data) or (tag(ln) == 'call' and short(ln[1]) == 'len' and ln[2][0] == data)):
                    problems.append('resample length is %s, not len(data)' % show(length)[:40])
        if problems:
            rep.viol('counts', key, '; '.join(problems), site_of(f.body))
        elif undec:
            rep.undecided('counts', key, '; '.join(undec), site_of(f.body), proof=False)
        else:
            rep.ok('counts', key, 'n_bootstrap pushes, each collected 1:1 from sample_n(len(data))')
        # D4 index range
        key = 'index-range:%sbootstrap' % RS
        _check_index_dist(rep, f, key, data, prog)
        # D4b index source: the bulk draw resolves to the trait default (n independent sample() calls) or to an override whose
        # every element is such a call
        key = 'index-source:%sbootstrap' % RS
        for c in f.calls():
            if c.path and short(c.path) == 'sample_n':
                if c.path == c.decl:
                    g = prog.func(c.path)
                    el = eng.result_of(c.path, {1: S})[0] if g is not None else None
                    rep.ok('index-source', key, 'indices come from the trait default Distribution1D::sample_n')
                else:
                    el = eng.result_of(c.path, {1: S})[0]
                    draws_only = isinstance(el, frozenset) and not has_top(el) and all(isinstance(e, tuple) and e[0] == 'call' and e[1].endswith('Distribution>::sample') for e in el)
                    if draws_only:
                        rep.ok('index-source', key, 'override %s returns sample() draws only' % short(c.path))
                    else:
                        rep.undecided('index-source', key, 'indices come from the override %s, a second sampler implementation whose law is not decided (elements %s)' % (
                            c.path, show_expr(el)[:120] if el is not None else '?'), site_of(c.span), proof=False)
    f = prog.func(RS + 'jackknife')
    if f is not None:
        # segment-list abstraction (cva/segs.py): the i-th resample must be data[0..i) ++ data[i+1..len), for i over 0..len(data)
        from ..segs import SegEval, Unknown, normalise
        from ..poly import pshow
        key = 'counts:%sjackknife' % RS
        data = ('arg', 1, f.names.get(1))
        rets = f.return_values()
        try:
            i = None
            value = None
            frame = f
            loops = [li for li in f.loop_info() if li['item'] is not None]
            pushes = [c for c in f.calls() if c.path and short(c.path) == 'push' and rets and c.args[0] == rets[0]]
            if len(loops) == 1 and len(pushes) == 1 and pushes[0].bb in loops[0]['blocks']:
                i, rng, value = loops[0]['item'], loops[0]['iter'], pushes[0].args[1]
            elif len(rets) == 1 and tag(rets[0]) == 'call' and short(rets[0][1]) == 'collect' and tag(rets[0][2][0]) == 'call' and short(rets[0][2][0][1]) == 'map':
                it, cl = rets[0][2][0][2]
                while tag(it) == 'call' and short(it[1]) in ('into_iter', 'iter') and it[2]:
                    it = it[2][0]
                g = prog.func(cl[2]) if tag(cl) == 'agg' and cl[1] == 'closure' else None
                if g is None or len(g.return_values()) != 1:
                    raise Unknown('map closure')
                frame = g
                rng = it
                i = ('arg', 2, g.names.get(2))
                value = g.return_values()[0]
                # captured variables of the closure: data
                caps = cl[3]
            else:
                raise Unknown('neither a counting loop with one push nor (range).map(..).collect()')
            if not (tag(rng) == 'range' and tag(rng[1]) == 'const' and rng[1][2] == 0):
                raise Unknown('index range %s' % show(rng)[:40])
            n_ok = rng[2] == ('len', data) or (tag(rng[2]) == 'call' and short(rng[2][1]) == 'len' and rng[2][2][0] == data)
            bs = {}
            if frame is not f:
                for ci, cap in enumerate(caps):
                    if cap == data:
                        for z in subterms(value):
                            if tag(z) == 'upvar' and z[1] == ci:
                                bs[z] = (data, {}, poly(('len', data)))
            from ..segs import all_alternatives
            alts = all_alternatives(lambda: SegEval(prog, frame, bs, {}), value)
            L = poly(('len', data))
            want = normalise([(data, {}, poly(i)), (data, padd_(poly(i), 1), L)])

            def eq_(segs):
                return len(segs) == len(want) and all(a[0] == b[0] and peq(a[1], b[1]) and peq(a[2], b[2]) for a, b in zip(segs, want))
            wrong = [sg for sg in alts if not eq_(sg)]
            same = not wrong
            segs = wrong[0] if wrong else alts[0]

            def shs(ss):
                return ' ++ '.join('data[%s..%s)' % (pshow(lo, show) or '0', pshow(hi, show)) for _, lo, hi in ss)
            problems = []
            if not n_ok:
                problems.append('the index runs over %s, not 0..len(data)' % show(rng)[:40])
            if not same:
                problems.append('the i-th resample is %s, expected %s (the leave-one-out vector in order)' % (shs(segs), shs(want)))
            if problems:
                rep.viol('counts', key, '; '.join(problems), site_of(f.body))
            else:
                rep.ok('counts', key, 'n resamples; i-th = data[0..i) ++ data[i+1..len)')
        except Unknown as e:
            rep.undecided('counts', key, 'assembly idiom outside the segment algebra: %s' % e, site_of(f.body), proof=False)
    rep.floor('counts', 2, 'bootstrap, jackknife')
    for name in ('shuffle', 'shuffle_two'):
        f = prog.func(RS + name)
        if f is not None:
            _check_index_dist(rep, f, 'index-range:%s%s' % (RS, name), ('arg', 1, f.names.get(1)), prog)
    rep.floor('index-range', 3, 'bootstrap, shuffle, shuffle_two')

    # ---------------------------------------------------------------- D4c resampling is oblivious to the values it moves
    # Elements are selected by position only.  Comparing element values (a search by value, a branch on x[i] == y) makes the result depend on
    # ties, signed zeros and NaN: rebuilding the second array of shuffle_two by looking each shuffled x up by value pairs it with the
    # first equal x, which is not a permutation of the second array when x has repeats.
    for name in ('bootstrap', 'jackknife', 'shuffle', 'shuffle_two'):
        k0 = RS + name
        f0 = prog.func(k0)
        if f0 is None:
            continue
        key = 'value-oblivious:%s' % name
        bodies = [f0] + [prog.func(b_.key) for b_ in pdb.closures_of(k0)]
        bad = []
        for g in bodies:
            if g is None:
                continue
            pool = [c for gl in g.guards().values() for c, _ in gl] + list(g.return_values()) + [st.value for st in g.stores()]
            for t in pool:
                for z in subterms(t):
                    if tag(z) == 'bin' and len(z) > 4 and z[4] in ('f64', 'f32') and z[1] in ('Eq', 'Ne', 'Lt', 'Le', 'Gt', 'Ge'):
                        bad.append(show(z)[:60])
                    if tag(z) == 'call' and z[1].endswith('PartialEq<&B> for &A>::eq') or (tag(z) == 'call' and 'cmp::PartialEq' in z[1] and 'f64' in z[1]):
                        bad.append(show(z)[:60])
        if bad:
            rep.viol('value-oblivious', key, '%s compares element values (%s): resampling must move elements by position only' % (name, bad[0]), site_of(f0.body))
        else:
            rep.ok('value-oblivious', key, 'no comparison of element values')
    rep.floor('value-oblivious', 4, 'bootstrap, jackknife, shuffle, shuffle_two')

    # ---------------------------------------------------------------- D4' total on non-empty data: no witness (every length >= 1, equal lengths
    # for the paired shuffle) on which a resampler cannot return -- e.g. an index generator whose constructor rejects the one-point range 0..=0
    from ..precond import check_returns

    def dom(env, at):
        lens = [env[n] for n in env if tag(at[n][1]) == 'len']
        return all(v >= 1 for v in lens) and len(set(lens)) <= 1
    entry = [RS + name for name in ('bootstrap', 'jackknife', 'shuffle', 'shuffle_two') if RS + name in pdb.bodies]
    check_returns(prog, rep, 'total', entry, domain=dom, what='for non-empty data')
    rep.floor('total', 4, 'bootstrap, jackknife, shuffle, shuffle_two')

    # ---------------------------------------------------------------- D5
    check_rng_precondition(prog, rep)
    rep.floor('precondition', 1, 'DiscreteUniform::sample')
    for k in eng.visited:
        rep.touch(k)
    rep.trusted.append('alea 0.2.2 i64_in_range(min, max) panics unless max > min (quoted in RNG_PRECONDITIONS)')
    from ..chunks import check_chunk_remainder
    check_chunk_remainder(prog, rep, 'chunk-remainder', lambda k: k.startswith('validation::resample') or 'discreteuniform' in k or k.startswith('distributions::Distribution1D'))
    return {}


def padd_(p, c):
    from ..poly import padd
    return padd(p, {(): c})


def _unsite(t):
    from ..structs import strip_sites
    from ..ir import map_term

    def f(n):
        if tag(n) == 'field':
            return ('field', n[1], n[2], None)
        return n
    return map_term(strip_sites(t), f)


def _ret_components(f):
    out = []
    for r in f.return_values():
        if tag(r) == 'agg' and r[1] == 'tuple':
            out.extend(r[3])
        else:
            out.append(r)
    return out


def _views(t, buf):
    while True:
        if t == buf:
            return True
        if tag(t) in ('index', 'field', 'downcast'):
            t = t[1]
            continue
        if tag(t) == 'call' and short(t[1]) in ('deref_mut', 'deref', 'as_mut_slice', 'as_mut', 'borrow_mut') and len(t[2]) == 1:
            t = t[2][0]
            continue
        if tag(t) == 'item':
            # `for arr in [&mut a, &mut b] { .. }`: the loop variable views each listed buffer in turn
            it = t[2]
            while tag(it) == 'call' and short(it[1]) in ('into_iter', 'iter_mut', 'iter') and it[2]:
                it = it[2][0]
            if tag(it) == 'agg' and it[1] in ('array', 'tuple'):
                return any(_views(x, buf) for x in it[3])
        return False


def _is_map_collect_over(v, src):
    """v == collect(map(into_iter(src), closure)) (one output element per input element)"""
    t = v
    if tag(t) == 'call' and short(t[1]) == 'collect':
        t = t[2][0]
    else:
        return False
    if tag(t) == 'call' and short(t[1]) == 'map':
        t = t[2][0]
    else:
        return False
    while tag(t) == 'call' and short(t[1]) in ('into_iter', 'iter'):
        t = t[2][0]
    return t == src


def _check_index_dist(rep, f, key, data, prog=None):
    news = [c for c in f.calls() if c.path == 'distributions::discreteuniform::DiscreteUniform::new']
    if len(news) != 1:
        # positions drawn from the *continuous* uniform law and converted to an index: rounding to the nearest position gives the two end
        # positions half the probability of the interior ones; truncating a draw from [0, len-1) never yields the last position
        cont = [c for c in f.calls() if c.path == 'distributions::uniform::Uniform::new']
        if not news and len(cont) == 1:
            from ..ir import is_f64_method, f64_method_name
            bodies = [f] + ([prog.func(b.key) for b in prog.pdb.closures_of(f.body.key)] if prog is not None else [])
            conv = set()
            for g in bodies:
                terms = [a for c in g.calls() for a in c.args] + [st.value for st in g.stores()] + g.return_values()
                for t in terms:
                    for z in subterms(t):
                        if tag(z) == 'index' and tag(z[2]) == 'cast' and z[2][1] == 'FloatToInt':
                            inner = z[2][2]
                            if tag(inner) == 'call' and is_f64_method(inner[1]) and f64_method_name(inner[1]) in ('round', 'ceil'):
                                conv.add(f64_method_name(inner[1]))
                            else:
                                conv.add('trunc')
            hi = cont[0].args[1]
            hi_is_last = peq(poly(_nocast(_nofloat(hi))), {(('len', data),): 1, (): -1})
            if 'round' in conv:
                rep.viol('index-range', key, 'positions are drawn from the continuous Uniform(%s, %s) and rounded to the nearest index: the first and the last position '
                         'are drawn half as often as the others (positions are not equally likely)' % (show(cont[0].args[0]), show(hi)[:40]), site_of(cont[0].span))
                return
            if conv == {'trunc'} and hi_is_last:
                rep.viol('index-range', key, 'positions are drawn from the continuous Uniform(0, len - 1) and truncated: the last position is never drawn', site_of(cont[0].span))
                return
        rep.undecided('index-range', key, 'expected one DiscreteUniform::new, found %d' % len(news), site_of(f.body))
        return
    lo, hi = news[0].args
    want = {(('len', data),): 1, (): -1}
    if tag(lo) == 'const' and lo[2] == 0 and peq(poly(_nocast(hi)), want):
        rep.ok('index-range', key, 'indices ~ DiscreteUniform(0, len(%s) - 1)' % show(data))
    else:
        rep.viol('index-range', key, 'index distribution is DiscreteUniform(%s, %s), expected (0, len(%s) - 1): an index can fall outside '
                 'the data or some positions can never be drawn' % (show(lo), show(hi), show(data)), site_of(news[0].span))


def _nofloat(t):
    from ..ir import map_term

    def f(n):
        if tag(n) == 'cast' and n[1] in ('IntToFloat',):
            return n[2]
        return n
    return map_term(t, f)


def _nocast(t):
    from ..ir import map_term

    def f(n):
        if tag(n) == 'cast' and n[1] == 'IntToInt':
            return n[2]
        if tag(n) == 'bin' and n[4] != 'f64':
            return ('bin', n[1], n[2], n[3], 'usize')
        if tag(n) == 'const' and isinstance(n[2], int):
            return ('const', 'usize', n[2])
        return n
    return map_term(t, f)
