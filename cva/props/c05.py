"""C05 — matrix products follow the definition for every shape and transpose flag.

D1 orient: matmul and matmul_blocked, specialised to each of the 4 flag combinations, evaluate in the orientation
   algebra to op(A).op(B) with shape (rows(op A), cols(op B)); this includes the product kernel's stride discipline,
   the loop ranges, the conformability of the contracted dimension and (blocked) the tile-coverage idiom.
D3 Dot: the 64 product-trait methods map their name to the right flags / promotion, assert the inner dimensions and
   build the result with the outer ones.
D4 conformability: both kernels compare the inner dimensions before the first element access.
xtx = X^T.X.
Not decided: rounding (the property's oracle is exact for integer entries)."""
import re
from ..ir import tag, show, short, subterms
from ..matexpr import MatEngine, MatProblem, T, show_mat, expected_product
from ..idx import IdxFunc, strip_casts
from ..poly import poly, peq
from ..framework import site_of

LEVEL = 'other'
EXPLANATION = (
    'Symbolic matrix algebra over MIR: each kernel is specialised to constant transpose flags (switches on the flag parameters '
    'pruned), the accumulate statement c[i*N+j] += x[..]*y[..] is recognised from its affine access maps as a contraction over one shared '
    'loop index whose range equals the column count of one factor and the row count of the other (modulo dominating asserts), tiled loops '
    'are collapsed with the tile-coverage lemma, and transposes/recursive matmul calls are composed with (XY)^T = Y^T X^T. The result must '
    'be op(A).op(B) for all four flag combinations, for every shape. The 64 Dot methods are matched against flags, promotion, inner-dimension '
    'assert and outer-dimension result shape.')

U = 'linalg::utils::'
M = 'linalg::array::matrix::Matrix'
V = 'linalg::array::vec::Vector'
FLAGS = {'dot': (False, False), 't_dot': (True, False), 'dot_t': (False, True), 't_dot_t': (True, True)}


def run(prog, rep, tier, repo):
    pdb = prog.pdb
    me = MatEngine(prog)
    # ------------------------------------------------------------------ D1
    for fn in ('matmul', 'matmul_blocked'):
        k = U + fn
        if k not in pdb.bodies:
            rep.viol('orient', 'orient:%s' % k, 'function disappeared')
            continue
        rep.touch(k)
        for fl in ((False, False), (True, False), (False, True), (True, True)):
            key = 'orient:%s:(%s,%s)' % (fn, 'T' if fl[0] else 'N', 'T' if fl[1] else 'N')
            try:
                e, r, c, g, ix = me.summary(k, fl)
            except MatProblem as ex:
                if ex.definite:
                    rep.viol('orient', key, '%s with flags %s: %s' % (fn, fl, ex), site_of(pdb.bodies[k]))
                else:
                    rep.undecided('orient', key, '%s with flags %s: %s' % (fn, fl, ex), site_of(pdb.bodies[k]))
                continue
            want = expected_product(*fl)
            a = ('arg', 1, g.names.get(1))
            b = ('arg', 2, g.names.get(2))
            da, db = ix.dims().get(a), ix.dims().get(b)
            wr = strip_casts(da[1] if fl[0] else da[0])
            wc = strip_casts(db[0] if fl[1] else db[1])
            if e != want:
                rep.viol('orient', key, '%s(.., transpose_a=%s, transpose_b=%s) computes %s, expected %s' % (fn, fl[0], fl[1], show_mat(e), show_mat(want)), site_of(pdb.bodies[k]))
            elif not (peq(poly(r), poly(wr)) and peq(poly(c), poly(wc))):
                rep.viol('orient', key, 'result shape is %s x %s, expected %s x %s' % (show(r), show(c), show(wr), show(wc)), site_of(pdb.bodies[k]))
            else:
                rep.ok('orient', key, '%s = %s, shape %s x %s' % (key, show_mat(e), show(r)[:40], show(c)[:40]))
                rep.sample('%s flags %s => %s' % (fn, fl, show_mat(e)))
    rep.floor('orient', 8, 'matmul and matmul_blocked x 4 flag combinations')

    # ------------------------------------------------------------------ D4 conformability asserts in the kernels
    for fn in ('matmul', 'matmul_blocked'):
        f = prog.func(U + fn)
        if f is None:
            continue
        for fl in ((False, False), (True, False), (False, True)):
            g = f.specialise({5: fl[0], 6: fl[1]})
            ix = IdxFunc(prog, g)
            a = ('arg', 1, g.names.get(1))
            b = ('arg', 2, g.names.get(2))
            da, db = ix.dims().get(a), ix.dims().get(b)
            key = 'conformable:%s:(%s,%s)' % (fn, 'T' if fl[0] else 'N', 'T' if fl[1] else 'N')
            if not da or not db:
                rep.undecided('conformable', key, 'operands not bound to shapes')
                continue
            inner_a = strip_casts(da[0] if fl[0] else da[1])
            inner_b = strip_casts(db[1] if fl[1] else db[0])
            # the equality must hold on every path that returns a value (an assert_eq! leaves no other way out), whatever the loop idiom
            rets_bb = list(g.cfg.returns) if hasattr(g.cfg, 'returns') else []
            ok = bool(rets_bb)
            for bb in rets_bb:
                uf = ix.equalities(bb)
                if not uf.same(inner_a, inner_b):
                    ok = False
            helper = None
            if not ok:
                # the comparison may sit in a shape helper (`product_dims((rows_a, cols_a, ta), (rows_b, cols_b, tb))` with the assert inside):
                # an in-crate callee that can panic, is given both operands' dimensions and lies on every path to the return is not read here
                atoms_a = {z for z in subterms(inner_a) if tag(z) in ('arg', 'len')}
                atoms_b = {z for z in subterms(inner_b) if tag(z) in ('arg', 'len')}
                for c_ in g.calls():
                    if not c_.path or c_.path not in pdb.bodies or c_.path in (U + 'matmul', U + 'matmul_blocked', U + 'transpose', U + 'is_matrix'):
                        continue
                    h_ = prog.func(c_.path)
                    if h_ is None or not h_.cfg.panics:
                        continue
                    at_ = {z for a_ in c_.args for z in subterms(a_)}
                    if (atoms_a & at_) and (atoms_b & at_) and all(g.cfg.dominates(c_.bb, bb) for bb in rets_bb):
                        helper = c_.path
            if ok:
                rep.ok('conformable', key, 'assert_eq!(%s, %s) dominates the accumulation' % (show(inner_a)[:40], show(inner_b)[:40]))
            elif helper:
                rep.undecided('conformable', key, 'no comparison of the inner dimensions in %s itself; %s receives both operands\' dimensions and can panic (its test is not read)' % (
                    fn, short(helper)), site_of(f.body), proof=False)
            else:
                rep.viol('conformable', key, '%s does not compare the inner dimensions %s and %s before multiplying: non-conformable operands whose '
                         'first factor is narrower yield a value instead of a panic' % (fn, show(inner_a)[:50], show(inner_b)[:50]), site_of(f.body))
    # the vector . vector kernel: equal lengths on every path that returns a value (a loop that indexes both slices up to len(x) panics
    # only when y is the shorter one; with y longer it returns a truncated sum)
    f = prog.func(U + 'dot')
    key = 'conformable:dot'
    if f is None:
        rep.viol('conformable', key, 'linalg::utils::dot disappeared')
    else:
        rep.touch(f.body.key)
        ix = IdxFunc(prog, f)
        x_, y_ = ('arg', 1, f.names.get(1)), ('arg', 2, f.names.get(2))
        lx, ly = ('len', x_), ('len', y_)
        ok = bool(f.cfg.returns)
        for bb in f.cfg.returns:
            if not ix.equalities(bb).same(lx, ly):
                ok = False
        if ok:
            rep.ok('conformable', key, 'len(x) == len(y) holds at every return of dot')
        else:
            rep.viol('conformable', key, 'dot(x, y) can return a value without len(x) == len(y) having been established: vectors of different length are '
                     'not rejected (the longer second operand is silently truncated)', site_of(f.body))
    rep.floor('conformable', 7, '2 kernels x 3 non-recursive flag combinations + dot')

    # xtx
    f = prog.func(U + 'xtx')
    key = 'orient:xtx'
    if f is not None:
        rep.touch(f.body.key)
        rets = f.return_values()
        x = ('arg', 1, f.names.get(1))
        kk = ('arg', 2, f.names.get(2))
        ok = len(rets) == 1 and tag(rets[0]) == 'call' and rets[0][1] == U + 'matmul' and rets[0][2][:4] == (x, x, kk, kk) and \
            rets[0][2][4] == ('const', 'bool', True) and rets[0][2][5] == ('const', 'bool', False)
        # refuted only in the read form: one matmul call with literal transposition flags
        read = len(rets) == 1 and tag(rets[0]) == 'call' and rets[0][1] == U + 'matmul' and len(rets[0][2]) == 6 and \
            all(tag(z) == 'const' for z in rets[0][2][4:6])
        if ok:
            rep.ok('orient', key, 'xtx(x, k) = matmul(x, x, k, k, true, false) = X^T.X')
        elif read:
            rep.viol('orient', key, 'xtx is %s' % [show(r) for r in rets], site_of(f.body))
        else:
            rep.undecided('orient', key, 'xtx is not a single matmul call with literal flags (%s): not read' % [show(r)[:80] for r in rets], site_of(f.body), proof=False)

    # ------------------------------------------------------------------ D3 Dot methods
    n = {'mm': 0, 'mv': 0, 'vm': 0, 'vv': 0}
    for k, b in sorted(pdb.bodies.items()):
        if not (b.impl and b.impl['trait'] and b.impl['trait'].startswith('linalg::array::dot::Dot<')):
            continue
        name = b.name
        if name not in FLAGS:
            continue
        st = b.impl['self_ty']
        m = re.match(r'linalg::array::dot::Dot<(.*), (.*)>$', b.impl['trait'])
        ot = m.group(1)
        f = prog.func(k)
        rep.touch(k)
        key = 'dot:%s' % k
        me_ = ('arg', 1, f.names.get(1))
        other = ('arg', 2, f.names.get(2))
        s_mat, o_mat = st.endswith('Matrix'), ot.endswith('Matrix')
        rets = f.return_values()
        if s_mat and o_mat:
            n['mm'] += 1
            fl = FLAGS[name]
            problems = []
            if len(rets) != 1 or not (tag(rets[0]) == 'call' and rets[0][1] == M + '::new'):
                rep.undecided('dot', key, 'result is not Matrix::new(..)', site_of(b))
                continue
            mm = rets[0][2][0]
            if not (tag(mm) == 'call' and mm[1] == U + 'matmul'):
                rep.undecided('dot', key, 'data is not a matmul call', site_of(b))
                continue
            a0, a1, ra, rb, fa, fb = mm[2]
            if not (_is_data_of(a0, me_) and _is_data_of(a1, other)):
                problems.append('operands are (%s, %s), expected (self.data, other.data)' % (show(a0), show(a1)))
            if not (ra == ('field', me_, 1, 'usize') and rb == ('field', other, 1, 'usize')):
                problems.append('row counts passed are (%s, %s)' % (show(ra), show(rb)))
            if (fa, fb) != (('const', 'bool', fl[0]), ('const', 'bool', fl[1])):
                problems.append('%s passes flags (%s, %s), expected %s' % (name, show(fa), show(fb), fl))
            inner_a = ('field', me_, 1 if fl[0] else 2, 'usize')
            inner_b = ('field', other, 2 if fl[1] else 1, 'usize')
            outer_a = ('field', me_, 2 if fl[0] else 1, 'usize')
            outer_b = ('field', other, 1 if fl[1] else 2, 'usize')
            call_bb = [c.bb for c in f.calls() if c.path == U + 'matmul']
            gs = [cn for cn, v in f.guards().get(call_bb[0], []) if v is True] if call_bb else []
            if not any(tag(cn) == 'bin' and cn[1] == 'Eq' and {cn[2], cn[3]} == {inner_a, inner_b} for cn in gs):
                problems.append('no assert_eq!(%s, %s) before the product' % (show(inner_a), show(inner_b)))
            if not (strip_casts(rets[0][2][1]) == outer_a and strip_casts(rets[0][2][2]) == outer_b):
                problems.append('result shape is (%s, %s), expected (%s, %s)' % (show(rets[0][2][1]), show(rets[0][2][2]), show(outer_a), show(outer_b)))
            if problems:
                rep.viol('dot', key, '%s: %s' % (name, '; '.join(problems)), site_of(b))
            else:
                rep.ok('dot', key, '%s: matmul(self, other, %s, %s), inner assert, outer shape' % (name, fl[0], fl[1]))
        elif s_mat and not o_mat:
            n['mv'] += 1
            inner = 'dot' if name in ('dot', 'dot_t') else 't_dot'
            # to_vec(<inner>(self, o)) with o = to_matrix(owned copy of other), and t_mut(o) called before
            ok, why, unread = False, '', ''
            if len(rets) == 1 and tag(rets[0]) == 'call' and rets[0][1] == M + '::to_vec':
                c0 = rets[0][2][0]
                if tag(c0) == 'call' and 'Dot<' in c0[1] and short(c0[1]) == inner and c0[2][0] == me_:
                    o = c0[2][1]
                    prod = [c for c in f.calls() if c.path == c0[1]]
                    ori = _orientation(prog, f, o, prod[0].bb if prod else None)
                    if ori is None:
                        unread = 'how the vector operand %s is promoted to a matrix is not read' % show(o)[:60]
                    elif ori == ('col', other):
                        ok = True
                    elif ori[1] != other:
                        why = 'right operand is a promotion of %s, not of `other`' % show(ori[1])[:40]
                    else:
                        why = 'the promoted vector is not transposed into a column before the product'
                else:
                    why = 'inner product is %s, expected self.%s(column)' % (show(c0)[:60], inner)
            else:
                unread = 'result is not of the form <product>.to_vec() (the promotion / product lives in a helper?)'
            if not ok and unread:
                rep.undecided('dot', key, '%s: %s' % (name, unread), site_of(b), proof=False)
            else:
                (rep.ok if ok else rep.viol)('dot', key, '%s: vector promoted to a column (to_matrix + t_mut), self.%s(col).to_vec()' % (name, inner) if ok else '%s: %s' % (name, why), site_of(b))
        elif not s_mat and o_mat:
            n['vm'] += 1
            inner = 'dot' if name in ('dot', 't_dot') else 'dot_t'
            ok, why, unread = False, '', ''
            if len(rets) == 1 and tag(rets[0]) == 'call' and rets[0][1] == M + '::to_vec':
                c0 = rets[0][2][0]
                if tag(c0) == 'call' and 'Dot<' in c0[1] and short(c0[1]) == inner and c0[2][1] == other:
                    o = c0[2][0]
                    prod = [c for c in f.calls() if c.path == c0[1]]
                    ori = _orientation(prog, f, o, prod[0].bb if prod else None)
                    if ori is None:
                        unread = 'how the vector operand %s is promoted to a matrix is not read' % show(o)[:60]
                    elif ori == ('row', me_):
                        ok = True
                    elif ori[1] != me_:
                        why = 'left operand is a promotion of %s, not of `self`' % show(ori[1])[:40]
                    else:
                        why = 'left operand is self promoted to a column, expected a row (self.to_matrix())'
                else:
                    why = 'inner product is %s, expected row.%s(other)' % (show(c0)[:60], inner)
            else:
                unread = 'result is not of the form <product>.to_vec() (the promotion / product lives in a helper?)'
            if not ok and unread:
                rep.undecided('dot', key, '%s: %s' % (name, unread), site_of(b), proof=False)
            else:
                (rep.ok if ok else rep.viol)('dot', key, '%s: vector promoted to a row, row.%s(other).to_vec()' % (name, inner) if ok else '%s: %s' % (name, why), site_of(b))
        else:
            n['vv'] += 1
            ok = len(rets) == 1 and tag(rets[0]) == 'call' and rets[0][1] == U + 'dot' and _is_vdata_of(rets[0][2][0], me_) and _is_vdata_of(rets[0][2][1], other)
            read = len(rets) == 1 and tag(rets[0]) == 'call' and rets[0][1] == U + 'dot' and len(rets[0][2]) == 2
            if ok:
                rep.ok('dot', key, '%s: dot(self.data, other.data)' % name)
            elif read:
                rep.viol('dot', key, '%s is %s' % (name, [show(r) for r in rets]), site_of(b))
            else:
                rep.undecided('dot', key, '%s is not a single call of utils::dot (%s): not read' % (name, [show(r)[:80] for r in rets]), site_of(b), proof=False)
    rep.floor('dot', 64, '16 Dot impls x 4 methods')
    _dot_shapes(prog, rep)
    rep.info('dot', 'dot:counts', 'matrix.matrix %(mm)d, matrix.vector %(mv)d, vector.matrix %(vm)d, vector.vector %(vv)d' % n)
    # t_mut / to_matrix semantics used above are C15's (matrix-invariant, promotion)
    return {}


def _orientation(prog, f, t, use_bb, depth=0):
    """('row'|'col', v) when matrix term t (in body f) is vector v promoted by to_matrix (a 1 x n row) and transposed in place by an
    even / odd number of t_mut calls that dominate use_bb (None: the return); promotions kept in in-crate helpers are followed.
    None when the construction is not of this form."""
    from ..structs import subst
    if tag(t) != 'call':
        return None
    cfg = f.cfg
    targets = [use_bb] if use_bb is not None else list(cfg.returns)
    flips = [c for c in f.calls() if c.path == M + '::t_mut' and c.args and c.args[0] == t]
    for c in flips:
        if not all(cfg.dominates(c.bb, u) for u in targets):
            return None           # transposed on some paths only
    if t[1] == V + '::to_matrix' and t[2]:
        base = ('row', _strip_copies(t[2][0]))
    elif t[1] in prog.pdb.bodies and depth < 3:
        g = prog.func(t[1])
        rv = g.return_values() if g is not None else []
        if len(rv) != 1:
            return None
        inner = _orientation(prog, g, rv[0], None, depth + 1)
        if inner is None:
            return None
        params = {('arg', i + 1, g.names.get(i + 1)): a for i, a in enumerate(t[2])}
        base = (inner[0], _strip_copies(subst(inner[1], params)))
    else:
        return None
    if len(flips) % 2:
        base = ('col' if base[0] == 'row' else 'row', base[1])
    return base


def _is_data_of(t, m):
    while tag(t) == 'call' and short(t[1]) in ('deref',):
        t = t[2][0]
    return (tag(t) == 'call' and t[1] == M + '::data' and t[2][0] == m) or t == ('field', m, 0, V)


def _is_vdata_of(t, v):
    while tag(t) == 'call' and short(t[1]) in ('deref',):
        t = t[2][0]
    return (tag(t) == 'call' and t[1] == V + '::data' and t[2][0] == v) or (tag(t) == 'field' and t[1] == v and t[2] == 0)


def _strip_copies(t):
    while tag(t) == 'call' and short(t[1]) in ('to_owned', 'clone', 'deref', 'borrow') and t[2]:
        t = t[2][0]
    return t


def _dot_shapes(prog, rep):
    """Matrix . Matrix, decided on exact shape witnesses (all shapes 1..3 x 1..3 for both operands): whatever return site a method takes
    for a conformable pair -- the product itself, or a shortcut for a special operand -- the Matrix it returns has the shape the
    definition gives (dot: r1 x c2, t_dot: c1 x c2, dot_t: r1 x r2, t_dot_t: c1 x r2).  The branch conditions and the shape of the
    returned value are read through the helpers by the witness evaluator; a site whose shape cannot be read decides nothing."""
    from ..precond import NC, Frame, tev, Uneval, _nk
    import itertools
    pdb = prog.pdb
    ncx = NC(prog, max_depth=4)
    want = {'dot': (lambda a, b: (a[0], b[1]), lambda a, b: a[1] == b[0]), 't_dot': (lambda a, b: (a[1], b[1]), lambda a, b: a[0] == b[0]),
            'dot_t': (lambda a, b: (a[0], b[0]), lambda a, b: a[1] == b[1]), 't_dot_t': (lambda a, b: (a[1], b[0]), lambda a, b: a[0] == b[1])}
    n = 0
    for k, b in sorted(pdb.bodies.items()):
        if not (b.impl and b.impl['trait'] and b.impl['trait'].startswith('linalg::array::dot::Dot<')) or b.name not in want:
            continue
        m = re.match(r'linalg::array::dot::Dot<(.*), (.*)>$', b.impl['trait'])
        if not (b.impl['self_ty'].endswith('Matrix') and m.group(1).endswith('Matrix')):
            continue
        f = prog.func(k)
        if f is None:
            continue
        n += 1
        key = 'dot-shape:%s' % k
        shape_of, conformable = want[b.name]
        bad = None
        read = 0
        for r1, c1, r2, c2 in itertools.product((1, 2, 3), repeat=4):
            if not conformable((r1, c1), (r2, c2)):
                continue
            env = {}
            for ai, (r, c) in ((1, (r1, c1)), (2, (r2, c2))):
                a = ('arg', ai, None)
                env[_nk(('field', a, 1, None))] = r
                env[_nk(('field', a, 2, None))] = c
                env[_nk(('len', ('field', a, 0, None)))] = r * c
                env[_nk(('len', ('field', ('field', a, 0, None), 0, None)))] = r * c
            ctx = Frame(f, env=env, ncx=ncx)
            live = ncx.reachable(f, ctx)
            sites = [d for d in f._defs.get(0, []) if d[1] in live]
            if len(sites) != 1:
                continue
            d = sites[0]
            rt = f.rvalue_term(d[3], d[1]) if d[0] == 'assign' else f.call_term(d[2], d[1])
            try:
                got = (tev(('field', rt, 1, None), ctx), tev(('field', rt, 2, None), ctx))
            except Uneval:
                continue
            except RecursionError:
                continue
            read += 1
            exp = shape_of((r1, c1), (r2, c2))
            if got != exp:
                bad = ((r1, c1), (r2, c2), got, exp, show(rt)[:70])
                break
        for kk in ncx.visited:
            rep.touch(kk)
        if bad:
            rep.viol('dot-shape', key, '%s of a %dx%d and a %dx%d matrix returns %s, a %dx%d matrix; the product is %dx%d' % (
                b.name, bad[0][0], bad[0][1], bad[1][0], bad[1][1], bad[4], bad[2][0], bad[2][1], bad[3][0], bad[3][1]), site_of(b))
        elif read:
            rep.ok('dot-shape', key, 'shape of the returned matrix agrees with the definition on %d conformable shape witnesses' % read)
        else:
            rep.undecided('dot-shape', key, 'shape of the returned value not read on any witness', site_of(b), proof=False)
    rep.floor('dot-shape', 16, 'Matrix . Matrix impls x 4 methods')
